----------------------------- MODULE SelObjective -----------------------------
(***************************************************************************)
(* C05.  Selection criteria as functions of a CONTRIBUTION VECTOR c (how   *)
(* often each candidate is used; sum > 0).  The four decision encodings    *)
(* are views of c: a subset decision is any listing of the multiset, an    *)
(* integer decision is c itself, a binary decision is c in {0,1}^n, a real *)
(* decision is any positive multiple of c.  All values are exact rationals *)
(* <<num, den>>; norm-based criteria are given squared.                    *)
(***************************************************************************)
EXTENDS Integers, Sequences, FiniteSets

RECURSIVE SumTo(_, _)
SumTo(f, n) == IF n = 0 THEN 0 ELSE f[n] + SumTo(f, n - 1)
Abs(x) == IF x < 0 THEN -x ELSE x
N(c) == Len(c)
Tot(c) == SumTo(c, Len(c))
RatEq(p, q) == p[1] * q[2] = q[1] * p[2]

\* linear criteria (estimated / genomic / weighted breeding values, random, expected maximum BV, per-cross OHV and UC):
\*   latent_t = - sum_i c_i d[i][t] / sum c
Lin(c, d, t) == << -SumTo([k \in 1..N(c) |-> c[k] * d[k][t]], N(c)), Tot(c) >>
\* family share: - (contribution of family f) / sum c
FamShare(c, fam, f) == << -SumTo([k \in 1..N(c) |-> IF fam[k] = f THEN c[k] ELSE 0], N(c)), Tot(c) >>
\* quadratic criteria through the Gram matrix Kmat = C'C:  || C c / sum c ||^2 = c' Kmat c / (sum c)^2
Quad(c, Kmat) == << SumTo([a \in 1..N(c) |-> SumTo([b \in 1..N(c) |-> c[a] * Kmat[a][b] * c[b]], N(c))], N(c)), Tot(c) * Tot(c) >>
\* L1 distance per trait:  sum_l | sum_i c_i V[l][i] | / sum c
L1(c, V) == << SumTo([l \in 1..Len(V) |-> Abs(SumTo([k \in 1..N(c) |-> c[k] * V[l][k]], N(c)))], Len(V)), Tot(c) >>
\* allele-frequency distance of the selected set to a target frequency tn/td (marker weights w, dosages g[i][l]):
\*   sum_l w_l | tn_l/td - sum_i c_i g_il / (ploidy sum c) |
Pafd(c, g, pl, w, tn, td) ==
    << SumTo([l \in 1..Len(w) |-> w[l] * Abs(tn[l] * pl * Tot(c) - td * SumTo([k \in 1..N(c) |-> c[k] * g[k][l]], N(c)))], Len(w)),
       td * pl * Tot(c) >>

\* population allele unavailability: a locus counts when the target frequency tn/td can no longer be reached from the
\* selected set by selection alone -- target 0 but allele "1" fixed, target 1 but allele "1" absent, intermediate target
\* but the locus fixed either way.  S = sum_i c_i g_il copies of allele "1" out of pl * sum c.
PauLocus(c, g, pl, l, tn, td) ==
    LET S == SumTo([k \in 1..N(c) |-> c[k] * g[k][l]], N(c))  full == pl * Tot(c) IN
    \/ tn[l] <= 0 /\ S = full
    \/ tn[l] >= td /\ S = 0
    \/ tn[l] > 0 /\ tn[l] < td /\ (S = 0 \/ S = full)
Pau(c, g, pl, w, tn, td) ==
    << SumTo([l \in 1..Len(w) |-> IF PauLocus(c, g, pl, l, tn, td) THEN w[l] ELSE 0], Len(w)), 1 >>

\* counts of a subset listing (0-based candidate indices) over n candidates
Counts(x, n) == [k \in 1..n |-> Cardinality({p \in 1..Len(x) : x[p] = k - 1})]

\* ---- objective assembly: obj = w (.) T(latent) for T in {identity, sum, dot}
TransSum(lat) == LET F[k \in 0..Len(lat)] == IF k = 0 THEN <<0, 1>> ELSE << F[k-1][1] * lat[k][2] + lat[k][1] * F[k-1][2], F[k-1][2] * lat[k][2] >> IN F[Len(lat)]
TransDot(lat, lw) == TransSum([k \in 1..Len(lat) |-> << lw[k] * lat[k][1], lat[k][2] >>])

\* ---- small exhaustive model: invariances of the definitions
CONSTANTS MaxN, MaxC, DVals
VARIABLES c, d
vars == <<c, d>>
Init == \E n \in 1..MaxN : c \in {x \in [1..n -> 0..MaxC] : Tot(x) > 0} /\ d \in [1..n -> [1..1 -> DVals]]
Next == UNCHANGED vars
Spec == Init /\ [][Next]_vars
Scaled(x, s) == [k \in 1..Len(x) |-> s * x[k]]
Gram == [a \in 1..N(c) |-> [b \in 1..N(c) |-> d[a][1] * d[b][1] + (IF a = b THEN 1 ELSE 0)]]
\* positive rescaling of the contribution vector changes no criterion
ScaleInvariant == \A s \in {2, 3} :
    /\ RatEq(Lin(Scaled(c, s), d, 1), Lin(c, d, 1))
    /\ RatEq(Quad(Scaled(c, s), Gram), Quad(c, Gram))
    /\ RatEq(L1(Scaled(c, s), <<[k \in 1..N(c) |-> d[k][1]]>>), L1(c, <<[k \in 1..N(c) |-> d[k][1]]>>))
\* the quadratic form of a Gram matrix is non-negative; the linear criterion lies between the extreme members
QuadNonNeg == Quad(c, Gram)[1] >= 0
LinBetween == \A k \in 1..N(c) : c[k] > 0 =>
    (\E a \in 1..N(c) : c[a] > 0 /\ -d[a][1] * Tot(c) <= Lin(c, d, 1)[1]) /\ (\E b \in 1..N(c) : c[b] > 0 /\ Lin(c, d, 1)[1] <= -d[b][1] * Tot(c))
==============================================================================
