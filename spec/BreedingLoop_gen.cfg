SPECIFICATION Spec
CONSTANTS
  Slots = {"a", "b"}
  MaxRep = 3
  MaxGen = 3
  ResetMode = "deep"
  RecordHist = TRUE
INVARIANT EmitHist
CHECK_DEADLOCK FALSE
