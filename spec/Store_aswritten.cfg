SPECIFICATION Spec
CONSTANTS
  Fields = {"taxa", "grp"}
  Vals = {"x", "y"}
  Locs = {"root", "sub"}
  MaxWrites = 3
  WriteClearsAbsent = FALSE
  DeepCopyFresh = TRUE
INVARIANT ReadBackIsLast
PROPERTY CopyEqualWhenMade
PROPERTY MutateLeavesSource
CHECK_DEADLOCK FALSE
