SPECIFICATION Spec
CONSTANTS
  NN = 3
  KK = 2
  AVals <- AV
  BVals <- BV
  GVals <- GV
  Cap = 1
PROPERTY Terminates
CHECK_DEADLOCK FALSE
