SPECIFICATION Spec
CONSTANTS
  K = 4
  D = 8
  MaxS = 1
  Scheme = "4w"
INVARIANT EnumerationIsClosedForm
INVARIANT LimitIsSelfingInvariant
INVARIANT InbredIsHomozygous
INVARIANT InbredTwoWayShare
INVARIANT MarginalShares
INVARIANT LocusSymmetric
INVARIANT CompleteLinkage
INVARIANT EmitTable
CHECK_DEADLOCK FALSE
