SPECIFICATION Spec
CONSTANTS
  L = 3
  NTaxa = 2
  MaxSelf = 1
INVARIANT TypeOK
INVARIANT Fidelity
INVARIANT NoForeign
INVARIANT ExpansionOnce
CHECK_DEADLOCK FALSE
