SPECIFICATION Spec
CONSTANTS
  Pool <- PoolDef
  GrpOf <- GrpDef
  NameOf <- NameDef
  MaxLen = 3
  ReorderResetsMeta = FALSE
INVARIANT TypeOK
INVARIANT GroupedOK
PROPERTY CacheOnlyFromGroup
CHECK_DEADLOCK FALSE
