SPECIFICATION TSpec
CONSTANTS
  MaxN = 1
  MaxC = 1
  DVals = {0}
INVARIANT Report
CHECK_DEADLOCK FALSE
