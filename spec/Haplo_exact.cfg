SPECIFICATION Spec
CONSTANTS
  MaxChr = 2
  MaxMark = 3
  PosSet = {0, 1, 2, 4}
INVARIANT ApportionOK
INVARIANT ApportionAsFunction
INVARIANT EveryMarkerOneBlock
INVARIANT OrderedContiguous
INVARIANT WithinChrom
INVARIANT ExactTotal
PROPERTY Terminates
CHECK_DEADLOCK FALSE
