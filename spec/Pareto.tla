------------------------------- MODULE Pareto -------------------------------
(***************************************************************************)
(* C19.  Non-dominated filtering, feasibility-first dominance and the      *)
(* distance-to-preference-vector transformation of pybrops.                *)
(*                                                                         *)
(* Three parts:                                                            *)
(*  (1) the O(n^2) DEFINITION of Pareto efficiency on weighted points and  *)
(*      the relation Admissible(P, mask) the property states;              *)
(*  (2) the pivot-loop ALGORITHM of core/util/pareto.py as a state machine *)
(*      (variables kept, pix), one Step per loop iteration;                *)
(*  (3) pure operators: Dominates (pymoo_addon.dominates) and the squared  *)
(*      distance of min-max scaled points to a preference line, as an      *)
(*      exact integer over a stated common denominator.                    *)
(* Points are sequences of integers; objectives are maximised after        *)
(* multiplication by the weight vector.                                    *)
(***************************************************************************)
EXTENDS Integers, Sequences, FiniteSets

CONSTANTS MaxN,     \* maximal number of points in the exhaustive model
          NObj,     \* number of objectives
          Grid,     \* set of integer coordinates
          Wts       \* set of integer weights (non-zero)

VARIABLES pts,      \* the input points (sequence of NObj-tuples), fixed per behaviour
          wt,       \* the weight vector, fixed per behaviour
          kept,     \* sequence of indices (into pts) still considered efficient
          pix,      \* position in kept of the next pivot
          done      \* loop finished

vars == <<pts, wt, kept, pix, done>>

------------------------------------------------------------------------------
(* (1) definition *)
Weighted(P, w) == [i \in DOMAIN P |-> [j \in DOMAIN P[i] |-> P[i][j] * w[j]]]
GeqAll(a, b) == \A j \in DOMAIN a : a[j] >= b[j]
GtSome(a, b) == \E j \in DOMAIN a : a[j] > b[j]
Dom(a, b)    == GeqAll(a, b) /\ GtSome(a, b)          \* a dominates b
Undominated(P, i) == \A k \in DOMAIN P : ~Dom(P[k], P[i])
Covered(P, i, mask) == \E k \in DOMAIN P : mask[k] /\ GeqAll(P[k], P[i])

\* what the property demands of a mask over the (weighted) points P
MarkedUndominated(P, mask) == \A i \in DOMAIN P : mask[i] => Undominated(P, i)
UnmarkedCovered(P, mask)   == \A i \in DOMAIN P : ~mask[i] => Covered(P, i, mask)
Admissible(P, mask) == MarkedUndominated(P, mask) /\ UnmarkedCovered(P, mask)

EffVectors(P) == {P[i] : i \in {k \in DOMAIN P : Undominated(P, k)}}
MaskVectors(P, mask) == {P[i] : i \in {k \in DOMAIN P : mask[k]}}

Sign(x) == IF x > 0 THEN 1 ELSE IF x < 0 THEN -1 ELSE 0

------------------------------------------------------------------------------
(* (2) the pivot loop of is_pareto_efficient *)
WP == Weighted(pts, wt)

Init == /\ \E n \in 1..MaxN : pts \in [1..n -> [1..NObj -> Grid]]
        /\ wt \in [1..NObj -> Wts]
        /\ kept = [i \in 1..Len(pts) |-> i]
        /\ pix = 1
        /\ done = FALSE

\* positions of kept that survive a filtering against the pivot at position pix
Survives(k) == k = pix \/ GtSome(WP[kept[k]], WP[kept[pix]])
SelectPos(S) == LET F[k \in 0..Len(kept)] ==
                      IF k = 0 THEN <<>>
                      ELSE IF k \in S THEN Append(F[k-1], kept[k]) ELSE F[k-1]
                IN F[Len(kept)]

Step == /\ ~done /\ pix <= Len(kept)
        /\ LET surv == {k \in 1..Len(kept) : Survives(k)}
           IN /\ kept' = SelectPos(surv)
              /\ pix' = Cardinality({k \in surv : k < pix}) + 2   \* new position of the pivot + 1
        /\ UNCHANGED <<pts, wt, done>>

Finish == /\ ~done /\ pix > Len(kept)
          /\ done' = TRUE
          /\ UNCHANGED <<pts, wt, kept, pix>>

Next == Step \/ Finish
Spec == Init /\ [][Next]_vars /\ WF_vars(Next)

AlgoMask == [i \in 1..Len(pts) |-> \E k \in 1..Len(kept) : kept[k] = i]

------------------------------------------------------------------------------
(* properties of the algorithm and of the definition *)
TypeOK == /\ pix \in 1..(Len(pts)+1) /\ Len(kept) <= Len(pts) /\ done \in BOOLEAN

\* the loop's result is an admissible mask
AlgoAdmissible == done => Admissible(WP, AlgoMask)
\* its efficient vectors are exactly the definition's (order of points irrelevant)
AlgoVectors == done => MaskVectors(WP, AlgoMask) = EffVectors(WP)
\* kept is strictly increasing (index form = mask form)
KeptSorted == \A a, b \in 1..Len(kept) : a < b => kept[a] < kept[b]
\* the pivot never lands on an index before an already-processed survivor: every position
\* before pix has been a pivot or survived all pivots so far, hence is undominated among kept
ProcessedUndominated ==
    \A a \in 1..Len(kept) : a < pix =>
        \A b \in 1..Len(kept) : ~Dom(WP[kept[b]], WP[kept[a]]) \/ b > a
\* positive rescaling of an objective does not change the efficient index set
RescaleInvariant ==
    LET P1 == Weighted(pts, wt)
        P2 == Weighted(pts, [j \in 1..NObj |-> Sign(wt[j])])
    IN {i \in DOMAIN pts : Undominated(P1, i)} = {i \in DOMAIN pts : Undominated(P2, i)}
\* the loop terminates
Terminates == <>done
\* kept only shrinks
Shrinks == [][Len(kept') <= Len(kept)]_vars

------------------------------------------------------------------------------
(* (3a) feasibility-first dominance (minimising objectives), cv <= 0 feasible *)
LeqAll(a, b) == \A j \in DOMAIN a : a[j] <= b[j]
LtSome(a, b) == \E j \in DOMAIN a : a[j] < b[j]
Dominates(o1, c1, o2, c2) ==
    IF c1 <= 0 /\ c2 <= 0 THEN LeqAll(o1, o2) /\ LtSome(o1, o2) ELSE c1 < c2

(* (3b) squared distance to the preference line.                            *)
(* P: sequence of integer points, sg: sign/weight per objective, L: the     *)
(* preference vector (non-negative integers, not all zero).                 *)
(* scaled coordinate s_ij = (sg_j x_ij - min_j) / range_j, 0 if range_j = 0 *)
(* dist^2_i = |s_i|^2 - (s_i . L)^2 / (L . L)                                *)
(* With R_j = range_j (1 if 0), PR = prod_j R_j, LL = L.L the number         *)
(*   DistNum(i) = LL * sum_j b_ij^2 - (sum_j b_ij L_j)^2,  b_ij = a_ij*PR/R_j *)
(* equals dist^2_i * PR^2 * LL exactly.                                      *)
SeqMin(f, D) == CHOOSE m \in {f[i] : i \in D} : \A i \in D : m <= f[i]
SeqMax(f, D) == CHOOSE m \in {f[i] : i \in D} : \A i \in D : m >= f[i]
RECURSIVE ProdUpTo(_, _)
ProdUpTo(f, n) == IF n = 0 THEN 1 ELSE f[n] * ProdUpTo(f, n-1)
RECURSIVE SumUpTo(_, _)
SumUpTo(f, n) == IF n = 0 THEN 0 ELSE f[n] + SumUpTo(f, n-1)

ColMin(P, sg, j) == SeqMin([i \in DOMAIN P |-> sg[j] * P[i][j]], DOMAIN P)
ColMax(P, sg, j) == SeqMax([i \in DOMAIN P |-> sg[j] * P[i][j]], DOMAIN P)
Range(P, sg, j)  == ColMax(P, sg, j) - ColMin(P, sg, j)
RangeOr1(P, sg, j) == IF Range(P, sg, j) = 0 THEN 1 ELSE Range(P, sg, j)
DistPR(P, sg) == ProdUpTo([j \in 1..Len(sg) |-> RangeOr1(P, sg, j)], Len(sg))
DistLL(L) == SumUpTo([j \in 1..Len(L) |-> L[j] * L[j]], Len(L))
DistScale(P, sg, L) == DistPR(P, sg) * DistPR(P, sg) * DistLL(L)
DistNum(P, sg, L, i) ==
    LET n  == Len(sg)
        PR == DistPR(P, sg)
        b  == [j \in 1..n |-> (sg[j] * P[i][j] - ColMin(P, sg, j)) * (PR \div RangeOr1(P, sg, j))]
        bb == SumUpTo([j \in 1..n |-> b[j] * b[j]], n)
        bl == SumUpTo([j \in 1..n |-> b[j] * L[j]], n)
    IN DistLL(L) * bb - bl * bl

==============================================================================
