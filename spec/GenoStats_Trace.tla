--------------------------- MODULE GenoStats_Trace ---------------------------
(* Validates statistics recorded from the real genotype-matrix classes against GenoStats.         *)
(* A record describes one matrix (cls = "unphased" | "phased"):                                    *)
(*   n, ploidy, loci = sequence of phased compositions <<n00,n01,n10,n11>> (diploid records) or    *)
(*   dose = sequence of dosage-class compositions (any ploidy), counted from the raw allele calls, *)
(*   raw allele calls), and the observed outputs in exact integer form:                            *)
(*   acount[l]; af[l] = round(afreq*2n), afzero[l], afone[l], afin01[l], aflat[l] (on the lattice) *)
(*   poly[l], fixed[l]; maf[l] = round(maf*2n); meh = round(meh * (2n)^2 * L / 2), mehlat;         *)
(*   gtrows, gt[k][l] counts, gtf[k][l] = round(gtfreq*n), gtflat                                  *)
(*   small matrices only: dos = dosage matrix, tac = tacount, taf2 = round(2*tafreq),               *)
(*   c012, cm101 (codings), cmm = round({-1,m,1} coding * n)                                        *)
EXTENDS GenoStats, Json, IOUtils, TLC

Cases == JsonDeserialize(IOEnv.TRACE_FILE)
VARIABLE i
tvars == <<i, q>>

\* ploidy of the record and dosage-class composition of locus l: diploid records give phased compositions (loci),
\* records of other ploidies give the dosage-class counts directly (dose)
PloidyOf(c) == c.ploidy
DC(c, l) == IF "dose" \in DOMAIN c THEN c.dose[l] ELSE GtCount(c.loci[l])
NLoci(c) == IF "dose" \in DOMAIN c THEN Len(c.dose) ELSE Len(c.loci)

RECURSIVE SumHet(_, _)
SumHet(c, k) == IF k = 0 THEN 0 ELSE HetNumDC(DC(c, k)) + SumHet(c, k - 1)

LocusVerdict(c, l) ==
    LET x == DC(c, l)
        a == ACountDC(x)
        P == PloidyOf(c)
    IN IF c.acount[l] # a THEN "acount"
       ELSE IF ~c.afin01[l] THEN "afreq-outside-0-1"
       ELSE IF ~c.aflat[l] \/ c.af[l] # a THEN "afreq-value"
       ELSE IF c.afzero[l] # (a = 0) THEN "afreq-not-exactly-0-when-allele-absent"
       ELSE IF c.afone[l] # (a = CopiesDC(x)) THEN "afreq-not-exactly-1-when-allele-fixed"
       ELSE IF c.poly[l] # PolyDC(x) THEN "apoly"
       ELSE IF c.fixed[l] # ~PolyDC(x) THEN "afixed"
       ELSE IF c.fixed[l] = c.poly[l] THEN "afixed-not-complement-of-apoly"
       ELSE IF c.maf[l] # MinorCountDC(x) THEN "maf"
       ELSE IF c.gtrows # P + 1 THEN "gtcount-classes"
       ELSE IF \E k \in 1..(P + 1) : c.gt[k][l] # x[k] THEN "gtcount"
       ELSE IF ~c.gtflat \/ \E k \in 1..(P + 1) : c.gtf[k][l] # x[k] THEN "gtfreq"
       ELSE "ok"

\* per-cell outputs of small matrices: dos = dosage; tac = tacount; tafP = round(ploidy * tafreq); codings for diploids
SmallVerdict(c) ==
    LET n == c.n
        L == NLoci(c)
    IN IF \E t \in 1..n : \E l \in 1..L : c.tac[t][l] # c.dos[t][l] THEN "tacount"
       ELSE IF \E t \in 1..n : \E l \in 1..L : c.taf2[t][l] # c.dos[t][l] THEN "tafreq"
       ELSE IF \E t \in 1..n : \E l \in 1..L : c.c012[t][l] # c.dos[t][l] THEN "coding-012"
       ELSE IF PloidyOf(c) # 2 THEN "ok"
       ELSE IF \E t \in 1..n : \E l \in 1..L : c.cm101[t][l] # c.dos[t][l] - 1 THEN "coding-m101"
       ELSE IF \E t \in 1..n : \E l \in 1..L :
                 c.cmm[t][l] # (IF c.dos[t][l] = 1 THEN ACountDC(DC(c, l)) - n ELSE (c.dos[t][l] - 1) * n)
            THEN "coding-m1m1"
       ELSE "ok"

Verdict(c) ==
    LET L == NLoci(c)
        bad == {l \in 1..L : LocusVerdict(c, l) # "ok"}
    IN IF \E l \in 1..L : NDC(DC(c, l)) # c.n \/ Len(DC(c, l)) # PloidyOf(c) + 1 THEN "harness-composition"
       ELSE IF bad # {} THEN LocusVerdict(c, CHOOSE l \in bad : \A m \in bad : l <= m)
       ELSE IF ~c.mehlat \/ c.meh # SumHet(c, L) THEN "meh"
       ELSE IF c.small THEN SmallVerdict(c)
       ELSE "ok"

TInit == i \in 1..Len(Cases) /\ q = <<0, 0, 0, 0>>
TSpec == TInit /\ [][UNCHANGED tvars]_tvars
Report == PrintT(<<"CASE", Cases[i].id, Verdict(Cases[i])>>)
==============================================================================
