---------------------------- MODULE BreedingLoop ----------------------------
(***************************************************************************)
(* C20.  RecurrentSelectionBreedingProgram.evolve / reset / advance.       *)
(*                                                                         *)
(* Control skeleton: one action per call the programme makes (operators    *)
(* and logbook), in the order of the code; counters rep, gen, t (t_cur),   *)
(* lrep (lbook.rep).  Operators are the ENVIRONMENT: every operator call   *)
(* may, for every state slot, keep the container it was handed, mutate the *)
(* container object in place, mutate a member object in place, or return a *)
(* fresh container (deeply fresh or sharing members with the old one).     *)
(* Aliasing with the stored start containers is tracked per slot:          *)
(*    cs  the working container IS the start container object              *)
(*    ms  the working container's members are the start's member objects   *)
(*    cd  working content differs from the initial content                 *)
(*    sd  START content differs from the initial content (must never hold) *)
(* ResetMode = "deep" is the intended design (copy.deepcopy); "shallow"    *)
(* and "alias" are the realistic wrong variants, used to show that the     *)
(* invariants are not vacuous (TLC must find the aliasing counterexample). *)
(***************************************************************************)
EXTENDS Integers, Sequences, FiniteSets, TLC

CONSTANTS Slots,        \* set of state slots (genome, geno, pheno, bval, gmod)
          MaxRep,       \* replicates are chosen in 1..MaxRep
          MaxGen,       \* generations in 0..MaxGen
          ResetMode,    \* "deep" | "shallow" | "alias"
          RecordHist    \* keep the call history (only for behaviour generation)

VARIABLES pc,      \* program counter: which call comes next
          nrep, ngen, loginit,   \* arguments of evolve(), fixed per behaviour
          rep,     \* replicates started so far
          gen,     \* generations completed in this replicate
          t,       \* t_cur handed to operators
          lrep,    \* lbook.rep  (starts at 0 here; the real start value is an offset)
          al,      \* aliasing/dirtiness flags per slot
          hist,    \* call history (sequence of records) if RecordHist
          tb       \* t_cur at which the running advance() call began (1 inside evolve(); the current time for a direct call)

vars == <<pc, nrep, ngen, loginit, rep, gen, t, lrep, al, hist, tb>>

Outcomes == {"keep", "mutC", "mutM", "freshDeep", "freshShallow"}
Flag == [cs : BOOLEAN, ms : BOOLEAN, cd : BOOLEAN, sd : BOOLEAN]

\* order of calls inside one generation (advance())
\* @type: Seq(Str);
GenSeq == <<"pselect", "log_pselect", "mate", "log_mate", "evaluate", "log_evaluate",
            "sselect", "log_sselect", "tick">>
IsOp(c)  == c \in {"pselect", "mate", "evaluate", "sselect", "evalinit"}
IsLog(c) == c \in {"log_pselect", "log_mate", "log_evaluate", "log_sselect", "log_initialize"}

NoOc == [s \in Slots |-> "none"]       \* calls that are not operator calls carry no outcome
Rec(call, oc) == IF RecordHist THEN Append(hist, [call |-> call, rep |-> lrep, t |-> t, oc |-> oc]) ELSE hist

Init == /\ pc = "idle"
        /\ nrep \in 1..MaxRep /\ ngen \in 0..MaxGen /\ loginit \in BOOLEAN
        /\ rep = 0 /\ gen = 0 /\ t = 0 /\ lrep = 0
        /\ al = [s \in Slots |-> [cs |-> FALSE, ms |-> FALSE, cd |-> FALSE, sd |-> FALSE]]
        /\ hist = <<>> /\ tb = 0

\* ---- evolve(): per replicate  lbook.rep += 1 ; reset() ; evaluate ; [log_initialize] ; t += 1 ; advance
BeginRep == /\ pc = "idle" /\ rep < nrep
            /\ lrep' = lrep + 1 /\ rep' = rep + 1
            /\ pc' = "reset"
            /\ hist' = Rec("begin_rep", NoOc)
            /\ UNCHANGED <<nrep, ngen, loginit, gen, t, al, tb>>

\* @type: ({cs: Bool, ms: Bool, cd: Bool, sd: Bool}) => {cs: Bool, ms: Bool, cd: Bool, sd: Bool};
ResetFlags(f) == CASE ResetMode = "deep"    -> [f EXCEPT !.cs = FALSE, !.ms = FALSE, !.cd = f.sd]
                   [] ResetMode = "shallow" -> [f EXCEPT !.cs = FALSE, !.ms = TRUE,  !.cd = f.sd]
                   [] OTHER                 -> [f EXCEPT !.cs = TRUE,  !.ms = TRUE,  !.cd = f.sd]
Reset == /\ pc = "reset"
         /\ al' = [s \in Slots |-> ResetFlags(al[s])]
         /\ t' = 0 /\ gen' = 0
         /\ pc' = "evalinit"
         /\ hist' = Rec("reset", NoOc)
         /\ UNCHANGED <<nrep, ngen, loginit, rep, lrep, tb>>

\* effect of one operator outcome on one slot (type annotations are read by Apalache only)
\* @type: ({cs: Bool, ms: Bool, cd: Bool, sd: Bool}, Str) => Set({cs: Bool, ms: Bool, cd: Bool, sd: Bool});
Apply(f, o) ==
    CASE o = "keep"         -> {f}
      [] o = "mutC"         -> {[f EXCEPT !.cd = TRUE, !.sd = f.sd \/ f.cs]}
      [] o = "mutM"         -> {[f EXCEPT !.cd = TRUE, !.sd = f.sd \/ f.ms]}
      [] o = "freshDeep"    -> {[f EXCEPT !.cs = FALSE, !.ms = FALSE, !.cd = b] : b \in BOOLEAN}
      [] o = "freshShallow" -> {[f EXCEPT !.cs = FALSE, !.cd = b] : b \in BOOLEAN}

NextPc(c) == CASE c = "evalinit" -> IF loginit THEN "log_initialize" ELSE "tick0"
               [] c = "log_initialize" -> "tick0"
               [] c = "pselect" -> "log_pselect" [] c = "log_pselect" -> "mate"
               [] c = "mate" -> "log_mate" [] c = "log_mate" -> "evaluate"
               [] c = "evaluate" -> "log_evaluate" [] c = "log_evaluate" -> "sselect"
               [] c = "sselect" -> "log_sselect" [] c = "log_sselect" -> "tick"

\* an operator call: the environment picks an outcome per slot
\* @type: ({cs: Bool, ms: Bool, cd: Bool, sd: Bool}, {cs: Bool, ms: Bool, cd: Bool, sd: Bool}) => Bool;
OpEffect(f, g) == g \in UNION {Apply(f, o) : o \in Outcomes}
OpCall(c) == /\ pc = c /\ IsOp(c)
             /\ IF RecordHist
                THEN \E oc \in [Slots -> Outcomes] :
                        /\ al' \in {g \in [Slots -> Flag] : \A s \in Slots : g[s] \in Apply(al[s], oc[s])}
                        /\ hist' = Rec(c, oc)
                ELSE /\ al' \in [Slots -> Flag]
                     /\ \A s \in Slots : OpEffect(al[s], al'[s])
                     /\ hist' = hist
             /\ pc' = NextPc(c)
             /\ UNCHANGED <<nrep, ngen, loginit, rep, gen, t, lrep, tb>>

\* a logbook call: observes, changes nothing
LogCall(c) == /\ pc = c /\ IsLog(c)
              /\ pc' = NextPc(c)
              /\ hist' = Rec(c, NoOc)
              /\ UNCHANGED <<nrep, ngen, loginit, rep, gen, t, lrep, al, tb>>

\* t_cur += 1 after the initial evaluation, then advance(ngen)
Tick0 == /\ pc = "tick0"
         /\ t' = t + 1
         /\ pc' = IF ngen > 0 THEN "pselect" ELSE "idle"
         /\ hist' = Rec("tick0", NoOc)
         /\ UNCHANGED <<nrep, ngen, loginit, rep, gen, lrep, al>>
         /\ tb' = t + 1

Tick == /\ pc = "tick"
        /\ t' = t + 1 /\ gen' = gen + 1
        /\ pc' = IF gen + 1 < ngen THEN "pselect" ELSE "idle"
        /\ hist' = Rec("tick", NoOc)
        /\ UNCHANGED <<nrep, ngen, loginit, rep, lrep, al, tb>>

\* ---- the other public entry points, called directly on a programme whose evolve() has returned
TMax == 2 * MaxGen + 1
\* advance(k): k more cycles from the CURRENT time (no reset, no initial evaluation, the replicate counters untouched)
MoreAdvanceBody(k) == /\ pc = "finished" /\ ~RecordHist
                      /\ ngen' = k /\ gen' = 0 /\ tb' = t
                      /\ pc' = "pselect"
                      /\ UNCHANGED <<nrep, loginit, rep, t, lrep, al, hist>>
MoreAdvance == \E k \in 1..MaxGen : t + k <= TMax /\ MoreAdvanceBody(k)
\* reset(): the working state is replaced by copies of the stored start, the time goes back to 0
ResetCall == /\ pc = "finished" /\ ~RecordHist /\ t > 0
             /\ al' = [s \in Slots |-> ResetFlags(al[s])]
             /\ t' = 0 /\ gen' = 0 /\ ngen' = 0 /\ tb' = 0
             /\ UNCHANGED <<pc, nrep, loginit, rep, lrep, hist>>

Finished == /\ pc = "idle" /\ rep = nrep
            /\ pc' = "finished"
            /\ hist' = Rec("final", NoOc)
            /\ UNCHANGED <<nrep, ngen, loginit, rep, gen, t, lrep, al, tb>>

Next == \/ BeginRep \/ Reset \/ Tick0 \/ Tick \/ Finished \/ MoreAdvance \/ ResetCall
        \/ \E c \in {"evalinit", "pselect", "mate", "evaluate", "sselect"} : OpCall(c)
        \/ \E c \in {"log_initialize", "log_pselect", "log_mate", "log_evaluate", "log_sselect"} : LogCall(c)

Spec == Init /\ [][Next]_vars /\ WF_vars(Next)

------------------------------------------------------------------------------
TypeOK == /\ rep \in 0..MaxRep /\ gen \in 0..MaxGen /\ t \in 0..TMax /\ lrep \in 0..MaxRep /\ tb \in 0..TMax
          /\ al \in [Slots -> Flag]

\* the stored initial state is never modified
StartNeverModified == \A s \in Slots : ~al[s].sd
\* every replicate starts from content equal to the initial one, in fresh objects
ReplicateStartsEqual == pc = "evalinit" => \A s \in Slots : ~al[s].cd /\ ~al[s].cs /\ ~al[s].ms
\* time index: 0 at the initial evaluation; inside advance the time at which the call began + completed generations
TimeIndex == /\ pc \in {"evalinit", "log_initialize", "tick0"} => t = 0
             /\ pc \in {"pselect", "log_pselect", "mate", "log_mate", "evaluate", "log_evaluate",
                        "sselect", "log_sselect", "tick"} => t = tb + gen
\* logbook replicate counter = replicates started
LogbookRep == lrep = rep
\* the run ends, having done all replicates and generations
Done == <>(pc = "finished")
DoneAll == pc = "finished" => rep = nrep /\ (gen = ngen \/ ngen = 0)
\* t never decreases inside a replicate, and only Reset sets it back
TimeMonotone == [][t' >= t \/ pc = "reset" \/ (pc = "finished" /\ t' = 0)]_vars
\* a cycle advances the time by exactly one, a direct advance() call starts at the time the programme stands at
CycleTicksByOne == [][(pc = "tick" => t' = t + 1) /\ (pc = "finished" /\ pc' = "pselect" => t' = t)]_vars
\* inside evolve() every advance starts at time 1
EvolveStartsAtOne == [][pc = "tick0" => tb' = 1]_vars
==============================================================================
