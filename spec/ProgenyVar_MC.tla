---------------------------- MODULE ProgenyVar_MC ----------------------------
EXTENDS ProgenyVar, Json, TLC
\* the joint-origin tables, one per (scheme, selfing depth, rho), for the trace specification
EmitTable == AtSelf => PrintT(ToJson([scheme |-> Scheme, K |-> K, D |-> D, s |-> gen, rho |-> rho, joint |-> Joint]))
==============================================================================
