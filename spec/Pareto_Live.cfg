SPECIFICATION Spec
CONSTANTS
  MaxN = 3
  NObj = 2
  Grid = {0, 1, 2}
  Wts <- WtsB
  CvSet <- CvA
  ObjSet = {0, 1}
  LSet = {0, 1}
  ShiftSet <- ShiftA
PROPERTY Terminates
CHECK_DEADLOCK FALSE
