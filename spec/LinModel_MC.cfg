SPECIFICATION Spec
CONSTANTS
  MaxN = 3
  MaxP = 2
  Eff <- EffDef
INVARIANT PermEquivariant
INVARIANT SplitAdditive
INVARIANT FlagsConsistent
INVARIANT VarNonNeg
CHECK_DEADLOCK FALSE
