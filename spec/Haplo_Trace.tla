----------------------------- MODULE Haplo_Trace -----------------------------
(* Validates recorded executions of nhaploblk_chrom / haplobin / haplobin_bounds / haplomat and the *)
(* OHV / OPV computations against module Haplo.                                                     *)
(* record: lay (positions per chromosome, integers), B, nblk, hbin (flat), hst, hsp, hln,            *)
(*   geno[p][i][l] in {0,1} (flat marker index l), u[l][t] integer effects,                          *)
(*   hmat[p][i][b][t] = round(block value), hfin (all finite / on lattice), which ("util"|"problem"), *)
(*   crosses = sequence of parent index sequences (0-based), ohv[s][t], opvsets, opv[s][t]            *)
EXTENDS Haplo, Json, IOUtils, TLC

Cases == JsonDeserialize(IOEnv.TRACE_FILE)
VARIABLE i
tvars == <<i, lay, B, nb, pc>>

ToSet(s) == {s[k] : k \in 1..Len(s)}
ChromOf(L, l) == CHOOSE c \in 1..Len(L) : SumTo([d \in 1..Len(L) |-> Len(L[d])], c - 1) < l /\ l <= SumTo([d \in 1..Len(L) |-> Len(L[d])], c)
MarkIn(L, l) == l - SumTo([d \in 1..Len(L) |-> Len(L[d])], ChromOf(L, l) - 1)
NRuns(c) == Len(c.hst)
RunSum(c, p, t, ii, k) == SumTo([z \in 1..(c.hsp[k] - c.hst[k]) |-> c.geno[p][ii][c.hst[k] + z] * c.u[c.hst[k] + z][t]], c.hsp[k] - c.hst[k])
TotalVal(c, p, t, ii) == SumTo([l \in 1..NMark(c.lay) |-> c.geno[p][ii][l] * c.u[l][t]], NMark(c.lay))
MaxOf(S) == CHOOSE x \in S : \A y \in S : y <= x
\* ploidy = number of chromosome copies (phase planes) of the genotype matrix
NPhase(c) == Len(c.geno)
BestBlock(c, S, b, t) == MaxOf({c.hmat[p][ii + 1][b][t] : p \in 1..NPhase(c), ii \in S})
Ohv(c, S, t) == NPhase(c) * SumTo([b \in 1..c.B |-> BestBlock(c, S, b, t)], c.B)

Verdict(c) ==
    LET L == c.lay
        M == NMark(L)
        NT == Len(c.u[1])
        N == Len(c.geno[1])
    IN IF c.err # "none" THEN "exception-on-valid-input"
       ELSE IF Len(c.nblk) # Len(L) \/ SumTo(c.nblk, Len(c.nblk)) # c.B THEN "apportionment-total-is-not-the-request"
       ELSE IF \E k \in 1..Len(c.nblk) : c.nblk[k] < 1 THEN "chromosome-without-a-block"
       ELSE IF Len(c.hbin) # M THEN "marker-not-assigned"
       ELSE IF \E l \in 1..M : ~(c.hbin[l] - Offset(c.nblk, ChromOf(L, l)) \in 0..(c.nblk[ChromOf(L, l)] - 1))
            THEN "block-spans-chromosomes"
       ELSE IF \E l \in 1..M : ~Allowed(L, ChromOf(L, l), c.nblk[ChromOf(L, l)], MarkIn(L, l), c.hbin[l] - Offset(c.nblk, ChromOf(L, l)))
            THEN "marker-outside-its-block-interval"
       ELSE IF ~NonDecr(c.hbin) THEN "blocks-not-contiguous-and-ordered"
       ELSE IF \E k \in 1..NRuns(c) : ~(c.hst[k] < c.hsp[k] /\ c.hln[k] = c.hsp[k] - c.hst[k]
                                          /\ \A l \in (c.hst[k] + 1)..c.hsp[k] : c.hbin[l] = c.hbin[c.hst[k] + 1])
            THEN "bounds-are-not-the-runs-of-the-labels"
       ELSE IF c.hst[1] # 0 \/ c.hsp[NRuns(c)] # M \/ \E k \in 1..(NRuns(c) - 1) : c.hsp[k] # c.hst[k + 1] \/ c.hbin[c.hsp[k]] = c.hbin[c.hsp[k] + 1]
            THEN "bounds-are-not-the-runs-of-the-labels"
       ELSE IF ~c.hfin THEN "block-values-not-finite"
       ELSE IF Len(c.hmat) # NPhase(c) THEN "block-values-for-a-different-number-of-chromosome-copies"
       ELSE IF \E p \in 1..NPhase(c) : \E ii \in 1..N : \E t \in 1..NT : \E k \in 1..NRuns(c) : c.hmat[p][ii][k][t] # RunSum(c, p, t, ii, k)
            THEN "block-value"
       ELSE IF \E p \in 1..NPhase(c) : \E ii \in 1..N : \E t \in 1..NT : \E k \in (NRuns(c) + 1)..c.B : c.hmat[p][ii][k][t] # 0
            THEN "surplus-block-not-zero"
       ELSE IF \E p \in 1..NPhase(c) : \E ii \in 1..N : \E t \in 1..NT :
                 SumTo([k \in 1..c.B |-> c.hmat[p][ii][k][t]], c.B) # TotalVal(c, p, t, ii) THEN "block-values-do-not-sum-to-the-copy-value"
       ELSE IF \E s \in 1..Len(c.crosses) : \E t \in 1..NT : c.ohv[s][t] # Ohv(c, ToSet(c.crosses[s]), t) THEN "ohv-value"
       ELSE IF \E s \in 1..Len(c.opvsets) : \E t \in 1..NT : c.opv[s][t] # -Ohv(c, ToSet(c.opvsets[s]), t) THEN "opv-value"
       ELSE IF Cardinality(ToSet(c.hbin)) # c.B THEN "fewer-blocks-than-requested"
       ELSE "ok"

TInit == i \in 1..Len(Cases) /\ lay = <<>> /\ B = 0 /\ nb = <<>> /\ pc = "trace"
TSpec == TInit /\ [][UNCHANGED tvars]_tvars
Report == PrintT(<<"CASE", Cases[i].id, Verdict(Cases[i])>>)
==============================================================================
