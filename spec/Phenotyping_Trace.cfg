SPECIFICATION TSpec
CONSTANTS
  MaxN = 1
  MaxEnv = 1
  MaxRep = 1
INVARIANT Report
CHECK_DEADLOCK FALSE
