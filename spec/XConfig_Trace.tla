----------------------------- MODULE XConfig_Trace -----------------------------
(***************************************************************************)
(* Validates cross configurations produced by the real configuration and   *)
(* protocol classes.  Candidates are logged 0-based.  Kinds:               *)
(*  cfg     enc "tiled" | "sus" | "susx" (weights rounded to 1e-6: slack), *)
(*          d contribution vector, nc, np requested, tab the xconfig       *)
(*          optional truncation part: topk TRUE, crit (integers, larger is *)
(*          better), and twin part: twin (decision of the permuted /       *)
(*          relabelled run mapped back to the original numbering)          *)
(*  mate    xmap, xn, xk, strict, enc, d (contribution per map row), nc, tab *)
(*  pref    objs (integers) of the front members, decns their decisions,   *)
(*          wt, vec the declared linear preference, chosen the decision    *)
(*          the configuration was derived from                             *)
(***************************************************************************)
EXTENDS XConfig, Json, IOUtils, TLC

Cases == JsonDeserialize(IOEnv.TRACE_FILE)
VARIABLE i
tvars == <<i, dec, tab, stage>>

Plus1(t) == [r \in 1..Len(t) |-> [c \in 1..Len(t[r]) |-> t[r][c] + 1]]
ShapeOK(c) == Len(c.tab) = c.nc /\ \A r \in 1..Len(c.tab) : Len(c.tab[r]) = c.np
Support(d) == {x \in 1..Len(d) : d[x] > 0}
SusSlackOK(d, sz, cnt, slack) ==
    LET W == Sum(d) IN
    /\ SumTo(cnt, Len(d)) = sz
    /\ \A x \in 1..Len(d) : /\ cnt[x] * W >= sz * d[x] - (W - 1) - slack
                            /\ cnt[x] * W <= sz * d[x] + (W - 1) + slack
                            /\ (d[x] = 0 => cnt[x] = 0)
CfgVerdict(c) ==
    LET tb == Plus1(c.tab)
        n == Len(c.d)
    IN IF c.err # "none" THEN "exception-on-valid-input"
       ELSE IF ~ShapeOK(c) THEN "wrong-number-of-crosses-or-parents"
       ELSE IF Sum(c.d) = 0 THEN "empty-decision"
       ELSE IF \E p \in 1..Cells(tb) : Cell(tb, p) \notin Support(c.d) THEN "refers-to-individual-outside-the-decision"
       ELSE IF c.enc = "susx" /\ ~SusSlackOK(c.d, Cells(tb), CountsN(tb, n), c.slack) THEN "multiplicity-not-within-one-of-proportional-share"
       ELSE IF c.enc = "sus" /\ ~SusOK(c.d, Cells(tb), CountsN(tb, n)) THEN "multiplicity-not-within-one-of-proportional-share"
       ELSE IF c.enc = "tiled" /\ ~TiledOK(c.d, Cells(tb), CountsN(tb, n)) THEN "multiplicity-not-even-over-the-decision"
       ELSE IF ~LocalOpt(tb) THEN "self-pairing-removable-by-one-exchange"
       ELSE IF ~c.meta THEN "configuration-metadata"
       ELSE IF c.topk /\ Cardinality(Support(c.d)) # c.k THEN "decision-size"
       ELSE IF c.topk /\ ~IsTopK(Support(c.d), c.crit, n) THEN "not-the-best-candidates-by-the-criterion"
       ELSE IF c.hastwin /\ ~IsTopK({c.twin[x] + 1 : x \in 1..Len(c.twin)}, c.crit, n) THEN "permuted-population-not-the-best-candidates"
       ELSE IF c.hastwin /\ NoBoundaryTie(Support(c.d), c.crit, n) /\ {c.twin[x] + 1 : x \in 1..Len(c.twin)} # Support(c.d) THEN "choice-not-equivariant-under-permutation"
       ELSE "ok"

MateVerdict(c) ==
    LET nd == Len(c.xmap)
        d == c.d
        chosen == Support(d)
        rowix(r) == {x \in 1..nd : c.xmap[x] = c.tab[r]}
        cnt == [x \in 1..nd |-> Cardinality({r \in 1..Len(c.tab) : c.xmap[x] = c.tab[r]})]
    IN IF c.err # "none" THEN "exception-on-valid-input"
       ELSE IF ~XmapOK(c.xmap, c.xn, c.xk, c.strict) THEN "cross-map-is-not-the-ordered-upper-triangle"
       ELSE IF ~ShapeOK(c) THEN "wrong-number-of-crosses-or-parents"
       ELSE IF Len(d) # nd THEN "decision-length-differs-from-cross-map"
       ELSE IF Sum(d) = 0 THEN "empty-decision"
       ELSE IF \E r \in 1..Len(c.tab) : rowix(r) \cap chosen = {} THEN "cross-not-among-the-chosen-crosses"
       ELSE IF c.enc = "tiled" /\ ~TiledOK(d, c.nc, cnt) THEN "multiplicity-not-even-over-the-decision"
       ELSE IF c.enc = "sus" /\ ~SusOK(d, c.nc, cnt) THEN "multiplicity-not-within-one-of-proportional-share"
       ELSE IF c.enc = "susx" /\ ~SusSlackOK(d, c.nc, cnt, c.slack) THEN "multiplicity-not-within-one-of-proportional-share"
       ELSE IF ~c.meta THEN "configuration-metadata"
       ELSE "ok"

PrefDominates(t, s) == (\A o \in 1..Len(t) : t[o] <= s[o]) /\ (\E o \in 1..Len(t) : t[o] < s[o])
PrefVerdict(c) ==
    LET ns == Len(c.objs)
        \* the declared preference: wt * (vec . objectives), larger is preferred
        \* (c.trans: the transformation of the front -- "dot": vec . objectives; "sq": its square; "max": the largest weighted
        \*  objective -- the weight multiplies the transformation's OUTPUT)
        lin == [s \in 1..ns |-> SumTo([o \in 1..Len(c.vec) |-> c.vec[o] * c.objs[s][o]], Len(c.vec))]
        mx == [s \in 1..ns |-> CHOOSE x \in {c.vec[o] * c.objs[s][o] : o \in 1..Len(c.vec)} :
                                   \A y \in {c.vec[o] * c.objs[s][o] : o \in 1..Len(c.vec)} : y <= x]
        tr == IF "trans" \in DOMAIN c THEN c.trans ELSE "dot"
        scores == [s \in 1..ns |-> c.wt * (IF tr = "sq" THEN lin[s] * lin[s] ELSE IF tr = "max" THEN mx[s] ELSE lin[s])]
        best == {s \in 1..ns : IsPreferred(s, scores)}
    IN IF c.err # "none" THEN "exception-on-valid-input"
       ELSE IF ns = 0 THEN "empty-front"
       ELSE IF \A s \in best : c.decns[s] # c.chosen THEN "configuration-not-derived-from-the-preferred-front-member"
       ELSE IF \E s, t \in 1..ns : PrefDominates(c.objs[t], c.objs[s]) /\ c.decns[s] = c.chosen THEN "configuration-derived-from-a-dominated-solution"
       ELSE "ok"

TInit == i \in 1..Len(Cases) /\ dec = <<>> /\ tab = <<>> /\ stage = "trace"
TSpec == TInit /\ [][UNCHANGED tvars]_tvars
Verdict(c) == CASE c.kind = "cfg" -> CfgVerdict(c)
                [] c.kind = "mate" -> MateVerdict(c)
                [] OTHER -> PrefVerdict(c)
Report == PrintT(<<"CASE", Cases[i].id, Verdict(Cases[i])>>)
==============================================================================
