SPECIFICATION TraceSpec
CONSTANTS
  Slots = {1, 2, 3, 4, 5}
  MaxRep = 100
  MaxGen = 100
  ResetMode = "deep"
  RecordHist = FALSE
CONSTRAINT Track
INVARIANT TraceInv
POSTCONDITION Report
CHECK_DEADLOCK FALSE
