---------------------------- MODULE GenoStatsPoly ----------------------------
(***************************************************************************)
(* C09 for any ploidy: the per-locus identities of GenoStats over dosage-  *)
(* class compositions dc (dc[k+1] taxa carry k copies of the allele),      *)
(* exhaustively for ploidies 1..MaxP and populations of 1..MaxNP taxa.     *)
(***************************************************************************)
EXTENDS GenoStats
CONSTANTS MaxP, MaxNP
VARIABLES dc
pvars == <<dc, q>>
PInit == /\ q = <<1, 0, 0, 0>>
         /\ \E P \in 1..MaxP : dc \in {x \in [1..(P + 1) -> 0..MaxNP] : NDC(x) >= 1 /\ NDC(x) <= MaxNP}
PSpec == PInit /\ [][UNCHANGED pvars]_pvars
PFreqInRange  == 0 <= ACountDC(dc) /\ ACountDC(dc) <= CopiesDC(dc)
PFreqExtreme  == (ACountDC(dc) = 0 \/ ACountDC(dc) = CopiesDC(dc)) <=> AllCopiesEqualDC(dc)
PFixedIffAllEqual == ~PolyDC(dc) <=> AllCopiesEqualDC(dc)
PGtCover      == NDC(dc) = SumSeq(dc, PloidyDC(dc) + 1)
PMinorAtMostHalf == 2 * MinorCountDC(dc) <= CopiesDC(dc) /\ MinorCountDC(dc) >= 0
PHetSymmetric == HetNumDC(dc) = MinorCountDC(dc) * (CopiesDC(dc) - MinorCountDC(dc)) /\ (~PolyDC(dc) <=> HetNumDC(dc) = 0)
==============================================================================
