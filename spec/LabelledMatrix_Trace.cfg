SPECIFICATION TSpec
CONSTANTS
  Pool = {1}
  GrpOf = 1
  NameOf = 1
  MaxLen = 1
  ReorderResetsMeta = TRUE
INVARIANT Report
CHECK_DEADLOCK FALSE
