------------------------------ MODULE Phenotyping ------------------------------
(***************************************************************************)
(* C14.  Simulated field trials and mean-phenotype breeding values.        *)
(* A trial over n taxa, environments 1..NEnv with nrep[e] replicates is    *)
(* built block by block (one action per replicate block, environment-      *)
(* major); a record is <<taxon, env, rep>>; its value is the taxon's true  *)
(* genotypic value plus one environment effect per environment, one        *)
(* replicate effect per replicate and one error per record (per trait).    *)
(* Mean breeding values are arithmetic means per taxon, aligned to the     *)
(* taxon order of a genotype matrix, missing for unphenotyped taxa.        *)
(***************************************************************************)
EXTENDS Integers, Sequences, FiniteSets

CONSTANTS MaxN, MaxEnv, MaxRep
VARIABLES n, nrep,     \* number of taxa, replicates per environment (sequence)
          e, k,        \* next block: environment, replicate
          recs         \* records produced so far
vars == <<n, nrep, e, k, recs>>

RECURSIVE SumTo(_, _)
SumTo(f, m) == IF m = 0 THEN 0 ELSE f[m] + SumTo(f, m - 1)

Init == /\ n \in 1..MaxN
        /\ \E ne \in 1..MaxEnv : nrep \in [1..ne -> 1..MaxRep]
        /\ e = 1 /\ k = 1 /\ recs = <<>>
Block == /\ e <= Len(nrep)
         /\ recs' = recs \o [i \in 1..n |-> <<i, e, k>>]
         /\ IF k < nrep[e] THEN k' = k + 1 /\ e' = e ELSE k' = 1 /\ e' = e + 1
         /\ UNCHANGED <<n, nrep>>
Next == Block
Spec == Init /\ [][Next]_vars /\ WF_vars(Next)
Done == e > Len(nrep)

\* position of record (i, e, k) in the finished table (1-based), environment-major then replicate then taxon
Position(nn, nr, i, ee, kk) == nn * (SumTo(nr, ee - 1) + (kk - 1)) + i
ExpectedRecord(nn, nr, pos) ==
    LET blk == (pos - 1) \div nn
        ee == CHOOSE x \in 1..Len(nr) : SumTo(nr, x - 1) <= blk /\ blk < SumTo(nr, x)
    IN << ((pos - 1) % nn) + 1, ee, blk - SumTo(nr, ee - 1) + 1 >>

RecordCount == Done => Len(recs) = n * SumTo(nrep, Len(nrep))
EachOnce == Done => \A i \in 1..n : \A ee \in 1..Len(nrep) : \A kk \in 1..nrep[ee] :
                Cardinality({p \in 1..Len(recs) : recs[p] = <<i, ee, kk>>}) = 1
Layout == Done => \A p \in 1..Len(recs) : recs[p] = ExpectedRecord(n, nrep, p)
PositionInverse == Done => \A p \in 1..Len(recs) : Position(n, nrep, recs[p][1], recs[p][2], recs[p][3]) = p
Terminates == <>Done
==============================================================================
