SPECIFICATION Spec
CONSTANTS
  N = 3
  NC = 2
  NP = 3
  Decs <- D3
  Enc = "tiled"
  MixCols = FALSE
INVARIANT DoneOK
INVARIANT TiledClosedForm

PROPERTY MultisetKept
PROPERTY NeverWorse
CHECK_DEADLOCK FALSE
