SPECIFICATION TSpec
CONSTANTS
  MaxN = 1
  NObj = 1
  Grid = {0}
  Wts = {1}
INVARIANT Report
CHECK_DEADLOCK FALSE
