SPECIFICATION TSpec
CONSTANTS
  MaxOpt = 1
  WVals = {1}
  MaxK = 1
  G = 4
  ZeroOff = FALSE
  Tables = {}
  Mode = "trace"
INVARIANT Report
CHECK_DEADLOCK FALSE
