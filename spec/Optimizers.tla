------------------------------- MODULE Optimizers -------------------------------
(***************************************************************************)
(* C06.  Subset optimisation: problems, exchange local search, exact       *)
(* sorting optimiser, well-formedness of returned solutions.               *)
(*                                                                         *)
(* A subset problem over candidates 1..n with subset size k has            *)
(*   score(S) = sum_{i in S} a[i] + sum_{i<j in S} b[i][j]   (minimised)   *)
(*   cv(S)    = max(0, sum_{i in S} g[i] - cap)              (violation)   *)
(* The hill climbers of pybrops are the state machine below: the current   *)
(* solution is replaced by the best exchange of one member against one     *)
(* non-member that improves (cv, score) lexicographically (Steepest), or   *)
(* by any improving exchange (the relation used for trace validation);     *)
(* they stop when no exchange improves.                                    *)
(***************************************************************************)
EXTENDS Integers, Sequences, FiniteSets

RECURSIVE SumSet(_, _)
SumSet(S, f) == IF S = {} THEN 0 ELSE LET x == CHOOSE x \in S : TRUE IN f[x] + SumSet(S \ {x}, f)
Pairs(S) == {p \in S \X S : p[1] < p[2]}
RECURSIVE SumPairs(_, _)
SumPairs(PS, b) == IF PS = {} THEN 0 ELSE LET p == CHOOSE p \in PS : TRUE IN b[p[1]][p[2]] + SumPairs(PS \ {p}, b)
Score(S, a, b) == SumSet(S, a) + SumPairs(Pairs(S), b)
Cv(S, g, cap) == LET t == SumSet(S, g) - cap IN IF t > 0 THEN t ELSE 0
\* lexicographic comparison of (cv, score)
Better(c1, s1, c2, s2) == c1 < c2 \/ (c1 = c2 /\ s1 < s2)
Neighbours(S, n) == {(S \ {i}) \cup {j} : i \in S, j \in (1..n) \ S}
LocalOpt(S, n, a, b, g, cap) == \A T \in Neighbours(S, n) : ~Better(Cv(T, g, cap), Score(T, a, b), Cv(S, g, cap), Score(S, a, b))
KSubsets(n, k) == {S \in SUBSET (1..n) : Cardinality(S) = k}
GlobalOpt(S, n, k, a, b, g, cap) == \A T \in KSubsets(n, k) : ~Better(Cv(T, g, cap), Score(T, a, b), Cv(S, g, cap), Score(S, a, b))

\* exchanges that improve on S, and the best among a set of candidates (what one steepest-descent round may accept)
ImprovingOf(S, n, a, b, g, cap) == {T \in Neighbours(S, n) : Better(Cv(T, g, cap), Score(T, a, b), Cv(S, g, cap), Score(S, a, b))}
BestOf(TS, a, b, g, cap) == {T \in TS : \A U \in TS : ~Better(Cv(U, g, cap), Score(U, a, b), Cv(T, g, cap), Score(T, a, b))}

\* ---- the hill climber as a state machine
CONSTANTS NN, KK, AVals, BVals, GVals, Cap
VARIABLES sol, a, b, g, stopped
vars == <<sol, a, b, g, stopped>>
Sym(f) == \A i, j \in 1..NN : f[i][j] = f[j][i] /\ f[i][i] = 0
Init == /\ a \in [1..NN -> AVals]
        /\ b \in {f \in [1..NN -> [1..NN -> BVals]] : Sym(f)}
        /\ g \in [1..NN -> GVals]
        /\ sol \in KSubsets(NN, KK)           \* a start with DISTINCT members (sampling without replacement)
        /\ stopped = FALSE
Improving == ImprovingOf(sol, NN, a, b, g, Cap)
Best(TS) == BestOf(TS, a, b, g, Cap)
Steepest == /\ ~stopped /\ Improving # {}
            /\ sol' \in Best(Improving)
            /\ UNCHANGED <<a, b, g, stopped>>
Stop == /\ ~stopped /\ Improving = {}
        /\ stopped' = TRUE
        /\ UNCHANGED <<sol, a, b, g>>
Next == Steepest \/ Stop
Spec == Init /\ [][Next]_vars /\ WF_vars(Next)

MembersDistinct == Cardinality(sol) = KK /\ sol \subseteq 1..NN
StopsOnlyAtLocalOptimum == stopped => LocalOpt(sol, NN, a, b, g, Cap)
StrictDescent == [][Better(Cv(sol', g, Cap), Score(sol', a, b), Cv(sol, g, Cap), Score(sol, a, b)) \/ sol' = sol]_vars
Terminates == <>stopped
\* for separable objectives without constraints a local optimum of the exchange neighbourhood is a global optimum,
\* which is what sort-and-take returns
SeparableLocalIsGlobal == (stopped /\ (\A i, j \in 1..NN : b[i][j] = 0) /\ (\A i \in 1..NN : g[i] = 0))
                              => GlobalOpt(sol, NN, KK, a, b, g, Cap)
==============================================================================
