------------------------------- MODULE LinModel -------------------------------
(***************************************************************************)
(* C04.  Linear genomic model predictions and derived statistics, exact.   *)
(* Z[i][l] allele dosage (0..ploidy) of taxon i at marker l; u[l][t] additive   *)
(* and d[l][t] dominance effects (integers); b[t] the model intercept.     *)
(* Variances are given times n*n, genic variance times n*n as well.        *)
(***************************************************************************)
EXTENDS Integers, Sequences, FiniteSets

RECURSIVE SumTo(_, _)
SumTo(f, n) == IF n = 0 THEN 0 ELSE f[n] + SumTo(f, n - 1)
NTaxa(Z) == Len(Z)
NMark(Z) == Len(Z[1])
Het(a) == IF a # 0 /\ a # 2 THEN 1 ELSE 0
Gebv(Z, u, b, i, t) == b[t] + SumTo([l \in 1..NMark(Z) |-> Z[i][l] * u[l][t]], NMark(Z))
Gegv(Z, u, d, b, i, t) == Gebv(Z, u, b, i, t) + SumTo([l \in 1..NMark(Z) |-> Het(Z[i][l]) * d[l][t]], NMark(Z))
\* n^2 * population variance of a sequence of integers
VarNN(g) == Len(g) * SumTo([k \in 1..Len(g) |-> g[k] * g[k]], Len(g)) - SumTo(g, Len(g)) * SumTo(g, Len(g))
VarA(Z, u, b, t) == VarNN([i \in 1..NTaxa(Z) |-> Gebv(Z, u, b, i, t)])
VarG(Z, u, d, b, t) == VarNN([i \in 1..NTaxa(Z) |-> Gegv(Z, u, d, b, i, t)])
ACount(Z, l) == SumTo([i \in 1..NTaxa(Z) |-> Z[i][l]], NTaxa(Z))
\* number of chromosome copies in the population at one locus, for ploidy P (dosages 0..P)
Copies(Z, P) == P * NTaxa(Z)
\* n^2 * genic variance = sum_l u^2 a (Pn - a)      (ploidy^2 sum u^2 p (1-p) with p = a/(Pn))
VarGenicP(Z, u, t, P) == SumTo([l \in 1..NMark(Z) |-> u[l][t] * u[l][t] * ACount(Z, l) * (Copies(Z, P) - ACount(Z, l))], NMark(Z))
\* favourable / deleterious allele counts
FaCountP(Z, u, l, t, P) == IF u[l][t] > 0 THEN ACount(Z, l) ELSE IF u[l][t] < 0 THEN Copies(Z, P) - ACount(Z, l) ELSE 0
DaCountP(Z, u, l, t, P) == IF u[l][t] < 0 THEN ACount(Z, l) ELSE IF u[l][t] > 0 THEN Copies(Z, P) - ACount(Z, l) ELSE 0
PolyP(Z, l, P) == ACount(Z, l) > 0 /\ ACount(Z, l) < Copies(Z, P)
\* the diploid instances (the exhaustive model below is diploid)
VarGenic(Z, u, t) == VarGenicP(Z, u, t, 2)
FaCount(Z, u, l, t) == FaCountP(Z, u, l, t, 2)
DaCount(Z, u, l, t) == DaCountP(Z, u, l, t, 2)
Poly(Z, l) == PolyP(Z, l, 2)

\* ---- exhaustive model
CONSTANTS MaxN, MaxP, Eff
VARIABLES Z, u
vars == <<Z, u>>
Init == /\ \E n \in 1..MaxN : \E p \in 1..MaxP : Z \in [1..n -> [1..p -> 0..2]] /\ u \in [1..p -> [1..1 -> Eff]]
Next == UNCHANGED vars
Spec == Init /\ [][Next]_vars
B0 == <<0>>
Perms(n) == {f \in [1..n -> 1..n] : \A a, b \in 1..n : a # b => f[a] # f[b]}
\* predictions commute with reordering of taxa
PermEquivariant == \A f \in Perms(NTaxa(Z)) : \A i \in 1..NTaxa(Z) :
    Gebv([k \in 1..NTaxa(Z) |-> Z[f[k]]], u, B0, i, 1) = Gebv(Z, u, B0, f[i], 1)
\* and are additive over any split of the markers
SplitAdditive == \A s \in 0..NMark(Z) : \A i \in 1..NTaxa(Z) :
    Gebv(Z, u, B0, i, 1) = SumTo([l \in 1..s |-> Z[i][l] * u[l][1]], s)
                            + SumTo([l \in 1..(NMark(Z) - s) |-> Z[i][s + l] * u[s + l][1]], NMark(Z) - s)
\* allele-class flags are mutually consistent
FlagsConsistent == \A l \in 1..NMark(Z) :
    /\ (u[l][1] # 0 => FaCount(Z, u, l, 1) + DaCount(Z, u, l, 1) = 2 * NTaxa(Z))
    /\ (u[l][1] = 0 => FaCount(Z, u, l, 1) = 0 /\ DaCount(Z, u, l, 1) = 0)
    /\ ((FaCount(Z, u, l, 1) = 2 * NTaxa(Z)) => ~Poly(Z, l))
VarNonNeg == VarA(Z, u, B0, 1) >= 0 /\ VarGenic(Z, u, 1) >= 0
==============================================================================
