SPECIFICATION Spec
CONSTANTS
  MaxN = 4
  NObj = 3
  Grid = {0, 1}
  Wts <- WtsB
  CvSet <- CvA
  ObjSet = {0, 1}
  LSet = {0, 1}
  ShiftSet = {1}
INVARIANT TypeOK
INVARIANT AlgoAdmissible
INVARIANT AlgoVectors
INVARIANT KeptSorted
INVARIANT ProcessedUndominated
PROPERTY Shrinks
CHECK_DEADLOCK FALSE
