--------------------------- MODULE Coancestry_Trace ---------------------------
(* Validates matrices computed by the real coancestry classes.  A record:                            *)
(*   est ("molecular" | "vanraden" | "yang" | "weighted"), X (dosages), pl (ploidy), c, D (reference  *)
(*   frequencies c[l]/D as used by the call), w (marker weights), G[i][j] = <<num, den>> the observed *)
(*   entry as a rational (harness: Fraction(x).limit_denominator with residual check, glat),          *)
(*   K[i][j] the kinship view, taxaok / grpok (labels of the source carried), sym (exact symmetry)    *)
EXTENDS Coancestry, Json, IOUtils, TLC

Cases == JsonDeserialize(IOEnv.TRACE_FILE)
VARIABLE i
tvars == <<i, X, pl>>

Expected(c, a, b) == CASE c.est = "molecular" -> MolecularDef(c.X, c.pl, a, b)
                       [] c.est = "vanraden" -> VanRaden(c.X, c.pl, c.c, c.D, a, b)
                       [] c.est = "yang" -> Yang(c.X, c.pl, c.c, c.D, a, b)
                       [] OTHER -> Weighted(c.X, c.pl, c.c, c.D, c.w, a, b)
Verdict(c) ==
    LET n == Len(c.X) IN
    IF c.err # "none" THEN "exception-on-valid-input"
    ELSE IF ~c.glat THEN "entry-not-a-small-rational"
    ELSE IF \E a, b \in 1..n : ~RatEq(c.G[a][b], Expected(c, a, b)) THEN "entry-differs-from-formula"
    ELSE IF \E a, b \in 1..n : ~RatEq(<<2 * c.K[a][b][1], c.K[a][b][2]>>, c.G[a][b]) THEN "kinship-is-not-half-coancestry"
    ELSE IF ~c.sym THEN "not-symmetric"
    ELSE IF ~c.taxaok THEN "taxon-labels-not-those-of-the-source"
    ELSE IF ~c.grpok THEN "taxon-groups-not-those-of-the-source"
    ELSE "ok"

TInit == i \in 1..Len(Cases) /\ X = <<>> /\ pl = 2
TSpec == TInit /\ [][UNCHANGED tvars]_tvars
Report == PrintT(<<"CASE", Cases[i].id, Verdict(Cases[i])>>)
==============================================================================
