SPECIFICATION TSpec
CONSTANTS
  Seeds = {1}
  Gens = {"g1", "g2", "g3"}
  MaxCalls = 0
  MaxNoise = 0
  PymooHidden = FALSE
  OpsGlobal = FALSE
  SelectLeak = FALSE
INVARIANT Report
CHECK_DEADLOCK FALSE
