SPECIFICATION PSpec
CONSTANTS
  MaxN = 1
  MaxP = 6
  MaxNP = 9
INVARIANT PFreqInRange
INVARIANT PFreqExtreme
INVARIANT PFixedIffAllEqual
INVARIANT PGtCover
INVARIANT PMinorAtMostHalf
INVARIANT PHetSymmetric
CHECK_DEADLOCK FALSE
