SPECIFICATION TSpec
CONSTANTS
  N = 1
  NC = 1
  NP = 1
  Decs = {}
  Enc = "tiled"
  MixCols = FALSE
INVARIANT Report
CHECK_DEADLOCK FALSE
