-------------------------------- MODULE XConfig --------------------------------
(***************************************************************************)
(* C07.  From a chosen decision to a cross configuration.                  *)
(*                                                                         *)
(* A decision over candidates 1..N is a contribution vector dec (subset    *)
(* and binary decisions: entries 0/1; integer: any counts; real: weights). *)
(* The configuration classes run the pipeline                              *)
(*   Draw      tiled choice over the option list (candidate i listed       *)
(*             dec[i] times) -- or stochastic universal sampling for real  *)
(*             weights -- into an NC x NP table                            *)
(*   Exchange* outcross search: swap two entries while the number of       *)
(*             self-pairings strictly drops                                *)
(*   Settle    stop at a 1-exchange local optimum                          *)
(*   RowMix    permute entries inside each row                             *)
(* Mate encodings choose rows of a cross map instead (module bottom).      *)
(***************************************************************************)
EXTENDS Integers, Sequences, FiniteSets

CONSTANTS N,        \* candidates 1..N
          NC, NP,   \* crosses, parents per cross
          Decs,     \* set of decisions explored (functions 1..N -> Nat)
          Enc,      \* "tiled" (subset / binary / integer) | "sus" (real)
          MixCols   \* FALSE: RowMix permutes inside rows (the code); TRUE: inside columns (wrong variant)

VARIABLES dec, tab, stage
vars == <<dec, tab, stage>>

RECURSIVE SumTo(_, _)
SumTo(f, n) == IF n = 0 THEN 0 ELSE f[n] + SumTo(f, n - 1)
Sum(f) == SumTo(f, Len(f))
Size == NC * NP

\* ---- tables (dimensions are read off the table, the number of candidates off the decision)
TablesOver(S) == [1..NC -> [1..NP -> S]]
Rows(tb) == Len(tb)
Cols(tb) == Len(tb[1])
Cells(tb) == Rows(tb) * Cols(tb)
Cell(tb, p) == tb[((p - 1) \div Cols(tb)) + 1][((p - 1) % Cols(tb)) + 1]
Count(tb, u) == Cardinality({p \in 1..Cells(tb) : Cell(tb, p) = u})
CountsN(tb, n) == [u \in 1..n |-> Count(tb, u)]
Counts(tb) == CountsN(tb, N)
RowDup(r) == Len(r) - Cardinality({r[p] : p \in 1..Len(r)})
SelfPairings(tb) == SumTo([i \in 1..Len(tb) |-> RowDup(tb[i])], Len(tb))
Swap(tb, p, q) == [i \in 1..Rows(tb) |-> [c \in 1..Cols(tb) |->
                     LET z == (i - 1) * Cols(tb) + c IN
                     IF z = p THEN Cell(tb, q) ELSE IF z = q THEN Cell(tb, p) ELSE tb[i][c]]]
Improving(tb) == {pq \in (1..Cells(tb)) \X (1..Cells(tb)) : pq[1] < pq[2] /\ SelfPairings(Swap(tb, pq[1], pq[2])) < SelfPairings(tb)}
LocalOpt(tb) == Improving(tb) = {}

\* ---- multiplicities the decision dictates, for filling sz slots
\* tiled choice over m = Sum(d) listed options: every listed option is used floor(sz/m) or ceil(sz/m) times and
\* all sz slots are filled; candidate i owns d[i] of the options
OptionCounts(m, sz) == {o \in [1..m -> {sz \div m, (sz + m - 1) \div m}] : SumTo(o, m) = sz}
Owner(d, x) == CHOOSE i \in 1..Len(d) : SumTo(d, i - 1) < x /\ x <= SumTo(d, i)
TiledDef(d, sz, c) == \E o \in OptionCounts(Sum(d), sz) :
                     \A i \in 1..Len(d) : c[i] = SumTo([x \in 1..Sum(d) |-> IF Owner(d, x) = i THEN o[x] ELSE 0], Sum(d))
\* closed form used for trace validation (ClosedFormExact below is the TLC-checked equivalence)
Min(a, b) == IF a < b THEN a ELSE b
TiledOK(d, sz, c) == LET m == Sum(d)
                         f == sz \div m
                         r == sz % m
                     IN /\ SumTo(c, Len(d)) = sz
                        /\ \A i \in 1..Len(d) : c[i] >= d[i] * f /\ c[i] <= d[i] * f + Min(d[i], r)
\* stochastic universal sampling: floor or ceiling of the proportional share, never a zero weight
SusOK(d, sz, c) == LET W == Sum(d) IN
               /\ SumTo(c, Len(d)) = sz
               /\ \A i \in 1..Len(d) : /\ c[i] * W >= sz * d[i] - (W - 1)
                                       /\ c[i] * W <= sz * d[i] + (W - 1)
                                       /\ (d[i] = 0 => c[i] = 0)
MultOK(e, d, sz, c) == IF e = "sus" THEN SusOK(d, sz, c) ELSE TiledOK(d, sz, c)

\* ---- the pipeline
Init == dec \in Decs /\ tab = <<>> /\ stage = "draw"
Draw == /\ stage = "draw"
        /\ tab' \in {tb \in TablesOver({i \in 1..N : dec[i] > 0}) :
                        IF Enc = "sus" THEN SusOK(dec, Size, Counts(tb)) ELSE TiledDef(dec, Size, Counts(tb))}
        /\ stage' = "search" /\ UNCHANGED dec
Exchange == /\ stage = "search"
            /\ \E pq \in Improving(tab) : tab' = Swap(tab, pq[1], pq[2])
            /\ UNCHANGED <<dec, stage>>
Settle == /\ stage = "search" /\ LocalOpt(tab)
          /\ stage' = "mix" /\ UNCHANGED <<dec, tab>>
Perms(n) == {f \in [1..n -> 1..n] : \A x, y \in 1..n : x # y => f[x] # f[y]}
RowMix == /\ stage = "mix"
          /\ IF MixCols
             THEN \E ps \in [1..NP -> Perms(NC)] : tab' = [i \in 1..NC |-> [c \in 1..NP |-> tab[ps[c][i]][c]]]
             ELSE \E ps \in [1..NC -> Perms(NP)] : tab' = [i \in 1..NC |-> [c \in 1..NP |-> tab[i][ps[i][c]]]]
          /\ stage' = "done" /\ UNCHANGED dec
Next == Draw \/ Exchange \/ Settle \/ RowMix
Spec == Init /\ [][Next]_vars /\ WF_vars(Next)

\* ---- what a finished configuration must satisfy (the predicate trace validation applies to real configurations)
XConfigOK(e, d, tb) == /\ \A p \in 1..Cells(tb) : Cell(tb, p) \in 1..Len(d) /\ d[Cell(tb, p)] > 0
                       /\ MultOK(e, d, Cells(tb), CountsN(tb, Len(d)))
                       /\ LocalOpt(tb)
DoneOK == stage = "done" => XConfigOK(Enc, dec, tab)
TiledClosedForm == stage = "search" => (Enc = "tiled" => TiledOK(dec, Size, Counts(tab)))
\* the closed form admits nothing the definition does not (checked on all count vectors, in the initial states)
ClosedFormExact == (stage = "draw" /\ Enc = "tiled") =>
                     \A c \in [1..N -> 0..Size] : TiledOK(dec, Size, c) <=> TiledDef(dec, Size, c)
MultisetKept == [][stage # "draw" => Counts(tab') = Counts(tab)]_vars
NeverWorse == [][stage = "search" => SelfPairings(tab') <= SelfPairings(tab)]_vars
Terminates == <>(stage = "done")

\* ---- truncation and preference choices (pure relations)
\* S (a set of candidates) is a best-k choice for criterion v (larger is better)
IsTopK(S, v, n) == \A i \in S, j \in (1..n) \ S : v[i] >= v[j]
NoBoundaryTie(S, v, n) == \A i \in S, j \in (1..n) \ S : v[i] # v[j]
\* index s maximises the preference score among the front members
IsPreferred(s, score) == \A t \in 1..Len(score) : score[t] <= score[s]

\* ---- cross maps: all non-decreasing (self crosses allowed) or strictly increasing parent tuples, in lexicographic order
Tuples(n, k) == [1..k -> 0..(n - 1)]
Mono(t, strict) == \A x \in 1..(Len(t) - 1) : IF strict THEN t[x] < t[x + 1] ELSE t[x] <= t[x + 1]
LexLess(s, t) == \E x \in 1..Len(s) : s[x] < t[x] /\ \A y \in 1..(x - 1) : s[y] = t[y]
XmapOK(xm, n, k, strict) == /\ {xm[x] : x \in 1..Len(xm)} = {t \in Tuples(n, k) : Mono(t, strict)}
                            /\ \A x \in 1..(Len(xm) - 1) : LexLess(xm[x], xm[x + 1])
==============================================================================
