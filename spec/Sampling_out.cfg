SPECIFICATION Spec
CONSTANTS
  MaxOpt = 1
  WVals = {1}
  MaxK = 1
  G = 2
  ZeroOff = FALSE
  Tables <- TabAll
  Mode = "outcross"
INVARIANT OutStopsAtLocalOpt
PROPERTY OutNeverWorse
PROPERTY OutMultiset
PROPERTY Terminates
CHECK_DEADLOCK FALSE
