--------------------------- MODULE Sampling_Trace ---------------------------
(* Validates recorded executions of pybrops.core.random.sampling against module Sampling.         *)
EXTENDS Sampling, Json, IOUtils, TLC

Cases == JsonDeserialize(IOEnv.TRACE_FILE)
VARIABLE i
tvars == <<i, w, k, o, j, ix, cnt, tab, stop>>

\* ---- pointer walk as a function: counts per position of the descending weight vector
RECURSIVE Walk(_, _, _, _, _, _)
Walk(f, kk, oo, jj, pos, c) ==
    IF jj = kk THEN c
    ELSE IF SumTo(f, pos) * kk * G < oo * Sum(f) + jj * Sum(f) * G
         THEN Walk(f, kk, oo, jj, pos + 1, c)
         ELSE Walk(f, kk, oo, jj + 1, pos, [c EXCEPT ![pos] = @ + 1])
HasTie(f, kk, oo) == \E p \in 1..Len(f) : \E jj \in 0..(kk - 1) :
                        SumTo(f, p) * kk * G = oo * Sum(f) + jj * Sum(f) * G
PairBag(f, c) == LET U == {<<f[p], c[p]>> : p \in 1..Len(f)} IN
                 [u \in U |-> Cardinality({p \in 1..Len(f) : <<f[p], c[p]>> = u})]

\* sus: w (original order), n draws requested, cnt per option, nout = number of outputs, shapeok
SusVerdict(c) ==
    IF ~c.shapeok THEN "sus-shape"
    ELSE IF c.nout # c.n THEN "sus-length"
    ELSE IF \E p \in 1..Len(c.w) : c.w[p] = 0 /\ c.cnt[p] > 0 THEN "sus-zero-weight-drawn"
    ELSE IF ~FloorCeil(c.w, c.n, c.cnt) THEN "sus-floor-ceil"
    ELSE IF c.scripted /\ ~HasTie(c.ws, c.n, c.o) /\
            PairBag(c.ws, Walk(c.ws, c.n, c.o, 0, 1, [p \in 1..Len(c.ws) |-> 0])) # PairBag(c.w, c.cnt)
         THEN "sus-pointer-walk"
    ELSE "ok"

TiledVerdict(c) ==
    IF ~c.shapeok THEN "tiled-shape"
    ELSE IF c.foreign THEN "tiled-foreign-element"
    ELSE IF ~Tiled(c.m, c.n, c.cnt) THEN "tiled-balance"
    ELSE "ok"

Col(tb, cc) == [r \in 1..Len(tb) |-> tb[r][cc]]
AxisVerdict(c) ==
    IF Len(c.after) # Len(c.before) \/ \E r \in 1..Len(c.before) : Len(c.after[r]) # Len(c.before[r])
    THEN "axis-shape"
    ELSE IF c.axis = 0
    THEN (IF \A r \in 1..Len(c.before) : SameMultiset(c.before[r], c.after[r]) THEN "ok" ELSE "axis-slice-mixed")
    ELSE (IF \A cc \in 1..Len(c.before[1]) : SameMultiset(Col(c.before, cc), Col(c.after, cc))
          THEN "ok" ELSE "axis-slice-mixed")

\* outcross: sequence of table snapshots (one per outer iteration) from input to output
OutVerdict(c) ==
    LET n == Len(c.states) IN
    IF \E s \in 1..(n - 1) : ~SameMultiset(Ravel(c.states[s]), Ravel(c.states[s + 1])) THEN "outcross-multiset"
    ELSE IF \E s \in 1..(n - 1) : Score(c.states[s + 1]) > Score(c.states[s]) THEN "outcross-score-increased"
    ELSE IF \E s \in 1..(n - 1) : c.states[s + 1] # c.states[s] /\
              ~(\E pq \in Improving(c.states[s]) : c.states[s + 1] = Swap(c.states[s], pq[1], pq[2]))
         THEN "outcross-step-not-a-single-improving-exchange"
    ELSE IF ~LocalOpt(c.states[n]) THEN "outcross-stopped-before-local-optimum"
    ELSE "ok"

Verdict(c) == CASE c.kind = "sus" -> SusVerdict(c)
                [] c.kind = "tiled" -> TiledVerdict(c)
                [] c.kind = "axis" -> AxisVerdict(c)
                [] c.kind = "outx" -> OutVerdict(c)
                [] OTHER -> "unknown-kind"

TInit == /\ i \in 1..Len(Cases)
         /\ w = <<>> /\ k = 0 /\ o = 0 /\ j = 0 /\ ix = 0 /\ cnt = <<>> /\ tab = <<>> /\ stop = TRUE
TSpec == TInit /\ [][UNCHANGED tvars]_tvars
Report == PrintT(<<"CASE", Cases[i].id, Verdict(Cases[i])>>)
==============================================================================
