--------------------------- MODULE ScaledBV_Trace ---------------------------
(* Validates single steps of taxa-axis histories on the real breeding-value matrix classes.         *)
(* record: op, ix / del / pos / blk as in LabelledMatrix_Trace, pre (ids before), tab (raw table and *)
(* taxa label table), and the projected post object:                                                 *)
(*   ids (decoded from the unscaled first trait), un[k][r] = round(unscale), nan[k][r], unlat,       *)
(*   name[k], grp[k] (taxa labels), nameon, grpon,                                                   *)
(*   locm[r] = round(location*m), varmm[r] = round(scale^2*m^2)  (m = present values of trait r),    *)
(*   tmaxu, tminu, trngu (unscale=True), tmeanm (tmean(True)*m), tvarmm (tvar(True)*m^2),            *)
(*   tstdmm (tstd(True)^2*m^2), smax, smin (stored-scale extrema mapped back with the reported       *)
(*   location/scale), amax, amin (arg-extrema), statlat (all floats on the integer lattice)          *)
EXTENDS ScaledBV, Json, IOUtils, TLC

Cases == JsonDeserialize(IOEnv.TRACE_FILE)
\* a trait that is constant on the axis has variance 0; the library stores unit scale for it (exactly constant values) --
\* after a derivation whose unscaled values differ by rounding noise the stored scale is that noise (0 on the lattice).
\* Both describe the raw values to rounding error.
VarOK(v, T, t, r) == IF VarMM(T, t, r) = 0 THEN v \in {0, Cnt(T, t, r) * Cnt(T, t, r)} ELSE v = VarMM(T, t, r)
VARIABLE i
tvars == <<i, ids>>

Expected(c, s) ==
    CASE c.op = "select"  -> Take(s, c.ix)
      [] c.op = "reorder" -> Take(s, c.ix)
      [] c.op = "delete"  -> Drop(s, ToSet(c.del))
      [] c.op = "insert"  -> InsertAt(s, c.pos, c.blk)
      [] c.op \in {"adjoin", "concat"} -> s \o c.blk
      [] OTHER -> s

Verdict(c) ==
    LET T == c.tab
        p == c.post
        s == c.pre
        t == p.ids
        NT == Len(T.off)
        full == {r \in 1..NT : ~HasMissing(T, t, r)}          \* traits without a missing value on the axis
        live == {r \in 1..NT : Cnt(T, t, r) >= 1}             \* traits with at least one value on the axis
    IN IF c.err # "none" THEN <<"exception-on-valid-arguments", 0>>
       ELSE IF c.op \in {"select", "reorder", "delete", "insert", "adjoin", "concat", "construct"} /\ t # Expected(c, s)
            THEN <<"retained-taxa-do-not-carry-their-raw-values", 0>>
       ELSE IF c.op \in {"sort", "group"} /\ ~SameBag(t, s) THEN <<"retained-taxa-do-not-carry-their-raw-values", 0>>
       ELSE IF \E k \in 1..Len(t) : \E r \in 1..NT : p.nan[k][r] # T.miss[t[k] + 1][r] THEN <<"missing-value-moved-or-contaminated", 0>>
       ELSE IF ~p.unlat \/ \E k \in 1..Len(t) : \E r \in 1..NT : ~p.nan[k][r] /\ p.un[k][r] # Raw(T, t[k], r)
            THEN <<"unscale-does-not-reproduce-raw-values", 0>>
       ELSE IF p.nameon /\ \E k \in 1..Len(t) : p.name[k] # T.name[t[k] + 1] THEN <<"taxon-name-detached", 0>>
       ELSE IF p.grpon /\ \E k \in 1..Len(t) : p.grp[k] # T.grp[t[k] + 1] THEN <<"taxon-group-detached", 0>>
       \* (the extrema are decided before the location / scale clauses: they do not depend on how the values are centred)
       ELSE IF ~p.extlat THEN <<"extremum-not-on-the-expected-lattice", 0>>
       ELSE IF \E r \in full : p.tmaxu[r] # MaxRaw(T, t, r) THEN <<"tmax", 0>>
       ELSE IF \E r \in full : p.tminu[r] # MinRaw(T, t, r) THEN <<"tmin", 0>>
       ELSE IF \E r \in full : p.trngu[r] # MaxRaw(T, t, r) - MinRaw(T, t, r) THEN <<"trange", 0>>
       ELSE IF \E r \in full : p.smax[r] # MaxRaw(T, t, r) \/ p.smin[r] # MinRaw(T, t, r) THEN <<"stored-scale-extrema", 0>>
       ELSE IF ~p.statlat THEN <<"summary-not-on-the-expected-lattice", 0>>
       ELSE IF \E r \in live : p.locm[r] # MeanM(T, t, r) THEN <<"location-is-not-the-mean-of-the-raw-values", CHOOSE r \in live : p.locm[r] # MeanM(T, t, r)>>
       ELSE IF \E r \in live : ~VarOK(p.varmm[r], T, t, r)
            THEN <<"scale-is-not-the-std-of-the-raw-values", CHOOSE r \in live : ~VarOK(p.varmm[r], T, t, r)>>
       ELSE IF \E r \in live : p.tmeanm[r] # MeanM(T, t, r) THEN <<"tmean", 0>>
       ELSE IF \E r \in live : ~VarOK(p.tvarmm[r], T, t, r) THEN <<"tvar", 0>>
       ELSE IF \E r \in live : ~VarOK(p.tstdmm[r], T, t, r) THEN <<"tstd", 0>>
       ELSE IF \E r \in full : ~(p.amax[r] \in 0..(Len(t) - 1) /\ Raw(T, t[p.amax[r] + 1], r) = MaxRaw(T, t, r)) THEN <<"targmax", 0>>
       ELSE IF \E r \in full : ~(p.amin[r] \in 0..(Len(t) - 1) /\ Raw(T, t[p.amin[r] + 1], r) = MinRaw(T, t, r)) THEN <<"targmin", 0>>
       ELSE <<"ok", 0>>

TInit == i \in 1..Len(Cases) /\ ids = <<>>
TSpec == TInit /\ [][UNCHANGED tvars]_tvars
Report == PrintT(<<"CASE", Cases[i].id, Verdict(Cases[i])[1], Verdict(Cases[i])[2]>>)
==============================================================================
