SPECIFICATION Spec
CONSTANTS
  MaxChr = 2
  MaxMark = 4
  PosSet = {0, 1, 2, 3, 6}
INVARIANT ApportionOK
INVARIANT ApportionAsFunction
INVARIANT EveryMarkerOneBlock
INVARIANT OrderedContiguous
INVARIANT WithinChrom
PROPERTY Terminates
CHECK_DEADLOCK FALSE
