SPECIFICATION TSpec
CONSTANTS
  MaxChr = 1
  PhysSet = {1}
  GenSet = {0}
  MaxK = 1
INVARIANT Report
CHECK_DEADLOCK FALSE
