------------------------------- MODULE SeqOps -------------------------------
(***************************************************************************)
(* Sequence operators with numpy's argument semantics (take, delete,       *)
(* insert), bags, sortedness and the partition numpy.unique reports.       *)
(* Shared by LabelledMatrix (C03), ScaledBV (C15) and Store (C16).         *)
(***************************************************************************)
EXTENDS Integers, Sequences, FiniteSets

\* python position (0-based, negative from the end) -> 1-based index
Norm(i, n) == IF i < 0 THEN n + i + 1 ELSE i + 1
\* numpy.take: row k of the result is s[ix[k]]
Take(s, ix) == [k \in 1..Len(ix) |-> s[Norm(ix[k], Len(s))]]
RECURSIVE DropFrom(_, _, _)
\* numpy.delete: D is the set of 0-based positions named by the index object
DropFrom(s, D, k) == IF k > Len(s) THEN <<>>
                     ELSE (IF (k - 1) \in D THEN <<>> ELSE <<s[k]>>) \o DropFrom(s, D, k + 1)
Drop(s, D) == DropFrom(s, D, 1)
RECURSIVE BlockAt(_, _, _, _)
\* the items of blk whose insertion position is p, in block order
BlockAt(pos, blk, p, k) == IF k > Len(blk) THEN <<>>
                           ELSE (IF pos[k] = p THEN <<blk[k]>> ELSE <<>>) \o BlockAt(pos, blk, p, k + 1)
RECURSIVE InsFrom(_, _, _, _)
\* numpy.insert with a sequence of positions (all referring to the ORIGINAL axis, 0..Len(s))
InsFrom(s, pos, blk, p) == IF p >= Len(s) THEN BlockAt(pos, blk, p, 1)
                           ELSE BlockAt(pos, blk, p, 1) \o <<s[p + 1]>> \o InsFrom(s, pos, blk, p + 1)
InsertAt(s, pos, blk) == InsFrom(s, pos, blk, 0)
ToSet(s) == {s[k] : k \in 1..Len(s)}
Bag(s) == [v \in ToSet(s) |-> Cardinality({k \in 1..Len(s) : s[k] = v})]
SameBag(a, b) == Len(a) = Len(b) /\ Bag(a) = Bag(b)
IsPermIx(ix, n) == Len(ix) = n /\ {Norm(ix[k], n) : k \in 1..n} = 1..n
\* non-decreasing in the key tuple <<primary, secondary>> given as integer functions of position
SortedBy(k1, k2) == \A a \in 1..(Len(k1) - 1) :
                        k1[a] < k1[a + 1] \/ (k1[a] = k1[a + 1] /\ k2[a] <= k2[a + 1])

\* the partition numpy.unique would report for group labels g (0-based start, exclusive stop)
\* parts = sequence of <<name, stix, spix, len>>
IsTruePartition(parts, g) ==
    /\ \A k \in 1..Len(parts) :
          /\ parts[k][4] = parts[k][3] - parts[k][2] /\ parts[k][4] >= 1
          /\ parts[k][2] >= 0 /\ parts[k][3] <= Len(g)
          /\ \A p \in (parts[k][2] + 1)..parts[k][3] : g[p] = parts[k][1]
    /\ \A j, k \in 1..Len(parts) : j # k => parts[j][1] # parts[k][1]
    /\ \A p \in 1..Len(g) : \E k \in 1..Len(parts) : parts[k][2] < p /\ p <= parts[k][3]
    /\ \A j, k \in 1..Len(parts) : j < k => parts[j][3] <= parts[k][2]
RECURSIVE PartFrom(_, _)
\* the partition of a label sequence that is already contiguous by group
PartFrom(g, p) == IF p > Len(g) THEN <<>>
                  ELSE LET e == CHOOSE e \in p..Len(g) : (\A x \in p..e : g[x] = g[p]) /\ (e = Len(g) \/ g[e + 1] # g[p])
                       IN <<<<g[p], p - 1, e, e - p + 1>>>> \o PartFrom(g, e + 1)

==============================================================================
