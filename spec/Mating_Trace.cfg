SPECIFICATION TSpec
CONSTANTS
  L = 1
  NTaxa = 1
  MaxSelf = 0
INVARIANT Report
CHECK_DEADLOCK FALSE
