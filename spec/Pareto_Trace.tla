---------------------------- MODULE Pareto_Trace ----------------------------
(* Validates cases recorded from the real pybrops code against module Pareto.                     *)
(* TRACE_FILE is a JSON array of records; one TLC state per record; the verdict of record i is    *)
(* printed as <<"CASE", id, clause>> where clause = "ok" or the name of the first failing clause. *)
EXTENDS Pareto, Json, IOUtils, TLC

Cases == JsonDeserialize(IOEnv.TRACE_FILE)

VARIABLE i
tvars == <<i, pts, wt, kept, pix, done>>

\* ---- efficiency records: pts, wt, mask (booleans), idx (0-based indices, index form)
EffVerdict(c) ==
    LET P == Weighted(c.pts, c.wt)
        n == Len(c.pts)
    IN IF Len(c.mask) # n THEN "mask-length"
       ELSE IF ~MarkedUndominated(P, c.mask) THEN "marked-point-is-dominated"
       ELSE IF ~UnmarkedCovered(P, c.mask) THEN "unmarked-point-not-covered-by-marked"
       ELSE IF MaskVectors(P, c.mask) # EffVectors(P) THEN "efficient-vector-set"
       ELSE IF {c.idx[k] + 1 : k \in DOMAIN c.idx} # {k \in 1..n : c.mask[k]} THEN "index-form-differs-from-mask"
       ELSE IF Len(c.idx) # Cardinality({k \in 1..n : c.mask[k]}) THEN "index-form-repeats"
       ELSE "ok"

DomVerdict(c) ==
    IF c.res = Dominates(c.o1, c.c1, c.o2, c.c2) THEN "ok" ELSE "dominates-value"

\* ---- distance records: obs[k] = round(d_k^2 * S) with S = DistScale, finite[k]
DistVerdict(c) ==
    LET n == Len(c.pts)
    IN IF \E k \in 1..n : ~c.finite[k] THEN "distance-not-finite"
       ELSE IF c.S # DistScale(c.pts, c.sg, c.L) THEN "harness-scale-mismatch"
       ELSE IF \E k \in 1..n : c.obs[k] # DistNum(c.pts, c.sg, c.L, k) THEN "distance-value"
       ELSE "ok"

Verdict(c) == IF c.kind = "eff" THEN EffVerdict(c)
              ELSE IF c.kind = "dom" THEN DomVerdict(c)
              ELSE IF c.kind = "dist" THEN DistVerdict(c)
              ELSE "unknown-kind"

TInit == /\ i \in 1..Len(Cases)
         /\ pts = <<>> /\ wt = <<>> /\ kept = <<>> /\ pix = 0 /\ done = TRUE
TNext == UNCHANGED tvars
TSpec == TInit /\ [][TNext]_tvars
Report == PrintT(<<"CASE", Cases[i].id, Verdict(Cases[i])>>)
==============================================================================
