------------------------------ MODULE Sampling ------------------------------
(***************************************************************************)
(* C17 (and the sampling stage of C07).  pybrops.core.random.sampling:     *)
(*  - stochastic universal sampling as the pointer-walk ALGORITHM          *)
(*    (state machine, exact integer arithmetic scaled by k*G);             *)
(*  - the floor/ceiling RELATION the property states;                      *)
(*  - tiled choice and axis shuffle as relations on multisets;             *)
(*  - outcross shuffle as an exchange local search (state machine).        *)
(***************************************************************************)
EXTENDS Integers, Sequences, FiniteSets

CONSTANTS MaxOpt,      \* SUS: number of options 1..MaxOpt
          WVals,       \* SUS: set of integer weights
          MaxK,        \* SUS: number of pointers 1..MaxK
          G,           \* SUS: the offset is o/G of the pointer distance, o in 1..G-1 (0 only if ZeroOff)
          ZeroOff,     \* SUS: include the offset exactly 0
          Tables,      \* outcross: set of initial tables (sequences of rows)
          Mode         \* "sus" | "outcross"

VARIABLES w,    \* SUS: weights sorted in descending order (the order the walk uses)
          k, o, \* SUS: number of pointers, offset numerator
          j,    \* SUS: next pointer
          ix,   \* SUS: position in the cumulative weights
          cnt,  \* SUS: how often each position was selected so far
          tab,  \* outcross: the cross table
          stop  \* machine finished
vars == <<w, k, o, j, ix, cnt, tab, stop>>

RECURSIVE SumTo(_, _)
SumTo(f, n) == IF n = 0 THEN 0 ELSE f[n] + SumTo(f, n - 1)
Sum(f) == SumTo(f, Len(f))
Desc(f) == \A a, b \in 1..Len(f) : a < b => f[a] >= f[b]

------------------------------------------------------------------------------
(* relations of the property *)
\* counts c (per option) are a valid outcome of drawing n items proportionally to weights f
FloorCeil(f, n, c) ==
    LET W == Sum(f) IN
    /\ Sum(c) = n
    /\ \A i \in 1..Len(f) :
         /\ c[i] * W >= n * f[i] - (W - 1)        \* c[i] >= floor(n f_i / W)  <=>  c_i W > n f_i - W
         /\ c[i] * W <= n * f[i] + (W - 1)        \* c[i] <= ceil(n f_i / W)
         /\ (f[i] = 0 => c[i] = 0)
\* tiled choice: every option used floor(n/m) or ceil(n/m) times
Tiled(m, n, c) == /\ Len(c) = m /\ Sum(c) = n
                  /\ \A i \in 1..m : c[i] \in {n \div m, (n + m - 1) \div m}
\* multiset of a sequence as a function value -> multiplicity over a universe U
Mult(sq, U) == [u \in U |-> Cardinality({p \in 1..Len(sq) : sq[p] = u})]
SameMultiset(a, b) == Len(a) = Len(b) /\
    LET U == {a[p] : p \in 1..Len(a)} \cup {b[p] : p \in 1..Len(b)} IN Mult(a, U) = Mult(b, U)

------------------------------------------------------------------------------
(* SUS pointer walk. Scaled by k*G: pointer j sits at o*W + j*W*G, cumulative weight c_i at c_i*k*G *)
Cum(i) == SumTo(w, i)
Ptr(jj) == o * Sum(w) + jj * Sum(w) * G
SusInit == /\ Mode = "sus"
           /\ \E n \in 1..MaxOpt : w \in {f \in [1..n -> WVals] : Desc(f) /\ Sum(f) > 0}
           /\ k \in 1..MaxK
           /\ o \in (IF ZeroOff THEN 0..(G-1) ELSE 1..(G-1))
           /\ j = 0 /\ ix = 1 /\ cnt = [i \in 1..Len(w) |-> 0]
           /\ tab = <<>> /\ stop = FALSE
\* while cumsum[ix] < ptr: ix += 1
Advance == /\ Mode = "sus" /\ ~stop /\ j < k
           /\ Cum(ix) * k * G < Ptr(j)
           /\ ix' = ix + 1
           /\ UNCHANGED <<w, k, o, j, cnt, tab, stop>>
\* sel.append(indices[ix])
Pick == /\ Mode = "sus" /\ ~stop /\ j < k
        /\ ~(Cum(ix) * k * G < Ptr(j))
        /\ cnt' = [cnt EXCEPT ![ix] = @ + 1]
        /\ j' = j + 1
        /\ UNCHANGED <<w, k, o, ix, tab, stop>>
SusDone == /\ Mode = "sus" /\ ~stop /\ j = k
           /\ stop' = TRUE
           /\ UNCHANGED <<w, k, o, j, ix, cnt, tab>>

SusInRange == Mode = "sus" => ix \in 1..Len(w)        \* the walk never runs off the cumulative array
SusFloorCeil == (Mode = "sus" /\ stop) => FloorCeil(w, k, cnt)

------------------------------------------------------------------------------
(* outcross shuffle: exchange two entries of the raveled table iff the duplicate count strictly drops *)
NRow == Len(tab)
NCol == Len(tab[1])
RowDup(r) == Len(r) - Cardinality({r[p] : p \in 1..Len(r)})
Score(tb) == SumTo([i \in 1..Len(tb) |-> RowDup(tb[i])], Len(tb))
Cell(tb, p) == tb[((p - 1) \div Len(tb[1])) + 1][((p - 1) % Len(tb[1])) + 1]
Swap(tb, p, q) == [i \in 1..Len(tb) |-> [c \in 1..Len(tb[1]) |->
                     LET z == (i - 1) * Len(tb[1]) + c IN
                     IF z = p THEN Cell(tb, q) ELSE IF z = q THEN Cell(tb, p) ELSE tb[i][c]]]
Ravel(tb) == [p \in 1..(Len(tb) * Len(tb[1])) |-> Cell(tb, p)]
Pairs(tb) == {pq \in (1..(Len(tb) * Len(tb[1]))) \X (1..(Len(tb) * Len(tb[1]))) : pq[1] < pq[2]}
Improving(tb) == {pq \in Pairs(tb) : Score(Swap(tb, pq[1], pq[2])) < Score(tb)}
LocalOpt(tb) == Improving(tb) = {}

OutInit == /\ Mode = "outcross"
           /\ tab \in Tables
           /\ stop = FALSE
           /\ w = <<>> /\ k = 0 /\ o = 0 /\ j = 0 /\ ix = 0 /\ cnt = <<>>
Exchange == /\ Mode = "outcross" /\ ~stop
            /\ \E pq \in Improving(tab) : tab' = Swap(tab, pq[1], pq[2])
            /\ UNCHANGED <<w, k, o, j, ix, cnt, stop>>
OutStop == /\ Mode = "outcross" /\ ~stop /\ LocalOpt(tab)
           /\ stop' = TRUE
           /\ UNCHANGED <<w, k, o, j, ix, cnt, tab>>

Init == SusInit \/ OutInit
Next == Advance \/ Pick \/ SusDone \/ Exchange \/ OutStop
Spec == Init /\ [][Next]_vars /\ WF_vars(Next)

OutStopsAtLocalOpt == (Mode = "outcross" /\ stop) => LocalOpt(tab)
OutNeverWorse == [][Mode = "outcross" => Score(tab') <= Score(tab)]_vars
OutMultiset == [][Mode = "outcross" => SameMultiset(Ravel(tab'), Ravel(tab))]_vars
Terminates == <>stop
==============================================================================
