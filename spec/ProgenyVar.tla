------------------------------ MODULE ProgenyVar ------------------------------
(***************************************************************************)
(* C12.  Variance of doubled-haploid progeny of a cross, by exhaustive     *)
(* enumeration of the cross's gametes with their recombination             *)
(* probabilities.                                                          *)
(*                                                                         *)
(* For a pair of loci (i, j) with recombination fraction rho/D the machine *)
(* carries the exact DISTRIBUTION over two-locus diploid genotypes         *)
(* labelled by parental origin and pushes it, generation by generation,    *)
(* through the same pedigree steps as the mating protocols (module         *)
(* Mating): first hybridisation, backcross / second hybridisation, selfing *)
(* generations, doubled haploid.  Nothing here shares a formula with the   *)
(* code's linkage-decay terms.                                             *)
(*                                                                         *)
(* Encoding: origins 0..K-1; haplotype <<a, b>> (origin at locus i, at     *)
(* locus j) has index a*K + b + 1; genotype (h1, h2) has index             *)
(* (h1-1)*K*K + h2; a distribution is a sequence of integer weights        *)
(* indexed by genotype.                                                    *)
(***************************************************************************)
EXTENDS Integers, Sequences, FiniteSets

CONSTANTS K,        \* number of parental origins of the scheme (2, 3, 4)
          D,        \* recombination fractions are rho / D
          MaxS,     \* selfing generations explored
          Scheme    \* "2w" | "3w" | "4w"

VARIABLES rho,      \* recombination numerator of the locus pair
          gen,      \* selfing generations done
          stage,    \* "start" | "second" | "self"
          dist,     \* genotype distribution of the current generation
          aux       \* second hybrid (four-way)
vars == <<rho, gen, stage, dist, aux>>

NH == K * K
NG == NH * NH
HapIx(a, b) == a * K + b + 1
H1(g) == ((g - 1) \div NH) + 1          \* first haplotype index of genotype g
H2(g) == ((g - 1) % NH) + 1
OA(h) == (h - 1) \div K                  \* origin at locus i of haplotype h
OB(h) == (h - 1) % K
GenoIx(h1, h2) == (h1 - 1) * NH + h2

RECURSIVE Gcd(_, _)
Gcd(a, b) == IF b = 0 THEN a ELSE Gcd(b, a % b)
RECURSIVE SumTo(_, _)
SumTo(f, n) == IF n = 0 THEN 0 ELSE f[n] + SumTo(f, n - 1)
RECURSIVE GcdTo(_, _)
GcdTo(f, n) == IF n = 0 THEN 0 ELSE Gcd(f[n], GcdTo(f, n - 1))
Normalise(f) == LET g == GcdTo(f, Len(f)) IN IF g <= 1 THEN f ELSE [k \in 1..Len(f) |-> f[k] \div g]

\* meiosis of genotype g at recombination fraction r/D: weight of gamete haplotype h (weights sum to 2D)
W(g, h, r) == LET a == H1(g)
                  b == H2(g)
              IN (IF h = a THEN D - r ELSE 0) + (IF h = b THEN D - r ELSE 0)
                 + (IF h = HapIx(OA(a), OB(b)) THEN r ELSE 0) + (IF h = HapIx(OA(b), OB(a)) THEN r ELSE 0)
\* gamete distribution of a population
Gam(d, r) == Normalise([h \in 1..NH |-> SumTo([g \in 1..NG |-> IF d[g] = 0 THEN 0 ELSE d[g] * W(g, h, r)], NG)])
\* selfing: each individual mated with itself
Self(d, r) == Normalise([gp \in 1..NG |-> SumTo([g \in 1..NG |-> IF d[g] = 0 THEN 0 ELSE d[g] * W(g, H1(gp), r) * W(g, H2(gp), r)], NG)])
\* hybridisation: female gamete -> first haplotype, male gamete -> second
Cross(ga, gb) == Normalise([g \in 1..NG |-> ga[H1(g)] * gb[H2(g)]])
InbredGam(o) == [h \in 1..NH |-> IF h = HapIx(o, o) THEN 1 ELSE 0]
Zero == [g \in 1..NG |-> 0]

Init == /\ rho \in 0..(D \div 2)
        /\ gen = 0 /\ stage = "start" /\ dist = Zero /\ aux = Zero
\* first hybridisation from the configured columns (origins numbered in tuple order):
\*   2w [female, male]: female x male; 3w [recurrent, female, male]: female x male;
\*   4w [f2, m2, f1, m1]: AB = f1 x m1 and CD = f2 x m2
First == /\ stage = "start"
         /\ CASE Scheme = "2w" -> dist' = Cross(InbredGam(0), InbredGam(1)) /\ aux' = aux /\ stage' = "self"
              [] Scheme = "3w" -> dist' = Cross(InbredGam(1), InbredGam(2)) /\ aux' = aux /\ stage' = "second"
              [] OTHER -> dist' = Cross(InbredGam(2), InbredGam(3)) /\ aux' = Cross(InbredGam(0), InbredGam(1)) /\ stage' = "second"
         /\ UNCHANGED <<rho, gen>>
\* 3w: recurrent x F1 ; 4w: AB x CD
Second == /\ stage = "second"
          /\ dist' = IF Scheme = "3w" THEN Cross(InbredGam(0), Gam(dist, rho)) ELSE Cross(Gam(dist, rho), Gam(aux, rho))
          /\ aux' = Zero /\ stage' = "self"
          /\ UNCHANGED <<rho, gen>>
SelfStep == /\ stage = "self" /\ gen < MaxS
            /\ dist' = Self(dist, rho) /\ gen' = gen + 1
            /\ UNCHANGED <<rho, stage, aux>>
\* selfing continued for ever (single-seed descent to complete inbreeding): every line ends homozygous for one haplotype;
\* a two-locus heterozygote (a, b) ends as a or b with weight D each and as either recombinant with weight 2 rho each
\* (Haldane-Waddington: the recombinant share of recombinant inbred lines is R = 2r/(1+2r), here 2 rho / (D + 2 rho));
\* LimitIsSelfingInvariant below checks this R against the one-generation enumeration instead of trusting the formula
WInf(g, h, r) == LET a == H1(g)
                     b == H2(g)
                 IN (IF h = a THEN D ELSE 0) + (IF h = b THEN D ELSE 0)
                    + (IF h = HapIx(OA(a), OB(b)) THEN 2 * r ELSE 0) + (IF h = HapIx(OA(b), OB(a)) THEN 2 * r ELSE 0)
SelfInf(d, r) == Normalise([gp \in 1..NG |-> IF H1(gp) # H2(gp) THEN 0
                                             ELSE SumTo([g \in 1..NG |-> IF d[g] = 0 THEN 0 ELSE d[g] * WInf(g, H1(gp), r)], NG)])
SelfForever == /\ stage = "self"
               /\ dist' = SelfInf(dist, rho) /\ gen' = -1 /\ stage' = "inbred"
               /\ UNCHANGED <<rho, aux>>
Next == First \/ Second \/ SelfStep \/ SelfForever
Spec == Init /\ [][Next]_vars

\* joint distribution of the origins a doubled-haploid line carries at the two loci (indexed by haplotype)
Joint == Gam(dist, rho)
JTotal == SumTo(Joint, NH)

\* ---- rationals
Abs(x) == IF x < 0 THEN -x ELSE x
RNorm(p) == LET g == Gcd(Abs(p[1]), p[2]) IN IF p[1] = 0 THEN <<0, 1>> ELSE <<p[1] \div g, p[2] \div g>>
RAdd(p, q) == LET g == Gcd(p[2], q[2]) IN RNorm(<<p[1] * (q[2] \div g) + q[1] * (p[2] \div g), (p[2] \div g) * q[2]>>)
RMul(p, q) == LET a == RNorm(<<p[1], q[2]>>)
                  b == RNorm(<<q[1], p[2]>>)
              IN <<a[1] * b[1], a[2] * b[2]>>
RNeg(p) == <<-p[1], p[2]>>
RECURSIVE RPow(_, _)
RPow(p, k) == IF k = 0 THEN <<1, 1>> ELSE RMul(p, RPow(p, k - 1))
\* closed recurrence of the recombination fraction after k meioses of descent by selfing (limit 2r/(1+2r))
Closed(k, r) == RMul(RMul(RNorm(<<2 * r, D>>), RNorm(<<D, D + 2 * r>>)),
                     RAdd(<<1, 1>>, RNeg(RMul(RPow(<<1, 2>>, k), RPow(RNorm(<<D - 2 * r, D>>), k)))))

\* ---- properties of the enumeration (evaluated where a doubled haploid can be taken)
AtSelf == stage \in {"self", "inbred"}
Marg1(o) == SumTo([h \in 1..NH |-> IF OA(h) = o THEN Joint[h] ELSE 0], NH)
Marg2(o) == SumTo([h \in 1..NH |-> IF OB(h) = o THEN Joint[h] ELSE 0], NH)
\* two-way: enumerated recombinant fraction = closed recurrence
EnumerationIsClosedForm == (stage = "self" /\ Scheme = "2w") =>
    RNorm(<<Joint[HapIx(0, 1)] + Joint[HapIx(1, 0)], JTotal>>) = Closed(gen + 1, rho)
\* the limit does not depend on how many generations were enumerated before selfing "for ever" starts: one more enumerated
\* generation followed by the limit is the limit (this pins R = 2r/(1+2r): no other value satisfies it for 0 < r < 1/2)
LimitIsSelfingInvariant == stage = "self" => SelfInf(Self(dist, rho), rho) = SelfInf(dist, rho)
\* completely inbred lines are homozygous, and two-way lines recombine at 2 rho / (D + 2 rho)
InbredIsHomozygous == stage = "inbred" => \A g \in 1..NG : H1(g) # H2(g) => dist[g] = 0
InbredTwoWayShare == (stage = "inbred" /\ Scheme = "2w") =>
    RNorm(<<Joint[HapIx(0, 1)] + Joint[HapIx(1, 0)], JTotal>>) = RNorm(<<2 * rho, D + 2 * rho>>)
\* Mendelian shares of the origins at each locus: 1/2,1/2 ; 1/2,1/4,1/4 ; 1/4 each
MarginalShares == AtSelf =>
    /\ \A o \in 0..(K - 1) : Marg1(o) = Marg2(o)
    /\ (Scheme = "2w" => 2 * Marg1(0) = JTotal)
    /\ (Scheme = "3w" => 2 * Marg1(0) = JTotal /\ 4 * Marg1(1) = JTotal)
    /\ (Scheme = "4w" => \A o \in 0..3 : 4 * Marg1(o) = JTotal)
LocusSymmetric == AtSelf => \A a, b \in 0..(K - 1) : Joint[HapIx(a, b)] = Joint[HapIx(b, a)]
CompleteLinkage == (AtSelf /\ rho = 0) => \A a, b \in 0..(K - 1) : a # b => Joint[HapIx(a, b)] = 0
==============================================================================
