SPECIFICATION Spec
CONSTANTS
  Seeds = {1, 2}
  Gens = {"g1", "g2"}
  MaxCalls = 3
  MaxNoise = 2
  PymooHidden = TRUE
  OpsGlobal = FALSE
  SelectLeak = FALSE
INVARIANT Reproducible
INVARIANT ExplicitDependsOnlyOnGenerator
PROPERTY GlobalsUntouchedByExplicit
CHECK_DEADLOCK FALSE
