SPECIFICATION TSpec
CONSTANTS
  NN = 1
  KK = 1
  AVals = {0}
  BVals = {0}
  GVals = {0}
  Cap = 0
INVARIANT Report
CHECK_DEADLOCK FALSE
