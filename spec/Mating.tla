------------------------------- MODULE Mating -------------------------------
(***************************************************************************)
(* C01 (reused by C02, C10).  The seven mating protocols of pybrops as     *)
(* multi-step pedigrees over provenance tags.                              *)
(*                                                                         *)
(* Parents carry provenance tags instead of alleles: copy h of taxon i     *)
(* carries tag 2i+h at every locus (taxa numbered from 0 as in the code).  *)
(* An individual is a pair <<copy0, copy1>> of tag sequences over loci.    *)
(*                                                                         *)
(* Part 1  meiosis / mate / DH as operators (the code's mat_meiosis: the   *)
(*         gamete starts on copy 0 and toggles BEFORE copying locus l when *)
(*         a crossover is drawn at l, including at the first locus).       *)
(* Part 2  the LINEAGE machine: one progeny individual followed through    *)
(*         the stages of its protocol (one action per code block).         *)
(* Part 3  the relation FinalOK the property states about mate()'s output  *)
(*         (used to validate recorded executions) and the index expansion  *)
(*         of crosses into progeny (numpy.repeat patterns).                *)
(* Crossover probabilities are abstracted to classes 0 (= 0), 1 (strictly  *)
(* between 0 and 1) and 2 (>= 1: a crossover is always drawn).             *)
(***************************************************************************)
EXTENDS Integers, Sequences, FiniteSets

CONSTANTS L,        \* number of loci in the lineage model
          NTaxa,    \* taxa 0..NTaxa-1 in the lineage model
          MaxSelf   \* selfing depths 0..MaxSelf

VARIABLES proto,    \* "sx" | "2w" | "2wdh" | "3w" | "3wdh" | "4w" | "4wdh"
          row,      \* the cross's parent tuple (taxon ids), as configured
          ns,       \* number of selfing generations
          xo,       \* crossover class per locus
          stage,    \* program counter of the lineage through mate()
          ind,      \* the individual followed (current generation)
          aux,      \* second intermediate hybrid (four-way: CD)
          left      \* selfings still to do
vars == <<proto, row, ns, xo, stage, ind, aux, left>>

Protos == {"sx", "2w", "2wdh", "3w", "3wdh", "4w", "4wdh"}
NPar(p) == CASE p = "sx" -> 1 [] p \in {"2w", "2wdh"} -> 2 [] p \in {"3w", "3wdh"} -> 3 [] OTHER -> 4
IsDH(p) == p \in {"2wdh", "3wdh", "4wdh"}

------------------------------------------------------------------------------
(* Part 1 *)
Tags(i) == {2 * i, 2 * i + 1}
Parent(i, n) == << [l \in 1..n |-> 2 * i], [l \in 1..n |-> 2 * i + 1] >>
\* admissible crossover masks for class vector x
Masks(x) == {m \in [1..Len(x) -> BOOLEAN] : \A l \in 1..Len(x) : (m[l] => x[l] > 0) /\ (x[l] = 2 => m[l])}
\* phase (0/1) used at locus l: parity of the crossovers drawn at loci 1..l
RECURSIVE Phase(_, _)
Phase(m, l) == IF l = 0 THEN 0 ELSE (Phase(m, l - 1) + (IF m[l] THEN 1 ELSE 0)) % 2
Gamete(X, m) == [l \in 1..Len(m) |-> X[Phase(m, l) + 1][l]]
Gametes(X, x) == {Gamete(X, m) : m \in Masks(x)}
MateSet(X, Y, x) == {<<gx, gy>> : gx \in Gametes(X, x), gy \in Gametes(Y, x)}   \* female -> copy 0, male -> copy 1
DHSet(X, x) == {<<g, g>> : g \in Gametes(X, x)}

------------------------------------------------------------------------------
(* Part 2: lineage machine *)
Init == /\ proto \in Protos
        /\ row \in [1..NPar(proto) -> 0..(NTaxa - 1)]
        /\ ns \in 0..MaxSelf
        /\ xo \in [1..L -> {0, 1, 2}]
        /\ stage = "start" /\ ind = <<>> /\ aux = <<>> /\ left = ns
P(i) == Parent(i, L)

\* first hybridisation from the configured columns
\*   sx: col1 x col1; 2w*: col1 (female) x col2 (male); 3w*: F1 = col2 x col3; 4w*: AB = col3 x col4, CD = col1 x col2
MakeF1 == /\ stage = "start"
          /\ CASE proto = "sx" -> ind' \in MateSet(P(row[1]), P(row[1]), xo) /\ aux' = aux /\ stage' = "self"
               [] proto \in {"2w", "2wdh"} -> ind' \in MateSet(P(row[1]), P(row[2]), xo) /\ aux' = aux /\ stage' = "self"
               [] proto \in {"3w", "3wdh"} -> ind' \in MateSet(P(row[2]), P(row[3]), xo) /\ aux' = aux /\ stage' = "second"
               [] OTHER -> /\ ind' \in MateSet(P(row[3]), P(row[4]), xo)
                           /\ aux' \in MateSet(P(row[1]), P(row[2]), xo)
                           /\ stage' = "second"
          /\ UNCHANGED <<proto, row, ns, xo, left>>
\* second hybridisation: 3w*: recurrent (col1, female side) x F1 ; 4w*: AB (female side) x CD
Second == /\ stage = "second"
          /\ IF proto \in {"3w", "3wdh"} THEN ind' \in MateSet(P(row[1]), ind, xo)
                                         ELSE ind' \in MateSet(ind, aux, xo)
          /\ aux' = <<>> /\ stage' = "self"
          /\ UNCHANGED <<proto, row, ns, xo, left>>
SelfStep == /\ stage = "self" /\ left > 0
            /\ ind' \in MateSet(ind, ind, xo)
            /\ left' = left - 1
            /\ UNCHANGED <<proto, row, ns, xo, stage, aux>>
SelfDone == /\ stage = "self" /\ left = 0
            /\ stage' = IF IsDH(proto) THEN "dh" ELSE "final"
            /\ UNCHANGED <<proto, row, ns, xo, ind, aux, left>>
DoubleHaploid == /\ stage = "dh"
                 /\ ind' \in DHSet(ind, xo)
                 /\ stage' = "final"
                 /\ UNCHANGED <<proto, row, ns, xo, aux, left>>
Next == MakeF1 \/ Second \/ SelfStep \/ SelfDone \/ DoubleHaploid
Spec == Init /\ [][Next]_vars

------------------------------------------------------------------------------
(* Part 3: the relation on mate()'s output *)
RowTags(r, cols) == UNION {Tags(r[c]) : c \in cols}
\* tags the configuration allows on side h (0/1) of a progeny
SideTags(p, r, s, h) ==
    LET all == RowTags(r, 1..NPar(p)) IN
    IF IsDH(p) \/ (s > 0 /\ p # "sx") THEN all
    ELSE CASE p = "sx" -> Tags(r[1])
           [] p = "2w" -> Tags(r[h + 1])
           [] p = "3w" -> IF h = 0 THEN Tags(r[1]) ELSE RowTags(r, {2, 3})
           [] OTHER    -> IF h = 0 THEN RowTags(r, {3, 4}) ELSE RowTags(r, {1, 2})
\* a copy is a mosaic of the allowed sources and the source changes only where a crossover is possible
CopyOK(c, allowed, x) == /\ \A l \in 1..Len(c) : c[l] \in allowed
                         /\ \A l \in 2..Len(c) : c[l] # c[l - 1] => x[l] > 0
IndOK(p, r, s, x, I) == /\ CopyOK(I[1], SideTags(p, r, s, 0), x)
                        /\ CopyOK(I[2], SideTags(p, r, s, 1), x)
                        /\ (IsDH(p) => I[1] = I[2])

Fidelity == stage = "final" => IndOK(proto, row, ns, xo, ind)
\* every intermediate individual only carries tags of the cross's parents
NoForeign == ind # <<>> => \A h \in 1..2 : \A l \in 1..L : ind[h][l] \in RowTags(row, 1..NPar(proto))
TypeOK == stage \in {"start", "second", "self", "dh", "final"} /\ left \in 0..MaxSelf

\* ---- index expansion (numpy.repeat): crosses -> matings -> progeny
RECURSIVE RepeatSeq(_, _)
\* numpy.repeat(v, cnt) for sequences v, cnt of equal length
RepeatSeq(v, cnt) == IF v = <<>> THEN <<>>
                     ELSE [k \in 1..cnt[1] |-> v[1]] \o RepeatSeq(Tail(v), Tail(cnt))
Iota(n) == [k \in 1..n |-> k]
Times(a, b) == [k \in 1..Len(a) |-> a[k] * b[k]]
\* cross index of every progeny: nmating*nprogeny progeny per cross, cross-major
CrossOf(nm, np) == RepeatSeq(Iota(Len(nm)), Times(nm, np))
\* the nested form used for DH / three-way / four-way family labels and hybrid selection:
\*   repeat(repeat(arange(ncross), nmating), repeat(nprogeny, nmating))
NestedCrossOf(nm, np) == RepeatSeq(RepeatSeq(Iota(Len(nm)), nm), RepeatSeq(np, nm))
\* hybrid (mating) index of every progeny: repeat(arange(sum nmating), repeat(nprogeny, nmating))
HybridOf(nm, np) == RepeatSeq(Iota(Len(RepeatSeq(Iota(Len(nm)), nm))), RepeatSeq(np, nm))
==============================================================================
