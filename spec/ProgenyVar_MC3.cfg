SPECIFICATION Spec
CONSTANTS
  K = 3
  D = 8
  MaxS = 2
  Scheme = "3w"
INVARIANT EnumerationIsClosedForm
INVARIANT LimitIsSelfingInvariant
INVARIANT InbredIsHomozygous
INVARIANT InbredTwoWayShare
INVARIANT MarginalShares
INVARIANT LocusSymmetric
INVARIANT CompleteLinkage
INVARIANT EmitTable
CHECK_DEADLOCK FALSE
