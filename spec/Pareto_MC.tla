----------------------------- MODULE Pareto_MC -----------------------------
(* Exhaustive configuration of Pareto: all sequences of <= MaxN points on Grid^NObj, all weight    *)
(* vectors over Wts; plus the algebraic laws of Dominates and of the distance transformation       *)
(* checked over small domains (evaluated once, in the initial states).                            *)
EXTENDS Pareto, TLC

CONSTANTS CvSet, ObjSet, LSet, ShiftSet

\* cfg files cannot spell negative numbers: constant sets are defined here and substituted
WtsA == {-1, 1, 2}
WtsB == {-1, 1}
CvA == {-1, 0, 1, 2}
ShiftA == {-1, 2}

\* ---- dominance laws over all (obj, cv) pairs with 2 objectives in ObjSet and cv in CvSet
Sol == [o : [1..2 -> ObjSet], c : CvSet]
D(a, b) == Dominates(a.o, a.c, b.o, b.c)
DomIrreflexive == \A a \in Sol : ~D(a, a)
DomAsymmetric  == \A a, b \in Sol : D(a, b) => ~D(b, a)
DomTransitive  == \A a, b, c \in Sol : (D(a, b) /\ D(b, c)) => D(a, c)
DomFeasibleFirst == \A a, b \in Sol : (a.c <= 0 /\ b.c > 0) => D(a, b) /\ ~D(b, a)
DomInfeasibleByCv == \A a, b \in Sol : (a.c > 0 /\ b.c > 0) => (D(a, b) <=> a.c < b.c)
DomFeasiblePareto == \A a, b \in Sol : (a.c <= 0 /\ b.c <= 0) =>
                        (D(a, b) <=> (LeqAll(a.o, b.o) /\ LtSome(a.o, b.o)))
DomLaws == DomIrreflexive /\ DomAsymmetric /\ DomTransitive /\ DomFeasibleFirst
           /\ DomInfeasibleByCv /\ DomFeasiblePareto

\* ---- distance laws on the current point set (sign vector = Sign(wt)), all preference vectors
Sg == [j \in 1..NObj |-> Sign(wt[j])]
PrefVecs == {L \in [1..NObj -> LSet] : \E j \in 1..NObj : L[j] > 0}
Shifted(P, s) == [i \in DOMAIN P |-> [j \in 1..NObj |-> P[i][j] + s[j]]]
\* squared distances are non-negative and bounded by |s|^2 <= NObj
DistRange == \A L \in PrefVecs : \A i \in DOMAIN pts :
                 /\ DistNum(pts, Sg, L, i) >= 0
                 /\ DistNum(pts, Sg, L, i) <= NObj * DistScale(pts, Sg, L)
\* translation invariance
DistTranslation == \A L \in PrefVecs : \A s \in [1..NObj -> ShiftSet] : \A i \in DOMAIN pts :
                 /\ DistScale(Shifted(pts, s), Sg, L) = DistScale(pts, Sg, L)
                 /\ DistNum(Shifted(pts, s), Sg, L, i) = DistNum(pts, Sg, L, i)
\* a point on the line (scaled coordinates proportional to L) has distance 0: the scaled
\* maximum corner (1,..,1) with L = (1,..,1)
DistOnLine == \A i \in DOMAIN pts :
                 (\A j \in 1..NObj : Range(pts, Sg, j) > 0 /\ Sg[j] * pts[i][j] = ColMax(pts, Sg, j))
                    => DistNum(pts, Sg, [j \in 1..NObj |-> 1], i) = 0
DistLawsAtDone == done => (DistRange /\ DistTranslation /\ DistOnLine)
RescaleAtDone == done => RescaleInvariant
\* constant-level laws, evaluated in the (few) states with a single point only
DomLawsOnce == (Len(pts) = 1 /\ done) => DomLaws
==============================================================================
