SPECIFICATION Spec
CONSTANTS
  NL = 2
  MaxPop = 3
  Effects <- Eff2
INVARIANT Bracket
INVARIANT FixedEqual
INVARIANT DescendantsBracket
PROPERTY UslNeverIncreases
PROPERTY LslNeverDecreases
PROPERTY LostNeverReappears
CHECK_DEADLOCK FALSE
