--------------------------- MODULE LabelledMatrix ---------------------------
(***************************************************************************)
(* C03 (reused by C15, C16).  Labelled dense matrices under structural     *)
(* operation histories.                                                    *)
(*                                                                         *)
(* An axis is a sequence of ENTITY ids; every label (name, group, chromo-  *)
(* some, position, ...) is a fixed function of the id, chosen so that      *)
(* different entities share label values.  Data cells are injective codes  *)
(* of the ids, so "the data of that entity" is decided by the ids the      *)
(* harness decodes from the real matrix.  The group cache of an axis is    *)
(* modelled explicitly (on + partition) because it is state that goes      *)
(* stale.                                                                  *)
(*                                                                         *)
(* Part 1  sequence operators with numpy's argument semantics.             *)
(* Part 2  single-axis state machine for exhaustive checking: the cache    *)
(*         invariant GroupedOK under all histories; constant               *)
(*         ReorderResetsMeta = FALSE is the repository as written          *)
(*         (reorder_* keeps the cache) and yields TLC's counterexample.    *)
(***************************************************************************)
EXTENDS Integers, Sequences, FiniteSets

------------------------------------------------------------------------------
(* Part 1 *)
\* python position (0-based, negative from the end) -> 1-based index
Norm(i, n) == IF i < 0 THEN n + i + 1 ELSE i + 1
\* numpy.take: row k of the result is s[ix[k]]
Take(s, ix) == [k \in 1..Len(ix) |-> s[Norm(ix[k], Len(s))]]
RECURSIVE DropFrom(_, _, _)
\* numpy.delete: D is the set of 0-based positions named by the index object
DropFrom(s, D, k) == IF k > Len(s) THEN <<>>
                     ELSE (IF (k - 1) \in D THEN <<>> ELSE <<s[k]>>) \o DropFrom(s, D, k + 1)
Drop(s, D) == DropFrom(s, D, 1)
RECURSIVE BlockAt(_, _, _, _)
\* the items of blk whose insertion position is p, in block order
BlockAt(pos, blk, p, k) == IF k > Len(blk) THEN <<>>
                           ELSE (IF pos[k] = p THEN <<blk[k]>> ELSE <<>>) \o BlockAt(pos, blk, p, k + 1)
RECURSIVE InsFrom(_, _, _, _)
\* numpy.insert with a sequence of positions (all referring to the ORIGINAL axis, 0..Len(s))
InsFrom(s, pos, blk, p) == IF p >= Len(s) THEN BlockAt(pos, blk, p, 1)
                           ELSE BlockAt(pos, blk, p, 1) \o <<s[p + 1]>> \o InsFrom(s, pos, blk, p + 1)
InsertAt(s, pos, blk) == InsFrom(s, pos, blk, 0)
ToSet(s) == {s[k] : k \in 1..Len(s)}
Bag(s) == [v \in ToSet(s) |-> Cardinality({k \in 1..Len(s) : s[k] = v})]
SameBag(a, b) == Len(a) = Len(b) /\ Bag(a) = Bag(b)
IsPermIx(ix, n) == Len(ix) = n /\ {Norm(ix[k], n) : k \in 1..n} = 1..n
\* non-decreasing in the key tuple <<primary, secondary>> given as integer functions of position
SortedBy(k1, k2) == \A a \in 1..(Len(k1) - 1) :
                        k1[a] < k1[a + 1] \/ (k1[a] = k1[a + 1] /\ k2[a] <= k2[a + 1])

\* the partition numpy.unique would report for group labels g (0-based start, exclusive stop)
\* parts = sequence of <<name, stix, spix, len>>
IsTruePartition(parts, g) ==
    /\ \A k \in 1..Len(parts) :
          /\ parts[k][4] = parts[k][3] - parts[k][2] /\ parts[k][4] >= 1
          /\ parts[k][2] >= 0 /\ parts[k][3] <= Len(g)
          /\ \A p \in (parts[k][2] + 1)..parts[k][3] : g[p] = parts[k][1]
    /\ \A j, k \in 1..Len(parts) : j # k => parts[j][1] # parts[k][1]
    /\ \A p \in 1..Len(g) : \E k \in 1..Len(parts) : parts[k][2] < p /\ p <= parts[k][3]
    /\ \A j, k \in 1..Len(parts) : j < k => parts[j][3] <= parts[k][2]
RECURSIVE PartFrom(_, _)
\* the partition of a label sequence that is already contiguous by group
PartFrom(g, p) == IF p > Len(g) THEN <<>>
                  ELSE LET e == CHOOSE e \in p..Len(g) : (\A x \in p..e : g[x] = g[p]) /\ (e = Len(g) \/ g[e + 1] # g[p])
                       IN <<<<g[p], p - 1, e, e - p + 1>>>> \o PartFrom(g, e + 1)

------------------------------------------------------------------------------
(* Part 2: one axis as a state machine *)
CONSTANTS Pool,                \* entity ids
          GrpOf, NameOf,       \* label tables: id -> group label, id -> name rank
          MaxLen,              \* bound on the axis length
          ReorderResetsMeta    \* TRUE: intended design; FALSE: code as written

VARIABLES ids,    \* the axis
          on,     \* is_grouped()
          parts   \* cached partition
vars == <<ids, on, parts>>

Grp(s) == [k \in 1..Len(s) |-> GrpOf[s[k]]]
Nam(s) == [k \in 1..Len(s) |-> NameOf[s[k]]]
Seqs(S, n) == UNION {[1..m -> S] : m \in 1..n}
Clear == on' = FALSE /\ parts' = <<>>

Init == ids \in Seqs(Pool, 2) /\ on = FALSE /\ parts = <<>>
\* operations that build a new object / reset the cache (select, delete, insert, adjoin, concat, append, remove, incorp)
OpSelect == \E ix \in Seqs((-Len(ids))..(Len(ids) - 1), MaxLen) : ids' = Take(ids, ix) /\ Clear
OpDelete == \E D \in (SUBSET (0..(Len(ids) - 1))) \ {{}, 0..(Len(ids) - 1)} : ids' = Drop(ids, D) /\ Clear
OpInsert == /\ Len(ids) < MaxLen
            /\ \E blk \in Seqs(Pool, MaxLen - Len(ids)) : \E pos \in [1..Len(blk) -> 0..Len(ids)] :
                   ids' = InsertAt(ids, pos, blk) /\ Clear
OpAppend == /\ Len(ids) < MaxLen
            /\ \E blk \in Seqs(Pool, MaxLen - Len(ids)) : ids' = ids \o blk /\ Clear
\* reorder: keeps the cache in the code as written
OpReorder == /\ \E ix \in {x \in [1..Len(ids) -> 0..(Len(ids) - 1)] : IsPermIx(x, Len(ids))} : ids' = Take(ids, ix)
             /\ IF ReorderResetsMeta THEN Clear ELSE UNCHANGED <<on, parts>>
\* sort: any ordering non-decreasing in (group, name); resets the cache
SortedIds(s) == {t \in [1..Len(s) -> ToSet(s)] : SameBag(t, s) /\ SortedBy(Grp(t), Nam(t))}
OpSort == ids' \in SortedIds(ids) /\ Clear
\* group: sort, then cache := true partition
OpGroup == /\ ids' \in SortedIds(ids)
           /\ on' = TRUE /\ parts' = PartFrom(Grp(ids'), 1)
OpUngroup == ids' = ids /\ Clear
Next == OpSelect \/ OpDelete \/ OpInsert \/ OpAppend \/ OpReorder \/ OpSort \/ OpGroup \/ OpUngroup
Spec == Init /\ [][Next]_vars

TypeOK == Len(ids) \in 1..MaxLen /\ on \in BOOLEAN
\* whenever the axis reports itself grouped, the cache is the true partition of the current labels
GroupedOK == on => IsTruePartition(parts, Grp(ids))
\* the cache only ever comes from a Group action
CacheOnlyFromGroup == [][(on' /\ ~on) => (parts' = PartFrom(Grp(ids'), 1) /\ SortedBy(Grp(ids'), Nam(ids')))]_vars
==============================================================================
