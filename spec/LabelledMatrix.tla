--------------------------- MODULE LabelledMatrix ---------------------------
(***************************************************************************)
(* C03 (reused by C15, C16).  Labelled dense matrices under structural     *)
(* operation histories.                                                    *)
(*                                                                         *)
(* An axis is a sequence of ENTITY ids; every label (name, group, chromo-  *)
(* some, position, ...) is a fixed function of the id, chosen so that      *)
(* different entities share label values.  Data cells are injective codes  *)
(* of the ids, so "the data of that entity" is decided by the ids the      *)
(* harness decodes from the real matrix.  The group cache of an axis is    *)
(* modelled explicitly (on + partition) because it is state that goes      *)
(* stale.                                                                  *)
(*                                                                         *)
(* Part 1  sequence operators with numpy's argument semantics.             *)
(* Part 2  single-axis state machine for exhaustive checking: the cache    *)
(*         invariant GroupedOK under all histories; constant               *)
(*         ReorderResetsMeta = FALSE is the repository as written          *)
(*         (reorder_* keeps the cache) and yields TLC's counterexample.    *)
(***************************************************************************)
EXTENDS SeqOps

------------------------------------------------------------------------------
(* Part 1: the sequence operators live in module SeqOps *)
------------------------------------------------------------------------------
(* Part 2: one axis as a state machine *)
CONSTANTS Pool,                \* entity ids
          GrpOf, NameOf,       \* label tables: id -> group label, id -> name rank
          MaxLen,              \* bound on the axis length
          ReorderResetsMeta    \* TRUE: intended design; FALSE: code as written

VARIABLES ids,    \* the axis
          on,     \* is_grouped()
          parts   \* cached partition
vars == <<ids, on, parts>>

Grp(s) == [k \in 1..Len(s) |-> GrpOf[s[k]]]
Nam(s) == [k \in 1..Len(s) |-> NameOf[s[k]]]
Seqs(S, n) == UNION {[1..m -> S] : m \in 1..n}
Clear == on' = FALSE /\ parts' = <<>>

Init == ids \in Seqs(Pool, 2) /\ on = FALSE /\ parts = <<>>
\* operations that build a new object / reset the cache (select, delete, insert, adjoin, concat, append, remove, incorp)
OpSelect == \E ix \in Seqs((-Len(ids))..(Len(ids) - 1), MaxLen) : ids' = Take(ids, ix) /\ Clear
OpDelete == \E D \in (SUBSET (0..(Len(ids) - 1))) \ {{}, 0..(Len(ids) - 1)} : ids' = Drop(ids, D) /\ Clear
OpInsert == /\ Len(ids) < MaxLen
            /\ \E blk \in Seqs(Pool, MaxLen - Len(ids)) : \E pos \in [1..Len(blk) -> 0..Len(ids)] :
                   ids' = InsertAt(ids, pos, blk) /\ Clear
OpAppend == /\ Len(ids) < MaxLen
            /\ \E blk \in Seqs(Pool, MaxLen - Len(ids)) : ids' = ids \o blk /\ Clear
\* reorder: keeps the cache in the code as written
OpReorder == /\ \E ix \in {x \in [1..Len(ids) -> 0..(Len(ids) - 1)] : IsPermIx(x, Len(ids))} : ids' = Take(ids, ix)
             /\ IF ReorderResetsMeta THEN Clear ELSE UNCHANGED <<on, parts>>
\* sort: any ordering non-decreasing in (group, name); resets the cache
SortedIds(s) == {t \in [1..Len(s) -> ToSet(s)] : SameBag(t, s) /\ SortedBy(Grp(t), Nam(t))}
OpSort == ids' \in SortedIds(ids) /\ Clear
\* group: sort, then cache := true partition
OpGroup == /\ ids' \in SortedIds(ids)
           /\ on' = TRUE /\ parts' = PartFrom(Grp(ids'), 1)
OpUngroup == ids' = ids /\ Clear
Next == OpSelect \/ OpDelete \/ OpInsert \/ OpAppend \/ OpReorder \/ OpSort \/ OpGroup \/ OpUngroup
Spec == Init /\ [][Next]_vars

TypeOK == Len(ids) \in 1..MaxLen /\ on \in BOOLEAN
\* whenever the axis reports itself grouped, the cache is the true partition of the current labels
GroupedOK == on => IsTruePartition(parts, Grp(ids))
\* the cache only ever comes from a Group action
CacheOnlyFromGroup == [][(on' /\ ~on) => (parts' = PartFrom(Grp(ids'), 1) /\ SortedBy(Grp(ids'), Nam(ids')))]_vars
==============================================================================
