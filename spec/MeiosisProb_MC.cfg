SPECIFICATION Spec
CONSTANTS
  K = 4
  NL = 3
  Strict = TRUE
INVARIANT Adjacent
INVARIANT NonAdjacent
INVARIANT Independent
INVARIANT Segregation
INVARIANT Assortment
CHECK_DEADLOCK FALSE
