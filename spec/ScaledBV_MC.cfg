SPECIFICATION Spec
CONSTANTS
  Pool <- PoolDef
  Tab <- TabDef
  MaxLen = 4
  NTrait = 4
INVARIANT MeanBetween
INVARIANT VarNonNeg
INVARIANT VarZeroIffConstant
INVARIANT ScalePositive
CHECK_DEADLOCK FALSE
