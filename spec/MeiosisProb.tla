---------------------------- MODULE MeiosisProb ----------------------------
(***************************************************************************)
(* C02.  Realised recombination equals the stored crossover probabilities. *)
(*                                                                         *)
(* The source of randomness is explicit: a meiosis over NL loci consumes   *)
(* one uniform draw per locus; draws live on the grid u = U/K, crossover   *)
(* probabilities on xoprob[l] = J[l]/K.  The rule under test is            *)
(*      crossover at l  <=>  u_l < xoprob_l                                *)
(* and the gamete is built as in Mating!Gamete (toggle before copying).    *)
(* Exact probabilities are obtained by COUNTING grid points; with iid      *)
(* uniform draws (trusted property of numpy's generators) every grid cell  *)
(* has probability K^-NL, so the counts are the probabilities.             *)
(***************************************************************************)
EXTENDS Integers, Sequences, FiniteSets

CONSTANTS K,      \* grid resolution
          NL,     \* number of loci
          Strict  \* TRUE: crossover iff u < p (the code); FALSE: u <= p (the realistic wrong variant)

VARIABLES J       \* numerators of the crossover probabilities, one per locus; the only state
vars == <<J>>

Grid == [1..NL -> 0..(K - 1)]
Hit(U, l) == IF Strict THEN U[l] < J[l] ELSE U[l] <= J[l]
RECURSIVE Src(_, _)
\* which parental copy (0/1) the gamete carries at locus l for draw vector U
Src(U, l) == IF l = 0 THEN 0 ELSE (Src(U, l - 1) + (IF Hit(U, l) THEN 1 ELSE 0)) % 2
Count(P(_)) == Cardinality({U \in Grid : P(U)})
RECURSIVE Pow(_, _)
Pow(b, e) == IF e = 0 THEN 1 ELSE b * Pow(b, e - 1)
Total == Pow(K, NL)
RECURSIVE ProdRange(_, _)
\* prod_{k=a..b} (K - 2 J_k)
ProdRange(a, b) == IF a > b THEN 1 ELSE (K - 2 * J[b]) * ProdRange(a, b - 1)

Init == J \in [1..NL -> 0..K]
Next == UNCHANGED J
Spec == Init /\ [][Next]_vars

\* (i) adjacent markers: P(source differs between l-1 and l) = xoprob[l]
Adjacent == \A l \in 2..NL :
    LET P(U) == Src(U, l) # Src(U, l - 1) IN Count(P) * K = J[l] * Total
\* (ii) non-adjacent markers a < b: P(differ) = (1 - prod_{k=a+1..b}(1 - 2 r_k)) / 2   (Haldane composition)
NonAdjacent == \A a \in 1..NL : \A b \in (a + 1)..NL :
    LET P(U) == Src(U, a) # Src(U, b) IN
    2 * Count(P) * Pow(K, b - a) = Total * (Pow(K, b - a) - ProdRange(a + 1, b))
\* (iii) crossovers in different intervals are independent: joint = product of marginals
Independent == \A a \in 1..NL : \A b \in (a + 1)..NL :
    LET PA(U) == Hit(U, a)
        PB(U) == Hit(U, b)
        PAB(U) == Hit(U, a) /\ Hit(U, b)
    IN Count(PAB) * Total = Count(PA) * Count(PB)
\* (iv) with probability one half at the first locus each copy is transmitted with probability 1/2 everywhere
Segregation == (2 * J[1] = K) => \A l \in 1..NL : LET P(U) == Src(U, l) = 1 IN 2 * Count(P) = Total
\* a second chromosome start (xoprob = 1/2 at locus c) assorts independently of everything before it
Assortment == \A c \in 2..NL : (2 * J[c] = K) =>
    LET PA(U) == Src(U, c - 1) = 1
        PB(U) == Src(U, c) = 1
        PAB(U) == Src(U, c - 1) = 1 /\ Src(U, c) = 1
    IN Count(PAB) * Total = Count(PA) * Count(PB)
==============================================================================
