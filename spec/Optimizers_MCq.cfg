SPECIFICATION Spec
CONSTANTS
  NN = 4
  KK = 2
  AVals <- AV2
  BVals <- BV
  GVals <- GV
  Cap = 1
INVARIANT MembersDistinct
INVARIANT StopsOnlyAtLocalOptimum
INVARIANT SeparableLocalIsGlobal
PROPERTY StrictDescent
CHECK_DEADLOCK FALSE
