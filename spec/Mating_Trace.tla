---------------------------- MODULE Mating_Trace ----------------------------
(* Validates recorded executions of <Protocol>.mate() against the relation of module Mating.      *)
(* One record per mate() call:                                                                    *)
(*   proto, xconfig (rows of taxon ids, 0-based), nm, np (per-cross counts), nself, xo (classes), *)
(*   pc0, fc0, pc1, fc1 (counters before/after), prog (sequence of <<copy0, copy1>> tag seqs),    *)
(*   num (number parsed from each progeny name), prefixok, grp (family labels),                   *)
(*   parentsame, metasame (booleans computed by array equality in the harness)                    *)
EXTENDS Mating, Json, IOUtils, TLC

Cases == JsonDeserialize(IOEnv.TRACE_FILE)
VARIABLE i
tvars == <<i, proto, row, ns, xo, stage, ind, aux, left>>

Verdict(c) ==
    LET co == CrossOf(c.nm, c.np)
        N == Len(co)
    IN IF c.exc # "none" THEN "exception"
       ELSE IF Len(c.prog) # N THEN "progeny-count"
       ELSE IF c.pc1 # c.pc0 + N THEN "progeny-counter"
       ELSE IF c.fc1 # c.fc0 + Len(c.xconfig) THEN "family-counter"
       ELSE IF ~c.prefixok \/ \E k \in 1..N : c.num[k] # c.pc0 + k - 1 THEN "names"
       ELSE IF \E k \in 1..N : c.grp[k] # c.fc0 + co[k] - 1 THEN "family-labels"
       ELSE IF \E k \in 1..N : \E h \in 1..2 : Len(c.prog[k][h]) # Len(c.xo) THEN "marker-count"
       ELSE IF \E k \in 1..N : \E h \in 1..2 : \E l \in 1..Len(c.xo) :
                 c.prog[k][h][l] \notin SideTags(c.proto, c.xconfig[co[k]], c.nself, h - 1)
            THEN "allele-from-undesignated-parent"
       ELSE IF \E k \in 1..N : \E h \in 1..2 : \E l \in 2..Len(c.xo) :
                 c.prog[k][h][l] # c.prog[k][h][l - 1] /\ c.xo[l] = 0
            THEN "source-switch-where-crossover-impossible"
       ELSE IF IsDH(c.proto) /\ \E k \in 1..N : c.prog[k][1] # c.prog[k][2] THEN "dh-not-homozygous"
       ELSE IF ~c.parentsame THEN "parents-modified"
       ELSE IF ~c.metasame THEN "marker-metadata-not-carried-over"
       ELSE "ok"

\* one LARGE mate() call (hundreds of progeny x hundreds of loci), recorded as summaries: tags0 / tags1 = the distinct
\* provenance tags seen in copy 0 / copy 1 over all progeny, switch = the loci (1-based, >= 2) at which some progeny copy
\* changes its source, dhhet = number of progeny whose two copies differ
BulkVerdict(c) ==
    IF c.exc # "none" THEN "exception"
    ELSE IF c.nprog # c.nexp THEN "progeny-count"
    ELSE IF \E x \in 1..Len(c.tags0) : c.tags0[x] \notin SideTags(c.proto, c.xconfig[1], c.nself, 0) THEN "allele-from-undesignated-parent"
    ELSE IF \E x \in 1..Len(c.tags1) : c.tags1[x] \notin SideTags(c.proto, c.xconfig[1], c.nself, 1) THEN "allele-from-undesignated-parent"
    ELSE IF \E x \in 1..Len(c.switch) : c.xo[c.switch[x]] = 0 THEN "source-switch-where-crossover-impossible"
    ELSE IF IsDH(c.proto) /\ c.dhhet # 0 THEN "dh-not-homozygous"
    ELSE "ok"

\* the matrix-level helpers the protocols (and the EMBV code) are built on: mat_mate / dense_cross take a female and a male
\* genotype array and one selection index per progeny and side (a "2w" row [female, male] per progeny); mat_dh / dense_dh
\* take one index per progeny ("sx" row, c.dh = TRUE: both copies are the same gamete)
HelperVerdict(c) ==
    LET N == Len(c.xconfig)
    IN IF c.exc # "none" THEN "exception"
       ELSE IF Len(c.prog) # N THEN "progeny-count"
       ELSE IF \E k \in 1..N : \E h \in 1..2 : Len(c.prog[k][h]) # Len(c.xo) THEN "marker-count"
       ELSE IF \E k \in 1..N : \E h \in 1..2 : \E l \in 1..Len(c.xo) :
                 c.prog[k][h][l] \notin SideTags(c.proto, c.xconfig[k], 0, h - 1)
            THEN "allele-from-undesignated-parent"
       ELSE IF \E k \in 1..N : \E h \in 1..2 : \E l \in 2..Len(c.xo) :
                 c.prog[k][h][l] # c.prog[k][h][l - 1] /\ c.xo[l] = 0
            THEN "source-switch-where-crossover-impossible"
       ELSE IF c.dh /\ \E k \in 1..N : c.prog[k][1] # c.prog[k][2] THEN "dh-not-homozygous"
       ELSE IF ~c.parentsame THEN "parents-modified"
       ELSE "ok"

TInit == /\ i \in 1..Len(Cases)
         /\ proto = "sx" /\ row = <<>> /\ ns = 0 /\ xo = <<>> /\ stage = "trace" /\ ind = <<>> /\ aux = <<>> /\ left = 0
TSpec == TInit /\ [][UNCHANGED tvars]_tvars
Report == PrintT(<<"CASE", Cases[i].id, IF Cases[i].kind = "bulk" THEN BulkVerdict(Cases[i])
                                         ELSE IF Cases[i].kind = "helper" THEN HelperVerdict(Cases[i]) ELSE Verdict(Cases[i])>>)
==============================================================================
