-------------------------------- MODULE Haplo --------------------------------
(***************************************************************************)
(* C18.  Haplotype blocks (pybrops/core/util/haplo.py and the OHV / OPV     *)
(* problems built on it).                                                   *)
(*  - greedy apportionment of B blocks to chromosomes as a state machine    *)
(*    (one Give step per loop iteration; exact rational comparison);        *)
(*  - equal-width binning as a RELATION (a marker strictly inside an        *)
(*    interval belongs to it, a marker on an interior boundary may belong   *)
(*    to either neighbour) and the code's "later bin wins" member of it;    *)
(*  - the partition clauses of the property as invariants;  ExactTotal is   *)
(*    the clause equal-width binning cannot always satisfy (empty bin).     *)
(* A layout is a sequence of chromosomes, each a non-decreasing sequence of *)
(* integer genetic positions.                                               *)
(***************************************************************************)
EXTENDS Integers, Sequences, FiniteSets

CONSTANTS MaxChr, MaxMark, PosSet

VARIABLES lay,    \* the layout
          B,      \* requested number of blocks
          nb,     \* blocks given to each chromosome so far
          pc      \* "give" | "bin" | "done"
vars == <<lay, B, nb, pc>>

RECURSIVE SumTo(_, _)
SumTo(f, n) == IF n = 0 THEN 0 ELSE f[n] + SumTo(f, n - 1)
NChr(L) == Len(L)
NMark(L) == SumTo([c \in 1..Len(L) |-> Len(L[c])], Len(L))
GenLen(L, c) == L[c][Len(L[c])] - L[c][1]
TotLen(L) == SumTo([c \in 1..Len(L) |-> GenLen(L, c)], Len(L))
NonDecr(s) == \A a \in 1..(Len(s) - 1) : s[a] <= s[a + 1]

\* ---- greedy apportionment: give the next block to the chromosome with the smallest actual - ideal,
\*      ideal_c = B * len_c / total ; compared as  nb[c] * total - B * len_c ; ties to the first
Deficit(L, b, n, c) == n[c] * TotLen(L) - b * GenLen(L, c)
ArgMinDeficit(L, b, n) == CHOOSE c \in 1..Len(L) :
      /\ \A d \in 1..Len(L) : Deficit(L, b, n, c) <= Deficit(L, b, n, d)
      /\ \A d \in 1..(c - 1) : Deficit(L, b, n, d) > Deficit(L, b, n, c)
RECURSIVE Apportion(_, _, _, _)
Apportion(L, b, n, k) == IF k = 0 THEN n
                         ELSE Apportion(L, b, [n EXCEPT ![ArgMinDeficit(L, b, n)] = @ + 1], k - 1)
Ones(L) == [c \in 1..Len(L) |-> 1]

\* ---- binning of chromosome c into h equal-width bins (0-based bin j)
Allowed(L, c, h, m, j) ==   \* marker m of chromosome c may carry bin j
    /\ j * GenLen(L, c) <= (L[c][m] - L[c][1]) * h
    /\ (L[c][m] - L[c][1]) * h <= (j + 1) * GenLen(L, c)
CodeBin(L, c, h, m) == CHOOSE j \in 0..(h - 1) : Allowed(L, c, h, m, j) /\ \A i \in (j + 1)..(h - 1) : ~Allowed(L, c, h, m, i)
Offset(n, c) == SumTo(n, c - 1)
\* block label of every marker (flattened, chromosome-major) under the code's rule
Labels(L, n) == [c \in 1..Len(L) |-> [m \in 1..Len(L[c]) |-> Offset(n, c) + CodeBin(L, c, n[c], m)]]
Flat(LL) == LET F[c \in 0..Len(LL)] == IF c = 0 THEN <<>> ELSE F[c - 1] \o LL[c] IN F[Len(LL)]

Layouts == {L \in UNION {[1..k -> UNION {[1..m -> PosSet] : m \in 1..MaxMark}] : k \in 1..MaxChr} :
               (\A c \in 1..Len(L) : NonDecr(L[c])) /\ TotLen(L) > 0}

Init == /\ lay \in Layouts
        /\ B \in NChr(lay)..NMark(lay)
        /\ nb = Ones(lay)
        /\ pc = "give"
Give == /\ pc = "give" /\ SumTo(nb, Len(nb)) < B
        /\ nb' = [nb EXCEPT ![ArgMinDeficit(lay, B, nb)] = @ + 1]
        /\ UNCHANGED <<lay, B, pc>>
GiveDone == /\ pc = "give" /\ SumTo(nb, Len(nb)) = B
            /\ pc' = "done"
            /\ UNCHANGED <<lay, B, nb>>
Next == Give \/ GiveDone
Spec == Init /\ [][Next]_vars /\ WF_vars(Next)

\* ---- properties
Done == pc = "done"
ApportionOK == Done => (SumTo(nb, Len(nb)) = B /\ \A c \in 1..Len(nb) : nb[c] >= 1)
ApportionAsFunction == Done => nb = Apportion(lay, B, Ones(lay), B - NChr(lay))
\* a chromosome never gets more blocks than it has markers?  NOT guaranteed (the code raises in that case)
Feasible == \A c \in 1..Len(nb) : nb[c] <= Len(lay[c])
Lab == Flat(Labels(lay, nb))
EveryMarkerOneBlock == (Done /\ Feasible) => Len(Lab) = NMark(lay)
OrderedContiguous == (Done /\ Feasible) => NonDecr(Lab)
WithinChrom == (Done /\ Feasible) => \A c \in 1..Len(lay) : \A m \in 1..Len(lay[c]) :
                   Labels(lay, nb)[c][m] \in Offset(nb, c)..(Offset(nb, c) + nb[c] - 1)
EachChromAtLeastOne == (Done /\ Feasible) => \A c \in 1..Len(lay) : \E m \in 1..Len(lay[c]) : TRUE
\* the clause equal-width binning cannot always satisfy: exactly B distinct blocks are used
ExactTotal == (Done /\ Feasible) => Cardinality({Lab[k] : k \in 1..Len(Lab)}) = B
Terminates == <>Done
==============================================================================
