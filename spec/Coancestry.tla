------------------------------ MODULE Coancestry ------------------------------
(***************************************************************************)
(* C13.  Relationship matrices from genotypes, in exact rationals.         *)
(* A genotype set is a sequence of individuals, each a sequence of allele  *)
(* dosages (0..ploidy) per marker.  Reference frequencies are c[l]/D.      *)
(* Every matrix entry is returned as <<num, den>> with den > 0.            *)
(*  - molecular coancestry from its DEFINITION (twice the mean probability *)
(*    that alleles drawn at random from the two individuals are identical  *)
(*    by state) and, separately, the closed forms the code uses;           *)
(*  - VanRaden  ZZ' / (ploidy * sum p(1-p)),  Z = X - ploidy p;            *)
(*  - Yang      (1/m) sum_l z_il z_jl / (ploidy p_l (1-p_l));              *)
(*  - generalised weighted  sum_l w_l z_il z_jl.                           *)
(***************************************************************************)
EXTENDS Integers, Sequences, FiniteSets

RECURSIVE SumTo(_, _)
SumTo(f, n) == IF n = 0 THEN 0 ELSE f[n] + SumTo(f, n - 1)
RECURSIVE Gcd(_, _)
Gcd(a, b) == IF b = 0 THEN a ELSE Gcd(b, a % b)
Abs(x) == IF x < 0 THEN -x ELSE x
Lcm(a, b) == (a \div Gcd(a, b)) * b
RatEq(p, q) == p[1] * q[2] = q[1] * p[2]

M(X) == Len(X[1])
\* ---- molecular coancestry: definition.  P(IBS at l) * ploidy^2 = a a' + (pl - a)(pl - a')
IbsNum(X, pl, i, j) == SumTo([l \in 1..M(X) |-> X[i][l] * X[j][l] + (pl - X[i][l]) * (pl - X[j][l])], M(X))
MolecularDef(X, pl, i, j) == << 2 * IbsNum(X, pl, i, j), pl * pl * M(X) >>
\* closed forms used by the code
MolecularDiploid(X, i, j) == << M(X) + SumTo([l \in 1..M(X) |-> (X[i][l] - 1) * (X[j][l] - 1)], M(X)), M(X) >>
MolecularHaploid(X, i, j) == << 2 * SumTo([l \in 1..M(X) |-> X[i][l] * X[j][l] + (1 - X[i][l]) * (1 - X[j][l])], M(X)), M(X) >>

\* ---- centred products with frequencies c[l]/D:  z_il * D = X_il D - pl c_l
ZD(X, pl, c, D, i, l) == X[i][l] * D - pl * c[l]
VanRaden(X, pl, c, D, i, j) ==
    << SumTo([l \in 1..M(X) |-> ZD(X, pl, c, D, i, l) * ZD(X, pl, c, D, j, l)], M(X)),
       pl * SumTo([l \in 1..M(X) |-> c[l] * (D - c[l])], M(X)) >>
\* Yang: each locus term (zD zD') / (pl c (D - c)); common denominator Q = lcm of pl c_l (D - c_l)
YangQ(pl, c, D) == LET F[l \in 0..Len(c)] == IF l = 0 THEN 1 ELSE Lcm(F[l - 1], pl * c[l] * (D - c[l])) IN F[Len(c)]
Yang(X, pl, c, D, i, j) ==
    << SumTo([l \in 1..M(X) |-> ZD(X, pl, c, D, i, l) * ZD(X, pl, c, D, j, l) * (YangQ(pl, c, D) \div (pl * c[l] * (D - c[l])))], M(X)),
       YangQ(pl, c, D) * M(X) >>
Weighted(X, pl, c, D, w, i, j) ==
    << SumTo([l \in 1..M(X) |-> w[l] * ZD(X, pl, c, D, i, l) * ZD(X, pl, c, D, j, l)], M(X)), D * D >>

\* ---- exhaustive model over small genotype sets
CONSTANTS MaxN, MaxM
VARIABLE X, pl
vars == <<X, pl>>
Init == /\ pl \in {1, 2}
        /\ \E n \in 1..MaxN : \E m \in 1..MaxM : X \in [1..n -> [1..m -> 0..pl]]
Next == UNCHANGED vars
Spec == Init /\ [][Next]_vars

N == Len(X)
ClosedFormIsDefinition == \A i, j \in 1..N :
    RatEq(IF pl = 2 THEN MolecularDiploid(X, i, j) ELSE MolecularHaploid(X, i, j), MolecularDef(X, pl, i, j))
SelfCoancestryRange == \A i \in 1..N : LET f == MolecularDef(X, pl, i, i) IN f[2] <= f[1] /\ f[1] <= 2 * f[2]
Symmetric == \A i, j \in 1..N : MolecularDef(X, pl, i, j) = MolecularDef(X, pl, j, i)
\* a finite positive-semidefiniteness witness: x' (Z Z') x = sum_l (sum_i x_i z_il)^2 >= 0 for all small integer x (D = 2, c = 1)
Ones == [l \in 1..M(X) |-> 1]
PsdWitness == \A x \in [1..N -> {-1, 0, 1}] :
    SumTo([i \in 1..N |-> SumTo([j \in 1..N |-> x[i] * x[j] * VanRaden(X, pl, Ones, 2, i, j)[1]], N)], N) >= 0
==============================================================================
