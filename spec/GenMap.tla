------------------------------- MODULE GenMap -------------------------------
(***************************************************************************)
(* C11.  Genetic maps and map functions.                                   *)
(* A map is a sequence of rows <<chr, phys, gen>> in the order supplied    *)
(* (integers; gen in units of 1/G Morgan); at least two markers per        *)
(* chromosome, no duplicated physical positions within a chromosome.       *)
(* Interpolation results are exact rationals <<num, den>> (den > 0).       *)
(* Map functions are handled on the lattice d = k*delta through their      *)
(* addition laws (Haldane: r(a+b) = ra + rb - 2 ra rb; Kosambi:            *)
(* r(a+b) = (ra + rb) / (1 + 4 ra rb)) with r(delta) = 1/10.               *)
(***************************************************************************)
EXTENDS Integers, Sequences, FiniteSets

CONSTANTS MaxChr, PhysSet, GenSet, MaxK

VARIABLES rows     \* the map rows as supplied
vars == <<rows>>

Chr(r) == r[1]
Phys(r) == r[2]
Gen(r) == r[3]
RowsOf(M, c) == {M[k] : k \in {j \in 1..Len(M) : Chr(M[j]) = c}}
Chroms(M) == {Chr(M[k]) : k \in 1..Len(M)}
WellFormed(M) == /\ \A c \in Chroms(M) : Cardinality(RowsOf(M, c)) >= 2
                 /\ \A a, b \in 1..Len(M) : (a # b /\ Chr(M[a]) = Chr(M[b])) => Phys(M[a]) # Phys(M[b])
\* congruent: genetic position non-decreasing in physical position within each chromosome
Congruent(M) == \A a, b \in 1..Len(M) : (Chr(M[a]) = Chr(M[b]) /\ Phys(M[a]) < Phys(M[b])) => Gen(M[a]) <= Gen(M[b])

\* ---- linear interpolation through the flanking pair; linear extrapolation through the end pair
Lower(S, x) == {r \in S : Phys(r) <= x}
Upper(S, x) == {r \in S : Phys(r) > x}
MaxPhys(S) == CHOOSE r \in S : \A q \in S : Phys(q) <= Phys(r)
MinPhys(S) == CHOOSE r \in S : \A q \in S : Phys(q) >= Phys(r)
\* the two rows whose segment is used for position x on a chromosome with row set S
SegLo(S, x) == IF Lower(S, x) = {} THEN MinPhys(S)
               ELSE IF Upper(S, x) = {} THEN MaxPhys(S \ {MaxPhys(S)})
               ELSE MaxPhys(Lower(S, x))
SegHi(S, x) == IF Lower(S, x) = {} THEN MinPhys(S \ {MinPhys(S)})
               ELSE IF Upper(S, x) = {} THEN MaxPhys(S)
               ELSE MinPhys(Upper(S, x))
\* interpolated genetic position as <<num, den>>
Interp(M, c, x) == LET S == RowsOf(M, c)
                       a == SegLo(S, x)
                       b == SegHi(S, x)
                   IN << Gen(a) * (Phys(b) - Phys(a)) + (x - Phys(a)) * (Gen(b) - Gen(a)), Phys(b) - Phys(a) >>
Missing(M, c) == c \notin Chroms(M)
RatEq(p, q) == p[1] * q[2] = q[1] * p[2]
RatLeq(p, q) == p[1] * q[2] <= q[1] * p[2]          \* denominators positive

\* ---- map-function lattice: r_k as <<num, den>> built with the addition law from r_1 = 1/10
RECURSIVE Gcd(_, _)
Gcd(a, b) == IF b = 0 THEN a ELSE Gcd(b, a % b)
Norm(p) == LET g == Gcd(IF p[1] < 0 THEN -p[1] ELSE p[1], p[2]) IN IF g = 0 THEN <<0, 1>> ELSE <<p[1] \div g, p[2] \div g>>
HaldaneAdd(p, q) == Norm(<< p[1] * q[2] + q[1] * p[2] - 2 * p[1] * q[1], p[2] * q[2] >>)
KosambiAdd(p, q) == Norm(<< p[1] * q[2] + q[1] * p[2], p[2] * q[2] + 4 * p[1] * q[1] >>)
R1 == <<1, 10>>
RECURSIVE HaldaneR(_)
HaldaneR(k) == IF k = 0 THEN <<0, 1>> ELSE IF k = 1 THEN R1 ELSE HaldaneAdd(HaldaneR(k - 1), R1)
RECURSIVE KosambiR(_)
KosambiR(k) == IF k = 0 THEN <<0, 1>> ELSE IF k = 1 THEN R1 ELSE KosambiAdd(KosambiR(k - 1), R1)

\* ---- model: all well-formed maps in all row orders
AllRows == (1..MaxChr) \X PhysSet \X GenSet
Init == rows \in {M \in UNION {[1..n -> AllRows] : n \in 2..4} : WellFormed(M)}
Next == UNCHANGED rows
Spec == Init /\ [][Next]_vars

\* interpolating a map at its own markers returns the stored positions
OwnMarkers == \A k \in 1..Len(rows) : RatEq(Interp(rows, Chr(rows[k]), Phys(rows[k])), <<Gen(rows[k]), 1>>)
\* interpolation is order preserving for congruent maps (all query positions in the physical range +-1)
Monotone == Congruent(rows) => \A c \in Chroms(rows) : \A x, y \in PhysSet \cup {0, 9} :
                x <= y => RatLeq(Interp(rows, c, x), Interp(rows, c, y))
\* between flanking markers the interpolant lies between their genetic positions
Between == \A c \in Chroms(rows) : \A x \in PhysSet :
                LET S == RowsOf(rows, c) IN
                (Lower(S, x) # {} /\ Upper(S, x) # {}) =>
                    LET a == SegLo(S, x)
                        b == SegHi(S, x)
                        lo == IF Gen(a) <= Gen(b) THEN Gen(a) ELSE Gen(b)
                        hi == IF Gen(a) <= Gen(b) THEN Gen(b) ELSE Gen(a)
                    IN RatLeq(<<lo, 1>>, Interp(rows, c, x)) /\ RatLeq(Interp(rows, c, x), <<hi, 1>>)
\* lattice laws (constant level; evaluated once per state but cheap)
LatticeLaws == /\ \A k \in 0..(MaxK - 1) : RatLeq(HaldaneR(k), HaldaneR(k + 1)) /\ RatLeq(KosambiR(k), KosambiR(k + 1))
               /\ \A k \in 0..MaxK : RatLeq(HaldaneR(k), <<1, 2>>) /\ RatLeq(KosambiR(k), <<1, 2>>) /\ RatLeq(<<0, 1>>, HaldaneR(k))
               /\ \A a, b \in 0..MaxK : a + b <= MaxK =>
                     /\ HaldaneAdd(HaldaneR(a), HaldaneR(b)) = HaldaneR(a + b)
                     /\ KosambiAdd(KosambiR(a), KosambiR(b)) = KosambiR(a + b)
               /\ \A k \in 1..MaxK : RatLeq(KosambiR(k), <<k, 10>>) /\ RatLeq(HaldaneR(k), KosambiR(k))
==============================================================================
