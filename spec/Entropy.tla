-------------------------------- MODULE Entropy --------------------------------
(***************************************************************************)
(* C08.  Entropy sources of the library and who may consume them.          *)
(*                                                                         *)
(* Sources: py (Python's random module), np (NumPy's legacy global         *)
(* RandomState = pybrops global_prng), os (anything outside the program's  *)
(* control: operating-system entropy as drawn by default_rng(None), or the *)
(* content of uninitialised memory), and explicit generators g.            *)
(* A source's state is an abstract coordinate <<origin, position>>: two    *)
(* sources with the same coordinate produce the same bits.  The result of  *)
(* a stochastic call is the tuple of coordinates it consumed -- the        *)
(* spec's stand-in for "bit-identical output".                             *)
(*                                                                         *)
(* Twin product: copies A and B of the interpreter have different          *)
(* histories, execute the same Seed(s) and afterwards the same calls.      *)
(***************************************************************************)
EXTENDS Integers, Sequences, FiniteSets

CONSTANTS Seeds,        \* seeds explored
          Gens,         \* names of explicit generators a caller may create
          MaxCalls,     \* calls after seeding
          MaxNoise,     \* draws of the prior histories
          PymooHidden,  \* TRUE: pymoo-based optimisers also draw from os entropy (as written under pymoo 0.6.2)
          OpsGlobal,    \* TRUE: the custom subset operators draw from np even when the caller gave a generator (as written)
          SelectLeak    \* TRUE: select() samples its configuration from np even when the protocol has its own generator

Copies == {"A", "B"}
VARIABLES py, np, os,      \* per copy: coordinate of each global source
          gen,             \* per copy: generator name -> coordinate, or <<"none", 0>>
          out,             \* per copy: results of the calls made since seeding
          exout,           \* per copy: results of every call that was given an explicit generator
          seeded, ncall, noise
vars == <<py, np, os, gen, out, exout, seeded, ncall, noise>>

None == <<<<"none", 0, 0>>, 0>>      \* origins are <<tag, i, j>>
Adv(c) == <<c[1], c[2] + 1>>

Init == /\ py = [c \in Copies |-> <<<<"hist-py-" \o c, 0, 0>>, 0>>]
        /\ np = [c \in Copies |-> <<<<"hist-np-" \o c, 0, 0>>, 0>>]
        /\ os = [c \in Copies |-> <<<<"os-" \o c, 0, 0>>, 0>>]          \* never equal between copies
        /\ gen = [c \in Copies |-> [g \in Gens |-> None]]
        /\ out = [c \in Copies |-> <<>>]
        /\ exout = [c \in Copies |-> <<>>]
        /\ seeded = FALSE /\ ncall = 0 /\ noise = 0

\* ---- prior history: anything may have run in one copy (it consumed the globals)
Noise(c, src) == /\ ~seeded /\ noise < MaxNoise
                 /\ noise' = noise + 1
                 /\ py' = IF src = "py" THEN [py EXCEPT ![c] = Adv(@)] ELSE py
                 /\ np' = IF src = "np" THEN [np EXCEPT ![c] = Adv(@)] ELSE np
                 /\ UNCHANGED <<os, gen, out, exout, seeded, ncall>>

\* ---- seed(s): random.seed(s); numpy.random.seed(random.randint(...))
Seed(s) == /\ ~seeded
           /\ py' = [c \in Copies |-> <<<<"seed", s, 0>>, 1>>]                      \* one randint spent
           /\ np' = [c \in Copies |-> <<<<"np-from-seed", s, 0>>, 0>>]    \* seeded from py's first draw
           /\ seeded' = TRUE
           /\ UNCHANGED <<os, gen, out, exout, ncall, noise>>

\* ---- the caller creates its own generator from a seed (same program in both copies)
NewGen(g, s) == /\ ncall < MaxCalls /\ \A c \in Copies : gen[c][g] = None
                /\ gen' = [c \in Copies |-> [gen[c] EXCEPT ![g] = <<<<"own", s, 0>>, 0>>]]
                /\ ncall' = ncall + 1
                /\ UNCHANGED <<py, np, os, out, exout, seeded, noise>>
\* ---- spawn(): a new generator seeded from py
\* (a generator spawned BEFORE the re-seeding belongs to the prior history: the program under comparison starts at Seed)
Spawn(g) == /\ seeded /\ ncall < MaxCalls /\ \A c \in Copies : gen[c][g] = None
            /\ gen' = [c \in Copies |-> [gen[c] EXCEPT ![g] = <<<<"spawn:" \o py[c][1][1], py[c][1][2], py[c][2]>>, 0>>]]
            /\ py' = [c \in Copies |-> Adv(py[c])]
            /\ ncall' = ncall + 1
            /\ UNCHANGED <<np, os, out, exout, seeded, noise>>

\* ---- stochastic calls.  kind: "lib" (mating, phenotyping, sampling utilities, configuration sampling, hill climbers,
\*      prng wrappers), "select" (a selection protocol with an exact optimiser), "pymoo" (genetic optimisers),
\*      "pure" (deterministic computations: variance / coancestry matrices, block values, predictions -- no source at all)
\* sources consumed by a call of kind k given generator r ("none" = rng argument omitted)
Uses(k, r) ==
    LET main == IF k = "pure" THEN {} ELSE IF r = "none" THEN {"np"} ELSE {r}     \* "pure": a deterministic computation
    IN main \cup (IF k = "pymoo" /\ PymooHidden THEN {"os"} ELSE {})
            \cup (IF k = "pymoo" /\ OpsGlobal THEN {"np"} ELSE {})
            \cup (IF k = "select" /\ SelectLeak THEN {"np"} ELSE {})
Coord(c, src) == IF src = "np" THEN np[c] ELSE IF src = "py" THEN py[c] ELSE IF src = "os" THEN os[c] ELSE gen[c][src]
Result(c, k, r) == [src \in Uses(k, r) |-> Coord(c, src)]
Call(k, r) == /\ ncall < MaxCalls
              /\ k = "pure" => r = "none"            \* deterministic computations take no generator
              /\ r \in Gens => \A c \in Copies : gen[c][r] # None
              /\ LET U == Uses(k, r) IN
                 /\ np' = [c \in Copies |-> IF "np" \in U THEN Adv(np[c]) ELSE np[c]]
                 /\ os' = [c \in Copies |-> IF "os" \in U THEN Adv(os[c]) ELSE os[c]]
                 /\ gen' = [c \in Copies |-> [g \in Gens |-> IF g \in U THEN Adv(gen[c][g]) ELSE gen[c][g]]]
              /\ out' = [c \in Copies |-> IF seeded THEN Append(out[c], <<k, r, Result(c, k, r)>>) ELSE out[c]]
              /\ exout' = [c \in Copies |-> IF r # "none" THEN Append(exout[c], <<k, r, Result(c, k, r)>>) ELSE exout[c]]
              /\ ncall' = ncall + 1
              /\ UNCHANGED <<py, seeded, noise>>

Kinds == {"lib", "select", "pymoo", "pure"}
Next == \/ \E c \in Copies, src \in {"py", "np"} : Noise(c, src)
        \/ \E s \in Seeds : Seed(s)
        \/ \E g \in Gens, s \in Seeds : NewGen(g, s)
        \/ \E g \in Gens : Spawn(g)
        \/ \E k \in Kinds, r \in Gens \cup {"none"} : Call(k, r)
Spec == Init /\ [][Next]_vars

\* ---- C08, first sentence: after re-seeding, the same calls give identical results and leave identical global states
Reproducible == seeded => (out["A"] = out["B"] /\ py["A"] = py["B"] /\ np["A"] = np["B"])
\* ---- C08, second sentence: a call given a generator depends only on it ...
\* (generators spawned before seeding inherit the copy's history, so the claim is about caller-made generators and
\* generators spawned after seeding)
ExplicitDependsOnlyOnGenerator ==
    \A x \in 1..Len(exout["A"]) :
        (exout["A"][x][3][exout["A"][x][2]] = exout["B"][x][3][exout["B"][x][2]]) => exout["A"][x] = exout["B"][x]
\* ... and leaves the global streams exactly as they were
GlobalsUntouchedByExplicit ==
    [][\A k \in Kinds, r \in Gens : Call(k, r) => (py' = py /\ np' = np)]_vars
==============================================================================
