------------------------ MODULE LabelledMatrix_Trace ------------------------
(* Validates single steps of operation histories recorded from the real matrix classes.           *)
(* A record:                                                                                       *)
(*   op    "select" | "delete" | "insert" | "adjoin" | "concat" | "reorder" | "sort" | "group" |    *)
(*         "ungroup" (mutating forms are logged under the same names with mut = TRUE)               *)
(*   axis  "taxa" | "vrnt" | "trait"                                                                *)
(*   ix    positions (select / reorder), del (set of positions as a sequence), pos + blk (insert),  *)
(*         blk (adjoin / concat: the ids appended)                                                  *)
(*   pre, post  projected states; opnd = operand after a non-mutating call (must equal pre)         *)
(*   tab   label tables indexed by id+1                                                             *)
(* state = [ax   : [taxa |-> ids, vrnt |-> ids, trait |-> ids],                                     *)
(*          lab  : [taxa |-> [name, grp], vrnt |-> [chr, pos, name, gen, xo, hap, alt, ref, mask],  *)
(*                  trait |-> [name]]  each  [on |-> BOOLEAN, v |-> sequence],                      *)
(*          meta : [taxa |-> [on, parts], vrnt |-> [on, parts]],                                    *)
(*          ok   : [cells |-> BOOLEAN, square |-> BOOLEAN]]                                         *)
EXTENDS LabelledMatrix, Json, IOUtils, TLC

Cases == JsonDeserialize(IOEnv.TRACE_FILE)
VARIABLE i
tvars == <<i, ids, on, parts>>

Axes == {"taxa", "vrnt", "trait"}
Fields(a) == CASE a = "taxa" -> {"name", "grp"}
               [] a = "vrnt" -> {"chr", "pos", "name", "gen", "xo", "hap", "alt", "ref", "mask"}
               [] OTHER -> {"name"}
GroupField(a) == IF a = "taxa" THEN "grp" ELSE "chr"

\* every present label array carries, at every position, the label of the entity sitting there
LabelsAttached(c, st) ==
    \A a \in Axes : \A f \in Fields(a) :
        st.lab[a][f].on =>
            /\ Len(st.lab[a][f].v) = Len(st.ax[a])
            /\ \A k \in 1..Len(st.ax[a]) : st.lab[a][f].v[k] = c.tab[a][f][st.ax[a][k] + 1]
PresenceKept(c) ==
    \A a \in Axes : \A f \in Fields(a) : c.post.lab[a][f].on = c.pre.lab[a][f].on
\* group cache, if reported, is the true partition of the current group labels
MetaTrue(c, st) ==
    \A a \in {"taxa", "vrnt"} :
        st.meta[a].on =>
            /\ st.lab[a][GroupField(a)].on
            /\ IsTruePartition(st.meta[a].parts, st.lab[a][GroupField(a)].v)

Key1(c, a, s) == [k \in 1..Len(s) |-> IF a # "trait" /\ c.pre.lab[a][GroupField(a)].on
                                      THEN c.tab[a][IF a = "taxa" THEN "grp" ELSE "chr"][s[k] + 1] ELSE 0]
Key2(c, a, s) == [k \in 1..Len(s) |->
                    IF a = "taxa" THEN (IF c.pre.lab[a]["name"].on THEN c.tab[a]["namerank"][s[k] + 1] ELSE 0)
                    ELSE IF a = "vrnt" THEN (IF c.pre.lab[a]["pos"].on THEN c.tab[a]["pos"][s[k] + 1] ELSE 0)
                    ELSE c.tab[a]["namerank"][s[k] + 1]]

Expected(c, s) ==
    CASE c.op = "select"  -> Take(s, c.ix)
      [] c.op = "reorder" -> Take(s, c.ix)
      [] c.op = "delete"  -> Drop(s, ToSet(c.del))
      [] c.op = "insert"  -> InsertAt(s, c.pos, c.blk)
      [] c.op = "adjoin"  -> s \o c.blk
      [] c.op = "concat"  -> s \o c.blk
      [] OTHER -> s

\* a stale cache inherited unchanged from the pre-state is blamed on the step that created it, not on this one
MetaBlame(c, a) ==
    /\ c.post.meta[a].on
    /\ ~(c.post.lab[a][GroupField(a)].on /\ IsTruePartition(c.post.meta[a].parts, c.post.lab[a][GroupField(a)].v))
    /\ ~(c.post.meta[a] = c.pre.meta[a] /\ c.post.lab[a][GroupField(a)] = c.pre.lab[a][GroupField(a)])
Detached(c) == {af \in {<<a, f>> : a \in Axes, f \in {"name", "grp", "chr", "pos", "gen", "xo", "hap", "alt", "ref", "mask"}} :
                  af[2] \in Fields(af[1]) /\ c.post.lab[af[1]][af[2]].on /\
                  ~(/\ Len(c.post.lab[af[1]][af[2]].v) = Len(c.post.ax[af[1]])
                    /\ \A k \in 1..Len(c.post.ax[af[1]]) :
                          c.post.lab[af[1]][af[2]].v[k] = c.tab[af[1]][af[2]][c.post.ax[af[1]][k] + 1])}
Vanished(c) == {af \in {<<a, f>> : a \in Axes, f \in {"name", "grp", "chr", "pos", "gen", "xo", "hap", "alt", "ref", "mask"}} :
                  af[2] \in Fields(af[1]) /\ c.post.lab[af[1]][af[2]].on # c.pre.lab[af[1]][af[2]].on}
Pick(S) == CHOOSE x \in S : TRUE

Verdict(c) ==
    LET a == c.axis
        s == c.pre.ax[a]
        t == c.post.ax[a]
    IN IF c.op = "alias" THEN (IF c.post = c.pre THEN <<"ok", "", "">>
                               ELSE <<"earlier-object-changed-by-an-operation-on-an-object-derived-from-it", "", "">>)
       ELSE IF c.err # "none" THEN <<"exception-on-valid-arguments", "", "">>
       \* op "counterpart": pre = state after the NON-mutating form, post = state after the mutating form of the same
       \* operation with the same operand (here: a raw block without label arrays, whose entities carry no labels)
       ELSE IF c.op = "counterpart" THEN
            (IF \E b \in Axes : \E f \in Fields(b) : c.post.lab[b][f].on /\ Len(c.post.lab[b][f].v) # Len(c.post.ax[b])
                THEN <<"label-array-length-differs-from-the-axis", a, "">>
             ELSE IF \E b \in Axes : \E f \in Fields(b) : c.pre.lab[b][f].on /\ Len(c.pre.lab[b][f].v) # Len(c.pre.ax[b])
                THEN <<"label-array-length-differs-from-the-axis", a, "">>
             ELSE IF c.post # c.pre THEN <<"mutating-operation-differs-from-its-non-mutating-counterpart", a, "">>
             ELSE <<"ok", "", "">>)
       ELSE IF ~c.post.ok.square THEN <<"square-axes-disagree", "", "">>
       ELSE IF ~c.post.ok.cells THEN <<"data-cells-not-those-of-the-entity", "", "">>
       ELSE IF c.op \in {"select", "reorder", "delete", "insert", "adjoin", "concat", "ungroup"} /\ t # Expected(c, s)
            THEN <<"wrong-entities-after-operation", a, "">>
       ELSE IF c.op \in {"sort", "group"} /\ ~SameBag(t, s) THEN <<"sort-lost-or-duplicated-entities", a, "">>
       ELSE IF c.op \in {"sort", "group"} /\ ~(SortedBy(Key1(c, a, t), Key2(c, a, t)) \/ SortedBy(Key2(c, a, t), Key1(c, a, t)))
            THEN <<"not-sorted-by-the-axis-keys", a, "">>   \* either key may be the primary one (not fixed by the property)
       ELSE IF \E b \in Axes \ {a} : c.post.ax[b] # c.pre.ax[b] THEN <<"other-axis-changed", "", "">>
       ELSE IF Detached(c) # {} THEN <<"label-detached-from-entity", Pick(Detached(c))[1], Pick(Detached(c))[2]>>
       ELSE IF Vanished(c) # {} THEN <<"optional-label-array-appeared-or-vanished", Pick(Vanished(c))[1], Pick(Vanished(c))[2]>>
       ELSE IF \E b \in {"taxa", "vrnt"} : MetaBlame(c, b) THEN <<"reported-grouping-is-not-a-true-partition", Pick({b \in {"taxa", "vrnt"} : MetaBlame(c, b)}), "">>
       ELSE IF c.op = "group" /\ a # "trait" /\ c.pre.lab[a][GroupField(a)].on /\ ~c.post.meta[a].on THEN <<"group-did-not-group", a, "">>
       ELSE IF c.op = "ungroup" /\ a # "trait" /\ c.post.meta[a].on THEN <<"ungroup-did-not-ungroup", a, "">>
       ELSE IF ~c.mut /\ c.opnd # c.pre THEN <<"operand-modified-by-non-mutating-operation", "", "">>
       ELSE <<"ok", "", "">>

TInit == i \in 1..Len(Cases) /\ ids = <<>> /\ on = FALSE /\ parts = <<>>
TSpec == TInit /\ [][UNCHANGED tvars]_tvars
Report == PrintT(<<"CASE", Cases[i].id, Verdict(Cases[i])[1], Verdict(Cases[i])[2], Verdict(Cases[i])[3]>>)
==============================================================================
