SPECIFICATION Spec
CONSTANTS
  Slots = {"geno", "bval"}
  MaxRep = 3
  MaxGen = 2
  ResetMode = "deep"
  RecordHist = FALSE
INVARIANT TypeOK
INVARIANT StartNeverModified
INVARIANT ReplicateStartsEqual
INVARIANT TimeIndex
INVARIANT LogbookRep
INVARIANT DoneAll
PROPERTY TimeMonotone
PROPERTY CycleTicksByOne
PROPERTY EvolveStartsAtOne
PROPERTY Done
CHECK_DEADLOCK FALSE
