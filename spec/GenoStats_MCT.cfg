SPECIFICATION Spec
CONSTANTS
  MaxN = 60
INVARIANT FreqInRange
INVARIANT FreqExtreme
INVARIANT FixedIsNotPoly
INVARIANT FixedIffAllEqual
INVARIANT PhasedEqUnphased
INVARIANT GtCover
INVARIANT MinorAtMostHalf
INVARIANT HetSymmetric
INVARIANT DiploidIsInstance
CHECK_DEADLOCK FALSE
