SPECIFICATION Spec
CONSTANTS
  L = 3
  NTaxa = 3
  MaxSelf = 1
INVARIANT TypeOK
INVARIANT Fidelity
INVARIANT NoForeign
INVARIANT ExpansionOnce
CHECK_DEADLOCK FALSE
