SPECIFICATION Spec
CONSTANTS
  MaxN = 24
INVARIANT FreqInRange
INVARIANT FreqExtreme
INVARIANT FixedIsNotPoly
INVARIANT FixedIffAllEqual
INVARIANT PhasedEqUnphased
INVARIANT GtCover
INVARIANT MinorAtMostHalf
INVARIANT HetSymmetric
INVARIANT DiploidIsInstance
CHECK_DEADLOCK FALSE
