SPECIFICATION Spec
CONSTANTS
  MaxN = 4
  NObj = 2
  Grid = {0, 1, 2}
  Wts <- WtsB
  CvSet <- CvA
  ObjSet = {0, 1}
  LSet = {0, 1}
  ShiftSet <- ShiftA
INVARIANT TypeOK
INVARIANT AlgoAdmissible
INVARIANT AlgoVectors
INVARIANT KeptSorted
INVARIANT ProcessedUndominated
INVARIANT RescaleAtDone
INVARIANT DistLawsAtDone
INVARIANT DomLawsOnce
PROPERTY Shrinks
CHECK_DEADLOCK FALSE
