SPECIFICATION TSpec
CONSTANTS
  MaxN = 1
  MaxM = 1
INVARIANT Report
CHECK_DEADLOCK FALSE
