------------------------------ MODULE SelLimits ------------------------------
(***************************************************************************)
(* C10.  Selection limits along closed breeding histories.                 *)
(* A population is a set of diploid individuals over NL biallelic loci; an *)
(* individual is a sequence of <<a, b>> allele pairs.  One Step replaces   *)
(* the population by any non-empty set (<= MaxPop) of individuals that can *)
(* be obtained from it by Mendelian transmission through up to two         *)
(* generations (covers selection, selfing, 2/3/4-way crosses and doubled   *)
(* haploids of intermediate hybrids): no immigration, no mutation.         *)
(* Additive effects u[l] per locus (one trait in the model).               *)
(***************************************************************************)
EXTENDS Integers, Sequences, FiniteSets

CONSTANTS NL, MaxPop, Effects
VARIABLES pop, u
vars == <<pop, u>>

Geno == [1..NL -> {0, 1} \X {0, 1}]
Dos(g, l) == g[l][1] + g[l][2]
\* alleles present at locus l
Has(P, l, a) == \E g \in P : g[l][1] = a \/ g[l][2] = a
Alleles(P) == {<<l, a>> \in (1..NL) \X {0, 1} : Has(P, l, a)}
RECURSIVE SumTo(_, _)
SumTo(f, n) == IF n = 0 THEN 0 ELSE f[n] + SumTo(f, n - 1)
Gebv(g) == SumTo([l \in 1..NL |-> Dos(g, l) * u[l]], NL)
\* upper limit: favourable allele (1 if u>0, 0 if u<0) counted when still present
UslTerm(P, l) == IF u[l] > 0 THEN (IF Has(P, l, 1) THEN 2 * u[l] ELSE 0)
                 ELSE (IF ~Has(P, l, 0) THEN 2 * u[l] ELSE 0)
LslTerm(P, l) == IF u[l] > 0 THEN (IF ~Has(P, l, 0) THEN 2 * u[l] ELSE 0)
                 ELSE (IF Has(P, l, 1) THEN 2 * u[l] ELSE 0)
USL(P) == SumTo([l \in 1..NL |-> UslTerm(P, l)], NL)
LSL(P) == SumTo([l \in 1..NL |-> LslTerm(P, l)], NL)
FixedPop(P) == \A l \in 1..NL : ~(Has(P, l, 0) /\ Has(P, l, 1))

\* Mendelian offspring of a set of potential parents
Offspring(P) == {g \in Geno : \E f \in P : \E m \in P : \A l \in 1..NL :
                    (g[l][1] = f[l][1] \/ g[l][1] = f[l][2]) /\ (g[l][2] = m[l][1] \/ g[l][2] = m[l][2])}
Reach(P) == Offspring(P \cup Offspring(P))

Init == /\ pop \in {P \in SUBSET Geno : Cardinality(P) \in 1..MaxPop}
        /\ u \in [1..NL -> Effects]
Step == /\ pop' \in {P \in SUBSET Reach(pop) : Cardinality(P) \in 1..MaxPop}
        /\ u' = u
Next == Step
Spec == Init /\ [][Next]_vars

Bracket == \A g \in pop : LSL(pop) <= Gebv(g) /\ Gebv(g) <= USL(pop)
FixedEqual == FixedPop(pop) => \A g \in pop : LSL(pop) = Gebv(g) /\ USL(pop) = Gebv(g)
\* descendants stay inside the bracket of their ancestors' population
DescendantsBracket == \A g \in Reach(pop) : LSL(pop) <= Gebv(g) /\ Gebv(g) <= USL(pop)
UslNeverIncreases == [][USL(pop') <= USL(pop)]_vars
LslNeverDecreases == [][LSL(pop') >= LSL(pop)]_vars
LostNeverReappears == [][Alleles(pop') \subseteq Alleles(pop)]_vars
==============================================================================
