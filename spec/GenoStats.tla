------------------------------ MODULE GenoStats ------------------------------
(***************************************************************************)
(* C09 (reused by C10, C04).  Per-locus genotype arithmetic.               *)
(* A diploid biallelic locus in a population is its multiset of phased     *)
(* genotypes: q[1] = #(0|0), q[2] = #(0|1), q[3] = #(1|0), q[4] = #(1|1).  *)
(* Its unphased projection is the genotype-class composition (n0,n1,n2).   *)
(* All statistics are exact integers or rationals num/den.                 *)
(***************************************************************************)
EXTENDS Integers, Sequences, FiniteSets

CONSTANTS MaxN     \* population sizes 1..MaxN in the exhaustive model
VARIABLES q        \* the locus
vars == <<q>>

Ploidy == 2
N(x)  == x[1] + x[2] + x[3] + x[4]
\* unphased projection
N0(x) == x[1]
N1(x) == x[2] + x[3]
N2(x) == x[4]
\* allele counts: from the phase pairs, and from the dosage classes
ACountPhased(x)   == x[2] + x[3] + 2 * x[4]
ACountUnphased(x) == N1(x) + 2 * N2(x)
Copies(x) == Ploidy * N(x)
\* frequency as a rational <<num, den>> (not reduced)
AFreq(x) == <<ACountUnphased(x), Copies(x)>>
Poly(x)  == 0 < ACountUnphased(x) /\ ACountUnphased(x) < Copies(x)
Fixed(x) == ~Poly(x)
\* "every chromosome copy carries the same allele"
AllCopiesEqual(x) == (x[2] = 0 /\ x[3] = 0) /\ (x[1] = 0 \/ x[4] = 0)
\* phased polymorphism test of the code: not(all copies 0 or all copies 1)
PolyPhased(x) == ~((x[2] = 0 /\ x[3] = 0 /\ x[4] = 0) \/ (x[1] = 0 /\ x[2] = 0 /\ x[3] = 0))
MinorCount(x) == IF 2 * ACountUnphased(x) > Copies(x) THEN Copies(x) - ACountUnphased(x) ELSE ACountUnphased(x)
\* p(1-p) * Copies^2
HetNum(x) == ACountUnphased(x) * (Copies(x) - ACountUnphased(x))
GtCount(x) == <<N0(x), N1(x), N2(x)>>

\* ---- any ploidy P: a locus is its dosage-class composition dc, dc[k+1] = number of taxa carrying k copies (k = 0..P)
RECURSIVE SumSeq(_, _)
SumSeq(f, k) == IF k = 0 THEN 0 ELSE f[k] + SumSeq(f, k - 1)
PloidyDC(dc) == Len(dc) - 1
NDC(dc)      == SumSeq(dc, Len(dc))
ACountDC(dc) == SumSeq([k \in 1..Len(dc) |-> (k - 1) * dc[k]], Len(dc))
CopiesDC(dc) == PloidyDC(dc) * NDC(dc)
PolyDC(dc)   == 0 < ACountDC(dc) /\ ACountDC(dc) < CopiesDC(dc)
AllCopiesEqualDC(dc) == dc[1] = NDC(dc) \/ dc[Len(dc)] = NDC(dc)
MinorCountDC(dc) == IF 2 * ACountDC(dc) > CopiesDC(dc) THEN CopiesDC(dc) - ACountDC(dc) ELSE ACountDC(dc)
HetNumDC(dc) == ACountDC(dc) * (CopiesDC(dc) - ACountDC(dc))
\* the diploid operators above are the P = 2 instance
DiploidIsInstance == /\ ACountDC(GtCount(q)) = ACountUnphased(q) /\ CopiesDC(GtCount(q)) = Copies(q)
                     /\ PolyDC(GtCount(q)) = Poly(q) /\ MinorCountDC(GtCount(q)) = MinorCount(q)
                     /\ HetNumDC(GtCount(q)) = HetNum(q) /\ AllCopiesEqualDC(GtCount(q)) = AllCopiesEqual(q)

Init == q \in {x \in [1..4 -> 0..MaxN] : N(x) >= 1 /\ N(x) <= MaxN}
Next == UNCHANGED q
Spec == Init /\ [][Next]_vars

FreqInRange   == 0 <= AFreq(q)[1] /\ AFreq(q)[1] <= AFreq(q)[2]
FreqExtreme   == (AFreq(q)[1] = 0 \/ AFreq(q)[1] = AFreq(q)[2]) <=> AllCopiesEqual(q)
FixedIsNotPoly == Fixed(q) <=> ~Poly(q)
FixedIffAllEqual == Fixed(q) <=> AllCopiesEqual(q)
PhasedEqUnphased == /\ ACountPhased(q) = ACountUnphased(q)
                    /\ PolyPhased(q) = Poly(q)
GtCover == GtCount(q)[1] + GtCount(q)[2] + GtCount(q)[3] = N(q)
MinorAtMostHalf == 2 * MinorCount(q) <= Copies(q) /\ MinorCount(q) >= 0
HetSymmetric == HetNum(q) = MinorCount(q) * (Copies(q) - MinorCount(q)) /\ (Fixed(q) <=> HetNum(q) = 0)
==============================================================================
