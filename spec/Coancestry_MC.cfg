SPECIFICATION Spec
CONSTANTS
  MaxN = 3
  MaxM = 2
INVARIANT ClosedFormIsDefinition
INVARIANT SelfCoancestryRange
INVARIANT Symmetric
INVARIANT PsdWitness
CHECK_DEADLOCK FALSE
