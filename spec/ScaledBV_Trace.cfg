SPECIFICATION TSpec
CONSTANTS
  Pool = {0}
  Tab = 0
  MaxLen = 1
  NTrait = 1
INVARIANT Report
CHECK_DEADLOCK FALSE
