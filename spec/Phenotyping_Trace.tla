--------------------------- MODULE Phenotyping_Trace ---------------------------
(* Validates recorded trials, breeding-value estimates and heritability settings against Phenotyping. *)
(* kind "trial": n, nrep, g[i][t] true genotypic values, E[e][t], R[e][k][t], eps[e][k][i][t] (the     *)
(*   scripted integer effects, all zero for TruePhenotyping), name[i], grp[i] (taxon labels as ids),    *)
(*   rows = observed records <<nameid, grp, env, rep, <<values>>>> in table order, reqok (the generator *)
(*   was asked for one environment effect per environment, one replicate effect per replicate and one    *)
(*   error vector per record), lat                                                                       *)
(* kind "meanbv": obs = records <<taxonid, <<values>>>> (any row order), gt = taxon ids of the genotype  *)
(*   matrix, est[j][t] = round(estimate * cnt_j), miss[j], taxaok, lat                                   *)
(* kind "h2": varAnn[t] (additive variance * n^2), hn/hd (target heritability), errq[t] = observed       *)
(*   error variance * n^2 * hn                                                                           *)
EXTENDS Phenotyping, Json, IOUtils, TLC

Cases == JsonDeserialize(IOEnv.TRACE_FILE)
VARIABLE i
tvars == <<i, n, nrep, e, k, recs>>

TrialVerdict(c) ==
    LET N == c.n * SumTo(c.nrep, Len(c.nrep))
        T == 1..Len(c.g[1])
    IN IF c.err # "none" THEN "exception-on-valid-input"
       ELSE IF Len(c.rows) # N THEN "record-count"
       ELSE IF ~c.lat THEN "value-not-on-integer-lattice"
       ELSE IF \E p \in 1..N : LET x == ExpectedRecord(c.n, c.nrep, p) IN
                 c.rows[p][1] # c.name[x[1]] \/ c.rows[p][2] # c.grp[x[1]] \/ c.rows[p][3] # x[2] \/ c.rows[p][4] # x[3]
            THEN "record-labels-or-layout"
       ELSE IF \E p \in 1..N : \E t \in T : LET x == ExpectedRecord(c.n, c.nrep, p) IN
                 c.rows[p][5][t] # c.g[x[1]][t] + c.E[x[2]][t] + c.R[x[2]][x[3]][t] + c.eps[x[2]][x[3]][x[1]][t]
            THEN "record-value"
       ELSE IF ~c.reqok THEN "effect-structure"
       ELSE "ok"

\* shape-agnostic structure of a trial drawn with a REAL generator: rows carry, per trait, the class id of the residual
\* (value - genotypic value, equal residuals = equal id, id 0 = residual zero).  zenv/zrep/zerr[t]: that variance
\* component of trait t was requested as exactly 0.
StructVerdict(c) ==
    LET N == c.n * SumTo(c.nrep, Len(c.nrep))
        T == 1..Len(c.zerr)
        X(p) == ExpectedRecord(c.n, c.nrep, p)
    IN IF c.err # "none" THEN "exception-on-valid-input"
       ELSE IF Len(c.rows) # N THEN "record-count"
       ELSE IF \E p \in 1..N : c.rows[p][1] # c.name[X(p)[1]] \/ c.rows[p][2] # c.grp[X(p)[1]] \/ c.rows[p][3] # X(p)[2] \/ c.rows[p][4] # X(p)[3]
            THEN "record-labels-or-layout"
       ELSE IF \E t \in T : c.zerr[t] /\ \E p, q \in 1..N : X(p)[2] = X(q)[2] /\ X(p)[3] = X(q)[3] /\ c.rows[p][5][t] # c.rows[q][5][t]
            THEN "plot-error-present-although-its-variance-is-zero"
       ELSE IF \E t \in T : c.zerr[t] /\ c.zrep[t] /\ \E p, q \in 1..N : X(p)[2] = X(q)[2] /\ c.rows[p][5][t] # c.rows[q][5][t]
            THEN "replicate-effect-present-although-its-variance-is-zero"
       ELSE IF \E t \in T : c.zerr[t] /\ c.zrep[t] /\ c.zenv[t] /\ \E p \in 1..N : c.rows[p][5][t] # 0
            THEN "environment-effect-present-although-its-variance-is-zero"
       \* a positive error variance makes equal residuals inside a block a null event (n >= 2 plots)
       ELSE IF \E t \in T : ~c.zerr[t] /\ \E p, q \in 1..N : p # q /\ X(p)[2] = X(q)[2] /\ X(p)[3] = X(q)[3] /\ c.rows[p][5][t] = c.rows[q][5][t]
            THEN "plot-error-missing-although-its-variance-is-positive"
       ELSE IF \E t \in T : c.zerr[t] /\ ~c.zrep[t] /\ \E p, q \in 1..N : X(p)[2] = X(q)[2] /\ X(p)[3] # X(q)[3] /\ c.rows[p][5][t] = c.rows[q][5][t]
            THEN "replicate-effect-missing-although-its-variance-is-positive"
       ELSE IF \E t \in T : c.zerr[t] /\ c.zrep[t] /\ ~c.zenv[t] /\ \E p, q \in 1..N : X(p)[2] # X(q)[2] /\ c.rows[p][5][t] = c.rows[q][5][t]
            THEN "environment-effect-missing-although-its-variance-is-positive"
       ELSE "ok"

Rows(c, id) == {p \in 1..Len(c.obs) : c.obs[p][1] = id}
MeanVerdict(c) ==
    LET T == 1..Len(c.obs[1][2]) IN
    IF c.err # "none" THEN "exception-on-valid-input"
    ELSE IF ~c.taxaok THEN "estimate-not-aligned-to-genotype-taxa"
    ELSE IF \E j \in 1..Len(c.gt) : c.miss[j] # (Rows(c, c.gt[j]) = {}) THEN "unphenotyped-taxon-not-missing"
    ELSE IF ~c.lat THEN "value-not-on-lattice"
    ELSE IF \E j \in 1..Len(c.gt) : \E t \in T : Rows(c, c.gt[j]) # {} /\
              c.est[j][t] # SumTo([p \in 1..Len(c.obs) |-> IF c.obs[p][1] = c.gt[j] THEN c.obs[p][2][t] ELSE 0], Len(c.obs))
         THEN "estimate-is-not-the-arithmetic-mean"
    ELSE "ok"

H2Verdict(c) ==
    IF c.err # "none" THEN "exception-on-valid-input"
    ELSE IF ~c.lat THEN "value-not-on-lattice"
    ELSE IF \E t \in 1..Len(c.varAnn) : c.errq[t] # (c.hd - c.hn) * c.varAnn[t] THEN "heritability-calibration"
    \* calibrating the error variance changes nothing else: the other variance components keep their values, and so do the arrays
    \* the caller handed over (before / after: environment, replicate components times 8)
    ELSE IF c.others.before # c.others.after THEN "calibration-changed-other-variance-components-or-the-callers-arrays"
    ELSE "ok"

TInit == i \in 1..Len(Cases) /\ n = 0 /\ nrep = <<>> /\ e = 0 /\ k = 0 /\ recs = <<>>
TSpec == TInit /\ [][UNCHANGED tvars]_tvars
Report == PrintT(<<"CASE", Cases[i].id,
                   CASE Cases[i].kind = "trial" -> TrialVerdict(Cases[i])
                     [] Cases[i].kind = "struct" -> StructVerdict(Cases[i])
                     [] Cases[i].kind = "meanbv" -> MeanVerdict(Cases[i])
                     [] OTHER -> H2Verdict(Cases[i])>>)
==============================================================================
