SPECIFICATION Spec
CONSTANTS
  N = 2
  NC = 2
  NP = 2
  Decs <- D2
  Enc = "tiled"
  MixCols = FALSE
INVARIANT DoneOK
INVARIANT TiledClosedForm
PROPERTY Terminates
PROPERTY MultisetKept
PROPERTY NeverWorse
CHECK_DEADLOCK FALSE
