--------------------------- MODULE Optimizers_Trace ---------------------------
(***************************************************************************)
(* Validates what the real optimisers and variation operators return.      *)
(* Members are logged as 0-based positions in the candidate set (-1: not a *)
(* candidate).  Kinds:                                                     *)
(*  subset  one solution of a single-objective subset optimiser            *)
(*          req "valid" | "local" | "global"                               *)
(*  climb   the trajectory of a hill climber (accepted solutions, in       *)
(*          order): every step must be a Steepest step of Optimizers and   *)
(*          the last state a local optimum                                 *)
(*  front   the solutions of a multi-objective subset optimiser            *)
(*  vector  the solutions of an integer / binary / real optimiser; values  *)
(*          in thousandths, order of objective values as dense ranks       *)
(*  op      children of a subset variation operator                        *)
(*  vecop   children of an integer variation operator                      *)
(***************************************************************************)
EXTENDS Optimizers, Json, IOUtils, TLC

Cases == JsonDeserialize(IOEnv.TRACE_FILE)
VARIABLE i
tvars == <<i, sol, a, b, g, stopped>>

ToSet1(s) == {s[p] + 1 : p \in 1..Len(s)}      \* 0-based members -> 1-based set
RECURSIVE SumTo(_, _)
SumTo(f, n) == IF n = 0 THEN 0 ELSE f[n] + SumTo(f, n - 1)
Abs(x) == IF x < 0 THEN -x ELSE x
Zero2(n) == [x \in 1..n |-> [y \in 1..n |-> 0]]
\* ncon in 0..2 violation components: loads g against cap, loads g2 against cap2; the optimisers compare the TOTAL
\* violation, a solution reports the components
CvVec(c, S) == IF c.ncon = 0 THEN <<>> ELSE IF c.ncon = 1 THEN <<Cv(S, c.g, c.cap)>> ELSE <<Cv(S, c.g, c.cap), Cv(S, c.g2, c.cap2)>>
CvOf(c, S) == SumTo(CvVec(c, S), c.ncon)
Better2(c, T, S) == Better(CvOf(c, T), Score(T, c.a, c.b), CvOf(c, S), Score(S, c.a, c.b))
NeighboursOf(c, S) == Neighbours(S, c.n)
LocalOpt2(c, S) == \A T \in NeighboursOf(c, S) : ~Better2(c, T, S)
GlobalOpt2(c, S) == \A T \in KSubsets(c.n, c.k) : ~Better2(c, T, S)
Improving2(c, S) == {T \in NeighboursOf(c, S) : Better2(c, T, S)}
Best2(c, TS) == {T \in TS : \A U \in TS : ~Better2(c, U, T)}

Shape(c, decn) == IF Len(decn) # c.k THEN "subset-size"
                  ELSE IF \E p \in 1..Len(decn) : decn[p] \notin 0..(c.n - 1) THEN "member-outside-candidate-set"
                  ELSE IF Cardinality(ToSet1(decn)) # c.k THEN "repeated-member"
                  ELSE "ok"

SubsetVerdict(c) ==
    LET S == ToSet1(c.decn) IN
    IF c.err # "none" THEN "exception-on-valid-problem"
    ELSE IF Shape(c, c.decn) # "ok" THEN Shape(c, c.decn)
    ELSE IF ~c.dtypeok THEN "decision-dtype"
    ELSE IF c.obj # Score(S, c.a, c.b) THEN "reported-objective-is-not-a-fresh-evaluation"
    ELSE IF c.cv # CvVec(c, S) THEN "reported-constraint-violation-is-not-a-fresh-evaluation"
    ELSE IF ~c.lat THEN "reported-values-differ-from-the-problem's-own-evaluation"
    ELSE IF ~c.unchanged THEN "problem-object-modified"
    ELSE IF c.req = "local" /\ ~LocalOpt2(c, S) THEN "stopped-where-a-single-exchange-improves"
    ELSE IF c.req = "global" /\ ~GlobalOpt2(c, S) THEN "not-the-brute-force-optimum"
    ELSE "ok"

ClimbVerdict(c) ==
    LET ns == Len(c.states)
        St(s) == ToSet1(c.states[s])
    IN IF c.err # "none" THEN "exception-on-valid-problem"
       ELSE IF \E s \in 1..ns : Shape(c, c.states[s]) # "ok" THEN Shape(c, c.states[CHOOSE s \in 1..ns : Shape(c, c.states[s]) # "ok"])
       ELSE IF \E s \in 1..(ns - 1) : St(s + 1) \notin Best2(c, Improving2(c, St(s)))
            THEN "step-is-not-a-steepest-exchange"
       ELSE IF ~LocalOpt2(c, St(ns)) THEN "stopped-where-a-single-exchange-improves"
       ELSE IF Shape(c, c.decn) # "ok" THEN Shape(c, c.decn)
       ELSE IF ToSet1(c.decn) # St(ns) THEN "returned-decision-is-not-the-last-accepted"
       ELSE IF ~c.dtypeok THEN "decision-dtype"
       ELSE IF c.obj # Score(St(ns), c.a, c.b) THEN "reported-objective-is-not-a-fresh-evaluation"
       ELSE IF c.cv # CvVec(c, St(ns)) THEN "reported-constraint-violation-is-not-a-fresh-evaluation"
       ELSE IF ~c.lat THEN "reported-values-differ-from-the-problem's-own-evaluation"
       ELSE IF ~c.unchanged THEN "problem-object-modified"
       ELSE "ok"

\* constraint-domination on logged integers
Tot(v) == SumTo(v, Len(v))
Dominates(t, s) == \/ Tot(t.cv) < Tot(s.cv)
                   \/ Tot(t.cv) = Tot(s.cv) /\ t.o1 <= s.o1 /\ t.o2 <= s.o2 /\ (t.o1 < s.o1 \/ t.o2 < s.o2)
FrontVerdict(c) ==
    LET ns == Len(c.sols) IN
    IF c.err # "none" THEN "exception-on-valid-problem"
    ELSE IF ns = 0 THEN "no-solution-returned"
    ELSE IF \E s \in 1..ns : Shape(c, c.sols[s].decn) # "ok" THEN Shape(c, c.sols[CHOOSE s \in 1..ns : Shape(c, c.sols[s].decn) # "ok"].decn)
    ELSE IF ~c.dtypeok THEN "decision-dtype"
    ELSE IF ~c.lat \/ \E s \in 1..ns : \/ c.sols[s].o1 # Score(ToSet1(c.sols[s].decn), c.a, c.b)
                                       \/ c.sols[s].o2 # Score(ToSet1(c.sols[s].decn), c.a2, Zero2(c.n))
         THEN "reported-objective-is-not-a-fresh-evaluation"
    ELSE IF \E s \in 1..ns : c.sols[s].cv # CvVec(c, ToSet1(c.sols[s].decn)) THEN "reported-constraint-violation-is-not-a-fresh-evaluation"
    ELSE IF \E s, t \in 1..ns : s # t /\ Dominates(c.sols[t], c.sols[s]) THEN "front-member-dominated-by-another"
    ELSE IF ~c.unchanged THEN "problem-object-modified"
    ELSE "ok"

\* vectors: fl/ce = floor/ceiling of each entry, xs = entry in thousandths (rounded), o1/o2/cv in thousandths (rounded),
\* r1/r2/rc dense ranks of the exact values within the returned set
Lin(d, xs) == SumTo([p \in 1..Len(xs) |-> d[p] * xs[p]], Len(xs))
Tol(c, d) == IF c.vt = "real" THEN SumTo([p \in 1..Len(d) |-> Abs(d[p])], Len(d)) + 1 ELSE 0
VecShape(c, s) == IF Len(s.fl) # c.k THEN "decision-length"
                  ELSE IF \E p \in 1..c.k : s.fl[p] < c.lower[p] \/ s.ce[p] > c.upper[p] THEN "decision-outside-bounds"
                  ELSE IF c.vt # "real" /\ \E p \in 1..c.k : s.fl[p] # s.ce[p] THEN "decision-not-integral"
                  ELSE "ok"
RDominates(t, s) == \/ t.rc < s.rc
                    \/ t.rc = s.rc /\ t.r1 <= s.r1 /\ t.r2 <= s.r2 /\ (t.r1 < s.r1 \/ t.r2 < s.r2)
VectorVerdict(c) ==
    LET ns == Len(c.sols)
        CvWant(s) == LET t == Lin(c.gv, s.xs) - 1000 * c.cap IN IF c.con /\ t > 0 THEN t ELSE 0
    IN IF c.err # "none" THEN "exception-on-valid-problem"
       ELSE IF ns = 0 THEN "no-solution-returned"
       ELSE IF \E s \in 1..ns : VecShape(c, c.sols[s]) # "ok" THEN VecShape(c, c.sols[CHOOSE s \in 1..ns : VecShape(c, c.sols[s]) # "ok"])
       ELSE IF ~c.dtypeok THEN "decision-dtype"
       ELSE IF ~c.lat \/ \E s \in 1..ns : \/ Abs(c.sols[s].o1 - Lin(c.d, c.sols[s].xs)) > Tol(c, c.d)
                                          \/ c.nobj = 2 /\ Abs(c.sols[s].o2 - Lin(c.d2, c.sols[s].xs)) > Tol(c, c.d2)
            THEN "reported-objective-is-not-a-fresh-evaluation"
       ELSE IF \E s \in 1..ns : Abs(c.sols[s].cv - CvWant(c.sols[s])) > Tol(c, c.gv) THEN "reported-constraint-violation-is-not-a-fresh-evaluation"
       ELSE IF \E s, t \in 1..ns : s # t /\ RDominates(c.sols[t], c.sols[s]) THEN "front-member-dominated-by-another"
       ELSE IF ~c.unchanged THEN "problem-object-modified"
       ELSE "ok"

OpVerdict(c) ==
    LET nc == Len(c.children)
        U(ss) == UNION {ToSet1(ss[q]) : q \in 1..Len(ss)}
        I(ss) == {x \in U(ss) : \A q \in 1..Len(ss) : x \in ToSet1(ss[q])}
    IN IF c.err # "none" THEN "exception-on-valid-problem"
       ELSE IF \E s \in 1..nc : Shape(c, c.children[s]) # "ok" THEN Shape(c, c.children[CHOOSE s \in 1..nc : Shape(c, c.children[s]) # "ok"])
       ELSE IF ~c.dtypeok THEN "decision-dtype"
       ELSE IF c.op = "crossover" /\ (U(c.children) # U(c.parents) \/ ~(I(c.parents) \subseteq I(c.children))) THEN "crossover-does-not-exchange-members-unique-to-each-parent"
       ELSE IF c.op = "mutation" /\ \E s \in 1..nc : Cardinality(ToSet1(c.children[s]) \ ToSet1(c.parents[s])) > c.k THEN "mutation"
       ELSE IF ~c.parentsunchanged THEN "operator-modified-its-input"
       ELSE "ok"

VecOpVerdict(c) ==
    LET nc == Len(c.children) IN
    IF c.err # "none" THEN "exception-on-valid-problem"
    ELSE IF \E s \in 1..nc : VecShape(c, c.children[s]) # "ok" THEN VecShape(c, c.children[CHOOSE s \in 1..nc : VecShape(c, c.children[s]) # "ok"])
    ELSE IF ~c.dtypeok THEN "decision-dtype"
    ELSE "ok"

TInit == i \in 1..Len(Cases) /\ sol = {} /\ a = <<>> /\ b = <<>> /\ g = <<>> /\ stopped = TRUE
TSpec == TInit /\ [][UNCHANGED tvars]_tvars
Verdict(c) == CASE c.kind = "subset" -> SubsetVerdict(c)
                [] c.kind = "climb" -> ClimbVerdict(c)
                [] c.kind = "front" -> FrontVerdict(c)
                [] c.kind = "vector" -> VectorVerdict(c)
                [] c.kind = "op" -> OpVerdict(c)
                [] OTHER -> VecOpVerdict(c)
Report == PrintT(<<"CASE", Cases[i].id, Verdict(Cases[i])>>)
==============================================================================
