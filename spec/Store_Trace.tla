----------------------------- MODULE Store_Trace -----------------------------
(* Validates persistence / copy histories recorded from the real classes.                          *)
(* A record is one history: ev = sequence of events                                                 *)
(*   [op |-> "write", loc, obj]      object written to location loc of the history's file           *)
(*   [op |-> "read",  loc, obj, err] object read back from loc (err # "none": reading raised)        *)
(*   [op |-> "same",  what, a, b]    two projections that must be equal (copy vs source, source     *)
(*                                   before vs after mutating its deep copy, round trip through a   *)
(*                                   data frame / CSV / VCF with matching options)                  *)
(* Objects are projections: field -> [t |-> type/shape string, v |-> sequence of value strings].    *)
(* Verdict: <<clause, event index, set of differing fields>> of the first event that fails.        *)
EXTENDS Integers, Sequences, FiniteSets, Json, IOUtils, TLC

Cases == JsonDeserialize(IOEnv.TRACE_FILE)
VARIABLE i

DiffFields(a, b) == {f \in (DOMAIN a) \cup (DOMAIN b) : f \notin DOMAIN a \/ f \notin DOMAIN b \/ a[f] # b[f]}
FirstOf(S) == CHOOSE x \in S : TRUE
Max(S) == CHOOSE x \in S : \A y \in S : y <= x
\* the write that a read at position k must reproduce: the LAST write to the same location before k
LastWrite(ev, k) == LET S == {j \in 1..(k - 1) : ev[j].op = "write" /\ ev[j].loc = ev[k].loc}
                    IN IF S = {} THEN 0 ELSE Max(S)

EvVerdict(ev, k) ==
    LET e == ev[k] IN
    IF e.op = "read" THEN
        (IF e.err # "none" THEN <<"read-back-raised", k, {}>>
         ELSE IF LastWrite(ev, k) = 0 THEN <<"ok", k, {}>>
         ELSE LET d == DiffFields(ev[LastWrite(ev, k)].obj, e.obj)
              IN IF d = {} THEN <<"ok", k, {}>> ELSE <<"read-back-differs-from-last-write", k, d>>)
    ELSE IF e.op = "same" THEN
        (IF e.err # "none" THEN <<"operation-raised", k, {}>>
         ELSE LET d == DiffFields(e.a, e.b)
              IN IF d = {} THEN <<"ok", k, {}>> ELSE <<"not-equal", k, d>>)
    ELSE <<"ok", k, {}>>

Verdict(c) == LET bad == {k \in 1..Len(c.ev) : EvVerdict(c.ev, k)[1] # "ok"}
              IN IF bad = {} THEN <<"ok", 0, {}>> ELSE EvVerdict(c.ev, CHOOSE k \in bad : \A m \in bad : k <= m)

TInit == i \in 1..Len(Cases)
TSpec == TInit /\ [][UNCHANGED i]_i
Report == PrintT(<<"CASE", Cases[i].id, Verdict(Cases[i])[1], Verdict(Cases[i])[2], Verdict(Cases[i])[3]>>)
==============================================================================
