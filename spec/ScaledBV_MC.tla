---------------------------- MODULE ScaledBV_MC ----------------------------
EXTENDS ScaledBV
PoolDef == {0, 1, 2, 3}
TabDef == [off |-> <<5, 1000000, 7, 0>>,
           y |-> << <<9, 1, 0, 4>>, <<0, 5, 0, 2>>, <<21, 3, 0, 8>>, <<6, 9, 0, 1>> >>,
           miss |-> << <<FALSE, FALSE, FALSE, FALSE>>, <<FALSE, FALSE, FALSE, FALSE>>,
                       <<FALSE, FALSE, FALSE, FALSE>>, <<FALSE, FALSE, FALSE, TRUE>> >>]
==============================================================================
