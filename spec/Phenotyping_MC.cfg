SPECIFICATION Spec
CONSTANTS
  MaxN = 3
  MaxEnv = 3
  MaxRep = 2
INVARIANT RecordCount
INVARIANT EachOnce
INVARIANT Layout
INVARIANT PositionInverse
PROPERTY Terminates
CHECK_DEADLOCK FALSE
