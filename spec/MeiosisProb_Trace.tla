------------------------- MODULE MeiosisProb_Trace -------------------------
(* Validates (a) draw-by-draw replays of the real mat_meiosis on the draw grid and (b) supplies the *)
(* exact probabilities for the statistical sanity checks.                                          *)
EXTENDS Integers, Sequences, FiniteSets, Json, IOUtils, TLC

Cases == JsonDeserialize(IOEnv.TRACE_FILE)
VARIABLE i

RECURSIVE SrcP(_, _, _)
\* source copy at locus l for integer draws U (u = U/K) and probability numerators JJ (p = JJ/K): rule u < p
SrcP(U, JJ, l) == IF l = 0 THEN 0 ELSE (SrcP(U, JJ, l - 1) + (IF U[l] < JJ[l] THEN 1 ELSE 0)) % 2

\* grid record: J, rows (draw vectors), src (observed source copy per locus for every row)
GridVerdict(c) ==
    IF Len(c.src) # Len(c.rows) THEN "gamete-count"
    ELSE IF \E r \in 1..Len(c.rows) : \E l \in 1..Len(c.J) : c.src[r][l] # SrcP(c.rows[r], c.J, l)
         THEN "gamete-differs-from-draws"
    ELSE "ok"

RECURSIVE ProdN(_, _, _)
ProdN(t, a, b) == IF a > b THEN 1 ELSE t[b][1] * ProdN(t, a, b - 1)
RECURSIVE ProdD(_, _, _)
ProdD(t, a, b) == IF a > b THEN 1 ELSE t[b][2] * ProdD(t, a, b - 1)
\* stat record: t[l] = <<tn, td>> with 1 - 2 r_l = tn/td for every locus l (l = 1: chromosome start);
\* pairs = sequence of <<a, b>> (a < b). Exact P(source differs between a and b) = (PD - PN) / (2 PD)
StatExpected(c) == [k \in 1..Len(c.pairs) |->
    LET a == c.pairs[k][1]
        b == c.pairs[k][2]
    IN << ProdD(c.t, a + 1, b) - ProdN(c.t, a + 1, b), 2 * ProdD(c.t, a + 1, b) >>]

TInit == i \in 1..Len(Cases)
TSpec == TInit /\ [][UNCHANGED i]_i
Report == IF Cases[i].kind = "grid"
          THEN PrintT(<<"CASE", Cases[i].id, GridVerdict(Cases[i])>>)
          ELSE PrintT(<<"CASE", Cases[i].id, "expected", StatExpected(Cases[i])>>)
==============================================================================
