------------------------------ MODULE ScaledBV ------------------------------
(***************************************************************************)
(* C15.  Breeding-value matrices: raw values per (entity, trait), stored   *)
(* centred and scaled; every observable on the original scale must be the  *)
(* corresponding summary of the raw values of the entities CURRENTLY on    *)
(* the taxa axis, after any history of taxa-axis operations.               *)
(* Raw values are integers Off[r] + Y[id][r]; Miss[id][r] marks a missing  *)
(* (NaN) value.  Means are compared as mean*m and variances as var*m*m     *)
(* (m = number of present values) so that all expected values are exact    *)
(* integers; variances are computed on Y (translation invariant).          *)
(***************************************************************************)
EXTENDS SeqOps

RECURSIVE SumTo(_, _)
SumTo(f, n) == IF n = 0 THEN 0 ELSE f[n] + SumTo(f, n - 1)

\* positions of ids whose value for trait r is present
Pres(T, ids, r) == {k \in 1..Len(ids) : ~T.miss[ids[k] + 1][r]}
Cnt(T, ids, r) == Cardinality(Pres(T, ids, r))
Y(T, ids, r, k) == IF T.miss[ids[k] + 1][r] THEN 0 ELSE T.y[ids[k] + 1][r]
SumY(T, ids, r)  == SumTo([k \in 1..Len(ids) |-> Y(T, ids, r, k)], Len(ids))
SumYY(T, ids, r) == SumTo([k \in 1..Len(ids) |-> Y(T, ids, r, k) * Y(T, ids, r, k)], Len(ids))
Raw(T, id, r) == T.off[r] + T.y[id + 1][r]
\* mean * m  where m = number of present values (nan-ignoring mean)
MeanM(T, ids, r) == T.off[r] * Cnt(T, ids, r) + SumY(T, ids, r)
\* variance * m * m (population variance, nan-ignoring); translation invariant, so computed on Y
VarMM(T, ids, r) == LET m == Cnt(T, ids, r) IN m * SumYY(T, ids, r) - SumY(T, ids, r) * SumY(T, ids, r)
\* the stored scale is the standard deviation, or 1 for a constant trait:  scale^2 * m^2
ScaleMM(T, ids, r) == IF VarMM(T, ids, r) = 0 THEN Cnt(T, ids, r) * Cnt(T, ids, r) ELSE VarMM(T, ids, r)
MaxRaw(T, ids, r) == LET S == {Raw(T, ids[k], r) : k \in Pres(T, ids, r)} IN CHOOSE x \in S : \A z \in S : z <= x
MinRaw(T, ids, r) == LET S == {Raw(T, ids[k], r) : k \in Pres(T, ids, r)} IN CHOOSE x \in S : \A z \in S : z >= x
HasMissing(T, ids, r) == Cnt(T, ids, r) < Len(ids)

------------------------------------------------------------------------------
(* a small exhaustive model: taxa axes over a pool, algebraic sanity of the summaries *)
CONSTANTS Pool, Tab, MaxLen, NTrait
VARIABLE ids
Seqs(S, n) == UNION {[1..m -> S] : m \in 1..n}
Init == ids \in Seqs(Pool, MaxLen)
Next == ids' \in Seqs(Pool, MaxLen)          \* any taxa-axis operation leads to some axis content
Spec == Init /\ [][Next]_ids

Traits == 1..NTrait
Defined(r) == Cnt(Tab, ids, r) >= 1
MeanBetween == \A r \in Traits : Defined(r) =>
                  /\ MinRaw(Tab, ids, r) * Cnt(Tab, ids, r) <= MeanM(Tab, ids, r)
                  /\ MeanM(Tab, ids, r) <= MaxRaw(Tab, ids, r) * Cnt(Tab, ids, r)
VarNonNeg == \A r \in Traits : Defined(r) => VarMM(Tab, ids, r) >= 0
VarZeroIffConstant == \A r \in Traits : Defined(r) =>
                  (VarMM(Tab, ids, r) = 0 <=> MaxRaw(Tab, ids, r) = MinRaw(Tab, ids, r))
ScalePositive == \A r \in Traits : Defined(r) => ScaleMM(Tab, ids, r) > 0
==============================================================================
