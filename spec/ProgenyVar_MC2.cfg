SPECIFICATION Spec
CONSTANTS
  K = 2
  D = 8
  MaxS = 3
  Scheme = "2w"
INVARIANT EnumerationIsClosedForm
INVARIANT LimitIsSelfingInvariant
INVARIANT InbredIsHomozygous
INVARIANT InbredTwoWayShare
INVARIANT MarginalShares
INVARIANT LocusSymmetric
INVARIANT CompleteLinkage
INVARIANT EmitTable
CHECK_DEADLOCK FALSE
