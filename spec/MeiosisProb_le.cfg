SPECIFICATION Spec
CONSTANTS
  K = 4
  NL = 3
  Strict = FALSE
INVARIANT Adjacent
INVARIANT NonAdjacent
INVARIANT Independent
INVARIANT Segregation
INVARIANT Assortment
CHECK_DEADLOCK FALSE
