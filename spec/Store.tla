-------------------------------- MODULE Store --------------------------------
(***************************************************************************)
(* C16.  Saving, loading and copying.                                      *)
(*                                                                         *)
(* An object is a record of optional fields (Absent = None in the code).   *)
(* The HDF5 file is a map location -> field -> dataset.  Write(loc, o)     *)
(* writes o's present fields dataset by dataset; in the INTENDED design it *)
(* leaves exactly o at loc (WriteClearsAbsent = TRUE); the repository as   *)
(* first read skipped None fields without deleting existing datasets       *)
(* (FALSE) -- TLC then exhibits the stale-field history.                   *)
(* Read(loc) reconstructs the object from the datasets present.            *)
(* Copies live in a small heap: an object maps fields to CELLS, cells hold *)
(* values; a deep copy allocates fresh cells, Mutate changes one cell.     *)
(***************************************************************************)
EXTENDS Integers, Sequences, FiniteSets

CONSTANTS Fields,            \* optional fields of the class (the data field "mat" is always present)
          Vals,              \* abstract dataset contents
          Locs,              \* file locations (group paths)
          MaxWrites,
          WriteClearsAbsent,
          DeepCopyFresh      \* TRUE: deepcopy allocates fresh cells (intended); FALSE: shares them

Absent == "absent"
Objects == [Fields \cup {"mat"} -> Vals \cup {Absent}]
ValidObj(o) == o["mat"] # Absent

VARIABLES file,     \* loc -> field -> value or Absent
          last,     \* loc -> last object written (meaningful where wr[loc])
          wr,       \* loc -> has been written
          nw,       \* number of writes so far
          src, cpy, \* heap: source object and its copy as field -> cell
          cell      \* cell -> value
vars == <<file, last, wr, nw, src, cpy, cell>>

AllF == Fields \cup {"mat"}
Cells == 1..(2 * Cardinality(AllF))

Init == /\ file = [l \in Locs |-> [f \in AllF |-> Absent]]
        /\ last = [l \in Locs |-> [f \in AllF |-> Absent]]
        /\ wr = [l \in Locs |-> FALSE]
        /\ nw = 0
        /\ src = [f \in AllF |-> 0] /\ cpy = [f \in AllF |-> 0] /\ cell = [c \in Cells |-> Absent]

Write(l, o) == /\ nw < MaxWrites /\ ValidObj(o)
               /\ file' = [file EXCEPT ![l] = [f \in AllF |->
                              IF o[f] # Absent THEN o[f]
                              ELSE IF WriteClearsAbsent THEN Absent ELSE file[l][f]]]
               /\ last' = [last EXCEPT ![l] = o]
               /\ wr' = [wr EXCEPT ![l] = TRUE]
               /\ nw' = nw + 1
               /\ UNCHANGED <<src, cpy, cell>>
ReadBack(l) == file[l]

\* ---- copies
MakeSource(o) == /\ src = [f \in AllF |-> 0] /\ ValidObj(o)
                 /\ \E alloc \in [AllF -> Cells] :
                      /\ \A f, g \in AllF : f # g => alloc[f] # alloc[g]
                      /\ \A f \in AllF : alloc[f] <= Cardinality(AllF)
                      /\ src' = alloc
                      /\ cell' = [c \in Cells |-> IF \E f \in AllF : alloc[f] = c THEN o[CHOOSE f \in AllF : alloc[f] = c] ELSE Absent]
                 /\ UNCHANGED <<file, last, wr, nw, cpy>>
DeepCopy == /\ src # [f \in AllF |-> 0] /\ cpy = [f \in AllF |-> 0]
            /\ IF DeepCopyFresh
               THEN /\ cpy' = [f \in AllF |-> src[f] + Cardinality(AllF)]
                    /\ cell' = [c \in Cells |-> IF c > Cardinality(AllF) THEN cell[c - Cardinality(AllF)] ELSE cell[c]]
               ELSE cpy' = src /\ cell' = cell
            /\ UNCHANGED <<file, last, wr, nw, src>>
Mutate(f, v) == /\ cpy # [g \in AllF |-> 0] /\ cell[cpy[f]] # Absent /\ v # cell[cpy[f]]
                /\ cell' = [cell EXCEPT ![cpy[f]] = v]
                /\ UNCHANGED <<file, last, wr, nw, src, cpy>>
View(o) == [f \in AllF |-> cell[o[f]]]

Next == \/ \E l \in Locs : \E o \in Objects : Write(l, o)
        \/ \E o \in Objects : MakeSource(o)
        \/ DeepCopy
        \/ \E f \in AllF : \E v \in Vals : Mutate(f, v)
Spec == Init /\ [][Next]_vars

\* after any sequence of writes the object read back equals the last one written
ReadBackIsLast == \A l \in Locs : wr[l] => ReadBack(l) = last[l]
\* a deep copy is equal to its source when made, and mutating the copy never changes the source
CopyEqualWhenMade == [][(cpy = [f \in AllF |-> 0] /\ cpy' # cpy) => [f \in AllF |-> cell'[cpy'[f]]] = [f \in AllF |-> cell'[src'[f]]]]_vars
MutateLeavesSource == [][(cpy # [f \in AllF |-> 0] /\ cpy' = cpy) => [f \in AllF |-> cell'[src[f]]] = [f \in AllF |-> cell[src[f]]]]_vars
==============================================================================
