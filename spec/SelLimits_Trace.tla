--------------------------- MODULE SelLimits_Trace ---------------------------
(* Validates closed breeding histories recorded from the real code (real mating protocols, real    *)
(* usl/lsl/gebv) against the definitions of SelLimits, generation by generation.                   *)
(* record: u[l][t] integer effects, beta[t], gens = sequence of                                     *)
(*   [n, a (count of allele 1 per locus), usl0, lsl0 (unscale=False), usl1, lsl1 (unscale=True),    *)
(*    gmin, gmax (extremes of gebv().unscale() per trait), lat (all floats were on the integer      *)
(*    lattice), src ("matrix" | "array": what usl/lsl were given)]                                   *)
EXTENDS Integers, Sequences, FiniteSets, Json, IOUtils, TLC

Cases == JsonDeserialize(IOEnv.TRACE_FILE)
VARIABLE i

RECURSIVE SumTo(_, _)
SumTo(f, n) == IF n = 0 THEN 0 ELSE f[n] + SumTo(f, n - 1)
\* ploidy of an observed population (copies of each locus per individual); observations without the field are diploid
Pl(g) == IF "pl" \in DOMAIN g THEN g.pl ELSE 2
Copies(g) == Pl(g) * g.n
UTerm(uu, a, nc, P) == IF uu > 0 THEN (IF a > 0 THEN P * uu ELSE 0) ELSE (IF a = nc THEN P * uu ELSE 0)
LTerm(uu, a, nc, P) == IF uu > 0 THEN (IF a = nc THEN P * uu ELSE 0) ELSE (IF a > 0 THEN P * uu ELSE 0)
USL(c, g, t) == SumTo([l \in 1..Len(c.u) |-> UTerm(c.u[l][t], g.a[l], Copies(g), Pl(g))], Len(c.u))
LSL(c, g, t) == SumTo([l \in 1..Len(c.u) |-> LTerm(c.u[l][t], g.a[l], Copies(g), Pl(g))], Len(c.u))
AllFixed(g) == \A l \in 1..Len(g.a) : g.a[l] = 0 \/ g.a[l] = Copies(g)

GenVerdict(c, k) ==
    LET g == c.gens[k]
        T == 1..Len(c.beta)
    IN IF ~g.lat THEN "value-not-on-integer-lattice"
       ELSE IF \E t \in T : g.usl0[t] # USL(c, g, t) THEN "usl-value"
       ELSE IF \E t \in T : g.lsl0[t] # LSL(c, g, t) THEN "lsl-value"
       ELSE IF \E t \in T : g.usl1[t] # USL(c, g, t) + c.beta[t] THEN "usl-unscaled-value"
       ELSE IF \E t \in T : g.lsl1[t] # LSL(c, g, t) + c.beta[t] THEN "lsl-unscaled-value"
       ELSE IF \E t \in T : g.gmax[t] > g.usl1[t] THEN "gebv-above-upper-limit"
       ELSE IF \E t \in T : g.gmin[t] < g.lsl1[t] THEN "gebv-below-lower-limit"
       ELSE IF AllFixed(g) /\ \E t \in T : ~(g.lsl1[t] = g.usl1[t] /\ g.gmin[t] = g.usl1[t] /\ g.gmax[t] = g.usl1[t])
            THEN "fixed-population-limits-differ-from-common-value"
       ELSE "ok"

StepVerdict(c, k) ==
    LET g == c.gens[k]
        h == c.gens[k + 1]
        T == 1..Len(c.beta)
    IN IF \E l \in 1..Len(g.a) : (g.a[l] = 0 /\ h.a[l] # 0) \/ (g.a[l] = Copies(g) /\ h.a[l] # Copies(h))
       THEN "lost-allele-reappeared"
       ELSE IF \E t \in T : h.usl1[t] > g.usl1[t] THEN "upper-limit-increased"
       ELSE IF \E t \in T : h.lsl1[t] < g.lsl1[t] THEN "lower-limit-decreased"
       ELSE IF \E t \in T : h.gmax[t] > g.usl1[t] \/ h.gmin[t] < g.lsl1[t] THEN "descendant-outside-ancestral-limits"
       ELSE "ok"

Verdict(c) ==
    LET K == Len(c.gens)
        badg == {k \in 1..K : GenVerdict(c, k) # "ok"}
        bads == {k \in 1..(K - 1) : StepVerdict(c, k) # "ok"}
    IN IF badg # {} THEN <<GenVerdict(c, CHOOSE k \in badg : \A m \in badg : k <= m), CHOOSE k \in badg : \A m \in badg : k <= m>>
       ELSE IF bads # {} THEN <<StepVerdict(c, CHOOSE k \in bads : \A m \in bads : k <= m), CHOOSE k \in bads : \A m \in bads : k <= m>>
       ELSE <<"ok", 0>>

TInit == i \in 1..Len(Cases)
TSpec == TInit /\ [][UNCHANGED i]_i
Report == PrintT(<<"CASE", Cases[i].id, Verdict(Cases[i])[1], Verdict(Cases[i])[2]>>)
==============================================================================
