------------------------- MODULE BreedingLoop_Trace -------------------------
(* Validates call traces recorded from the real RecurrentSelectionBreedingProgram.evolve() run    *)
(* with instrumented operators/logbook against BreedingLoop.                                      *)
(* TRACE_FILE: JSON array of traces                                                               *)
(*   [tid, nrep, ngen, loginit, lrep0, initfp(5), startids(5), startmem(5 sets as seqs), ev]      *)
(* event: [call, rep, t, mcfg, recv(5 ids), mem(5 seqs of member ids), fp(5 content tokens),      *)
(*         ret(5), retmem(5), retfp(5), retmcfg, sfp(5 start content tokens after the call)]      *)
(* Logged events are the operator and logbook calls; BeginRep, Reset, Tick0, Tick, Finished are   *)
(* silent steps of the spec (deterministic given pc), taken between logged events.  After evolve() *)
(* has returned the driver may call advance(k) and reset() directly: logged as events "advance"    *)
(* (field k) and "reset" (ret / retmem / retfp = the working containers after the call), each      *)
(* followed by its own "final" observation.                                                        *)
EXTENDS BreedingLoop, Json, IOUtils

Traces == JsonDeserialize(IOEnv.TRACE_FILE)

VARIABLES tid,     \* which trace
          l,       \* next event to consume
          held,    \* container ids the programme currently holds (returned by the last operator)
          heldm,   \* their member ids
          mcfg,    \* mating configuration object returned by pselect in this generation
          seen,    \* all object ids seen so far (for freshness of reset copies)
          misc     \* token the last operator wrote into miscout (the logbook must receive it)
tvars == <<vars, tid, l, held, heldm, mcfg, seen, misc>>

T == Traces[tid]
Ev == T.ev[l]
S5 == 1..5
ToSet(sq) == {sq[k] : k \in DOMAIN sq}
AllIds(ids, mems) == ToSet(ids) \cup UNION {ToSet(mems[k]) : k \in DOMAIN mems}

TraceInit ==
    /\ tid \in 1..Len(Traces)
    /\ l = 1
    /\ TLCSet(tid, 1)
    /\ pc = "idle" /\ nrep = T.nrep /\ ngen = T.ngen /\ loginit = T.loginit
    /\ rep = 0 /\ gen = 0 /\ t = 0 /\ lrep = 0
    /\ al = [s \in Slots |-> [cs |-> FALSE, ms |-> FALSE, cd |-> FALSE, sd |-> FALSE]]
    /\ hist = <<>> /\ tb = 0
    /\ held = <<0, 0, 0, 0, 0>> /\ heldm = <<<<>>, <<>>, <<>>, <<>>, <<>>>>
    /\ mcfg = 0 /\ misc = 0
    /\ seen = AllIds(T.startids, T.startmem)

\* flags observed after an operator call
Observed(e) == [s \in S5 |->
    [cs |-> e.ret[s] = T.startids[s],
     ms |-> ToSet(e.retmem[s]) \cap ToSet(T.startmem[s]) # {},
     cd |-> e.retfp[s] # T.initfp[s],
     sd |-> e.sfp[s] # T.initfp[s]]]

Silent == /\ (BeginRep \/ Reset \/ Tick0 \/ Tick \/ Finished)
          /\ UNCHANGED <<tid, l, seen, misc>>
          /\ IF pc = "reset" THEN held' = <<0, 0, 0, 0, 0>> /\ heldm' = heldm ELSE UNCHANGED <<held, heldm>>
          /\ IF pc \in {"tick", "tick0"} THEN mcfg' = 0 ELSE UNCHANGED mcfg

Common(e, c) ==
    /\ l <= Len(T.ev)
    /\ e.rep = T.lrep0 + lrep            \* logbook replicate counter
    /\ e.t = t                            \* time index handed over
    /\ e.tmax = T.tmax
    /\ \A s \in S5 : e.sfp[s] = T.initfp[s]         \* start state never modified (content)
    /\ IF c = "evalinit"
       THEN \* freshly reset state: new objects all the way down, content equal to the initial one
            /\ AllIds(e.recv, e.mem) \cap seen = {}
            /\ \A s \in S5 : e.fp[s] = T.initfp[s]
       ELSE \* the state returned by the predecessor
            /\ e.recv = held
    /\ l' = l + 1
    /\ UNCHANGED tid

TraceOp(c) ==
    LET e == Ev IN
    /\ e.call = (IF c = "evalinit" THEN "evaluate" ELSE c)
    /\ Common(e, c)
    /\ al' = Observed(e)
    /\ OpCall(c)
    /\ held' = e.ret /\ heldm' = e.retmem /\ misc' = e.retmisc
    /\ seen' = seen \cup AllIds(e.recv, e.mem) \cup AllIds(e.ret, e.retmem)
    /\ IF c = "pselect" THEN mcfg' = e.retmcfg
       ELSE IF c = "mate" THEN e.mcfg = mcfg /\ mcfg' = mcfg
       ELSE mcfg' = mcfg

TraceLog(c) ==
    LET e == Ev IN
    /\ e.call = c
    /\ Common(e, c)
    /\ LogCall(c)
    /\ (c \in {"log_pselect", "log_mate"} => e.mcfg = mcfg)
    /\ e.misc = misc
    /\ UNCHANGED <<held, heldm, mcfg, misc>>
    /\ seen' = seen \cup AllIds(e.recv, e.mem)

\* the final observation: evolve() returned; start containers are the same objects with the same content
TraceFinal ==
    LET e == Ev IN
    /\ l <= Len(T.ev) /\ e.call = "final" /\ pc = "finished"
    /\ e.recv = T.startids
    /\ \A s \in S5 : e.fp[s] = T.initfp[s]
    /\ e.rep = T.lrep0 + lrep
    /\ l' = l + 1
    /\ UNCHANGED <<vars, tid, held, heldm, mcfg, seen, misc>>

\* a direct advance(k) call on a programme whose evolve() has returned: k more cycles from the current time
TraceAdvance ==
    LET e == Ev IN
    /\ l <= Len(T.ev) /\ e.call = "advance"
    /\ MoreAdvanceBody(e.k)
    /\ l' = l + 1
    /\ UNCHANGED <<tid, held, heldm, mcfg, seen, misc>>

\* a direct reset() call: the working containers are new objects all the way down with the initial content, the start is untouched
TraceReset ==
    LET e == Ev IN
    /\ l <= Len(T.ev) /\ e.call = "reset"
    /\ AllIds(e.ret, e.retmem) \cap seen = {}
    /\ \A s \in S5 : e.retfp[s] = T.initfp[s] /\ e.sfp[s] = T.initfp[s]
    /\ e.t = 0
    /\ ResetCall
    /\ held' = e.ret /\ heldm' = e.retmem
    /\ seen' = seen \cup AllIds(e.ret, e.retmem)
    /\ l' = l + 1
    /\ UNCHANGED <<tid, mcfg, misc>>

TraceNext ==
    \/ Silent
    \/ TraceAdvance \/ TraceReset
    \/ \E c \in {"evalinit", "pselect", "mate", "evaluate", "sselect"} : l <= Len(T.ev) /\ TraceOp(c)
    \/ \E c \in {"log_initialize", "log_pselect", "log_mate", "log_evaluate", "log_sselect"} :
            l <= Len(T.ev) /\ TraceLog(c)
    \/ TraceFinal

TraceSpec == TraceInit /\ [][TraceNext]_tvars

Track == TLCSet(tid, IF TLCGet(tid) > l THEN TLCGet(tid) ELSE l)
\* StartNeverModified is an invariant of every matched prefix
TraceInv == StartNeverModified
Report == \A k \in 1..Len(Traces) : PrintT(<<"TRACE", Traces[k].tid, TLCGet(k) - 1, Len(Traces[k].ev)>>)
==============================================================================
