--------------------------- MODULE LinModel_Trace ---------------------------
(* Validates outputs of the real genomic-model classes.  kind "predict": Z, u (additive), d (dominance, *)
(* zeros for the additive model), b (intercept per trait), observed integer-valued outputs:             *)
(*   gebv[i][t], gegv[i][t], varA[t], varG[t] (times n^2), vara[t] (genic, times n^2), bulnan[t],        *)
(*   bul[t] = <<num, den>>, fa / da counts [l][t], fafreq2n / dafreq2n (freq * ploidy * n), flags faavail,       *)
(*   fafixed, fapoly, daavail, dafixed, dapoly, nafixed, napoly, labelsok, lat                           *)
(* kind "ridge": y, Z integers; ymeanN = round(beta * n), polymask observed zero effects, ZtZ, Zty, yy   *)
EXTENDS LinModel, Json, IOUtils, TLC

Cases == JsonDeserialize(IOEnv.TRACE_FILE)
VARIABLE i
tvars == <<i, Z, u>>
RatEq(p, q) == p[1] * q[2] = q[1] * p[2]
\* equality of rationals by normal forms (no cross-multiplication: the terms may be close to the 32-bit range)
RECURSIVE GcdN(_, _)
GcdN(a, b) == IF b = 0 THEN a ELSE GcdN(b, a % b)
AbsN(x) == IF x < 0 THEN -x ELSE x
NormRat(p) == LET g == GcdN(AbsN(p[1]), AbsN(p[2]))
                  sg == IF p[2] < 0 THEN -1 ELSE 1
              IN IF p[1] = 0 THEN <<0, 1>> ELSE <<sg * (p[1] \div g), sg * (p[2] \div g)>>
RatEqN(p, q) == NormRat(p) = NormRat(q)

\* coefficient of determination 1 - SSE/SST of the model's predictions for integer responses Y
SSE(c, t) == SumTo([a \in 1..Len(c.Z) |-> (c.Y[a][t] - Gegv(c.Z, c.u, c.d, c.b, a, t)) * (c.Y[a][t] - Gegv(c.Z, c.u, c.d, c.b, a, t))], Len(c.Z))
SSTn(c, t) == VarNN([a \in 1..Len(c.Z) |-> c.Y[a][t]])         \* n * SST
PredictVerdict(c) ==
    LET n == Len(c.Z)
        p == Len(c.Z[1])
        T == 1..Len(c.b)
        L == 1..p
        P == c.ploidy
    IN IF c.err # "none" THEN "exception-on-valid-input"
       ELSE IF \E a \in 1..n : \E l \in L : c.Z[a][l] \notin 0..P THEN "harness-dosage-out-of-range"
       ELSE IF ~c.lat THEN "value-not-on-integer-lattice"
       ELSE IF ~c.labelsok THEN "output-rows-do-not-carry-input-labels"
       ELSE IF \E a \in 1..n : \E t \in T : c.gebv[a][t] # Gebv(c.Z, c.u, c.b, a, t) THEN "gebv"
       ELSE IF \E a \in 1..n : \E t \in T : c.gegv[a][t] # Gegv(c.Z, c.u, c.d, c.b, a, t) THEN "gegv"
       ELSE IF \E a \in 1..n : \E t \in T : c.pred[a][t] # Gegv(c.Z, c.u, c.d, c.b, a, t) THEN "predict"
       ELSE IF c.r2on /\ \E t \in T : c.r2nan[t] # (SSTn(c, t) = 0) THEN "score-undefined-exactly-when-the-response-is-constant"
       ELSE IF c.r2on /\ \E t \in T : ~c.r2nan[t] /\ ~RatEqN(c.r2[t], <<SSTn(c, t) - Len(c.Z) * SSE(c, t), SSTn(c, t)>>) THEN "score"
       ELSE IF \E t \in T : c.varA[t] # VarA(c.Z, c.u, c.b, t) THEN "var_A"
       ELSE IF \E t \in T : c.varG[t] # VarG(c.Z, c.u, c.d, c.b, t) THEN "var_G"
       ELSE IF \E t \in T : c.vara[t] # VarGenicP(c.Z, c.u, t, P) THEN "var_a"
       ELSE IF \E t \in T : c.bulnan[t] # (VarGenicP(c.Z, c.u, t, P) = 0) THEN "bulmer-undefined-exactly-when-genic-variance-is-zero"
       ELSE IF c.bulon /\ \E t \in T : ~c.bulnan[t] /\ ~RatEq(c.bul[t], <<VarA(c.Z, c.u, c.b, t), VarGenicP(c.Z, c.u, t, P)>>) THEN "bulmer"
       ELSE IF \E l \in L : \E t \in T : c.fa[l][t] # FaCountP(c.Z, c.u, l, t, P) THEN "facount"
       ELSE IF \E l \in L : \E t \in T : c.da[l][t] # DaCountP(c.Z, c.u, l, t, P) THEN "dacount"
       ELSE IF \E l \in L : \E t \in T : c.fafreq2n[l][t] # FaCountP(c.Z, c.u, l, t, P) \/ c.dafreq2n[l][t] # DaCountP(c.Z, c.u, l, t, P) THEN "fafreq-dafreq"
       ELSE IF \E l \in L : \E t \in T : c.faavail[l][t] # (FaCountP(c.Z, c.u, l, t, P) > 0) \/ c.daavail[l][t] # (DaCountP(c.Z, c.u, l, t, P) > 0) THEN "availability-flags"
       ELSE IF \E l \in L : \E t \in T : c.fafixed[l][t] # (FaCountP(c.Z, c.u, l, t, P) = P * n) \/ c.dafixed[l][t] # (DaCountP(c.Z, c.u, l, t, P) = P * n) THEN "fixation-flags"
       ELSE IF \E l \in L : \E t \in T : c.fapoly[l][t] # (c.u[l][t] # 0 /\ PolyP(c.Z, l, P)) \/ c.dapoly[l][t] # (c.u[l][t] # 0 /\ PolyP(c.Z, l, P)) THEN "polymorphism-flags"
       ELSE IF \E l \in L : \E t \in T : c.nafixed[l][t] # (c.u[l][t] = 0 /\ ~PolyP(c.Z, l, P)) \/ c.napoly[l][t] # (c.u[l][t] = 0 /\ PolyP(c.Z, l, P)) THEN "neutral-allele-flags"
       ELSE "ok"

RidgeVerdict(c) ==
    LET n == Len(c.Z)
        p == Len(c.Z[1])
        ysum == SumTo(c.y, n)
    IN IF c.err # "none" THEN "exception-on-valid-input"
       ELSE IF c.ymeanN # ysum THEN "intercept-is-not-the-training-mean"
       ELSE IF \E l \in 1..p : ~Poly(c.Z, l) /\ ~c.uzero[l] THEN "monomorphic-marker-has-an-effect"
       ELSE IF \E a, b \in 1..p : c.ZtZ[a][b] # SumTo([k \in 1..n |-> c.Z[k][a] * c.Z[k][b]], n) THEN "harness-ZtZ"
       ELSE IF \E a \in 1..p : c.ZtyN[a] # SumTo([k \in 1..n |-> c.Z[k][a] * (n * c.y[k] - ysum)], n) THEN "harness-Zty"
       ELSE "ok"

TInit == i \in 1..Len(Cases) /\ Z = <<>> /\ u = <<>>
TSpec == TInit /\ [][UNCHANGED tvars]_tvars
Report == PrintT(<<"CASE", Cases[i].id, IF Cases[i].kind = "predict" THEN PredictVerdict(Cases[i]) ELSE RidgeVerdict(Cases[i])>>)
==============================================================================
