-------------------------- MODULE BreedingLoop_MC --------------------------
EXTENDS BreedingLoop, Json
\* behaviour emission for binding (A): print the call history of finished behaviours
EmitHist == (pc = "finished" /\ RecordHist) =>
               PrintT(ToJson([nrep |-> nrep, ngen |-> ngen, loginit |-> loginit, hist |-> hist]))
==============================================================================
