SPECIFICATION Spec
CONSTANTS
  N = 3
  NC = 3
  NP = 2
  Decs <- D3
  Enc = "tiled"
  MixCols = FALSE
INVARIANT DoneOK
INVARIANT TiledClosedForm
INVARIANT ClosedFormExact
PROPERTY MultisetKept
PROPERTY NeverWorse
CHECK_DEADLOCK FALSE
