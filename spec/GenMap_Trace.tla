---------------------------- MODULE GenMap_Trace ----------------------------
(* Validates recorded behaviour of StandardGeneticMap / ExtendedGeneticMap against GenMap, and supplies *)
(* the exact lattice values of the map functions.                                                       *)
(* kind "map": rows (as supplied), G (genetic units per Morgan), S (harness scale: multiple of every    *)
(*   segment length), sorted = rows as stored by the object, q = queries <<chr, phys>>,                  *)
(*   iv[k] = round(interp_genpos * S * G), im[k] = reported missing (NaN), ilat,                         *)
(*   d1 / d1inf (gdist1g on the stored arrays, * G), d2 / d2inf (gdist2g), p1 / p1inf, p2 / p2inf        *)
(*   (gdist1p / gdist2p on the queries sorted by chromosome, * S * G), dlat, congr (is_congruent())      *)
(* kind "lattice": fn ("haldane" | "kosambi"), ks = lattice steps; the verdict carries r_k as <<num,den>> *)
EXTENDS GenMap, Json, IOUtils, TLC

Cases == JsonDeserialize(IOEnv.TRACE_FILE)
VARIABLE i
tvars == <<i, rows>>

ToBag(s) == [v \in {s[k] : k \in 1..Len(s)} |-> Cardinality({k \in 1..Len(s) : s[k] = v})]
SortedRows(s) == \A a \in 1..(Len(s) - 1) :
    \/ Chr(s[a]) < Chr(s[a + 1])
    \/ (Chr(s[a]) = Chr(s[a + 1]) /\ Phys(s[a]) < Phys(s[a + 1]))
    \/ (Chr(s[a]) = Chr(s[a + 1]) /\ Phys(s[a]) = Phys(s[a + 1]) /\ Gen(s[a]) <= Gen(s[a + 1]))
ExpI(c, k) == LET r == Interp(c.rows, c.q[k][1], c.q[k][2]) IN (r[1] * (c.S \div r[2]))   \* * S (times G is in gen units)
SegOK(c, k) == c.S % Interp(c.rows, c.q[k][1], c.q[k][2])[2] = 0

MapVerdict(c) ==
    LET M == c.rows
        st == c.sorted
        nq == Len(c.q)
        known == {k \in 1..nq : ~Missing(M, c.q[k][1])}
    IN IF c.err # "none" THEN "exception-on-valid-input"
       ELSE IF ToBag(st) # ToBag(M) THEN "stored-map-is-not-the-supplied-rows"
       ELSE IF ~SortedRows(st) THEN "stored-map-not-sorted"
       ELSE IF c.congr # Congruent(M) THEN "is-congruent"
       ELSE IF \E k \in 1..nq : c.im[k] # Missing(M, c.q[k][1]) THEN "missing-chromosome-not-reported-missing"
       ELSE IF \E k \in known : ~SegOK(c, k) THEN "harness-scale"
       ELSE IF ~c.ilat \/ \E k \in known : c.iv[k] # ExpI(c, k) THEN "interpolated-position"
       ELSE IF \E k \in 1..Len(st) : c.d1inf[k] # (k = 1 \/ Chr(st[k]) # Chr(st[k - 1])) THEN "sequential-distance-infinity-at-chromosome-start"
       ELSE IF ~c.dlat \/ \E k \in 2..Len(st) : ~c.d1inf[k] /\ c.d1[k] # Gen(st[k]) - Gen(st[k - 1]) THEN "sequential-distance"
       ELSE IF \E a, b \in 1..Len(st) : c.d2inf[a][b] # (Chr(st[a]) # Chr(st[b])) THEN "pairwise-distance-infinite-iff-different-chromosomes"
       ELSE IF \E a, b \in 1..Len(st) : ~c.d2inf[a][b] /\
                 c.d2[a][b] # (IF Gen(st[a]) >= Gen(st[b]) THEN Gen(st[a]) - Gen(st[b]) ELSE Gen(st[b]) - Gen(st[a])) THEN "pairwise-distance"
       ELSE IF \E a, b \in 1..Len(st) : c.d2inf[a][b] # c.d2inf[b][a] \/ c.d2[a][b] # c.d2[b][a] THEN "pairwise-distance-not-symmetric"
       ELSE IF \E k \in 2..nq : (k \in known /\ (k - 1) \in known /\ c.q[k][1] = c.q[k - 1][1]) /\
                 (c.p1inf[k] \/ c.p1[k] # ExpI(c, k) - ExpI(c, k - 1)) THEN "sequential-physical-distance"
       ELSE IF \E a, b \in known : c.q[a][1] = c.q[b][1] /\
                 (c.p2inf[a][b] \/ c.p2[a][b] # (IF ExpI(c, a) >= ExpI(c, b) THEN ExpI(c, a) - ExpI(c, b) ELSE ExpI(c, b) - ExpI(c, a)))
            THEN "pairwise-physical-distance"
       ELSE IF \E a, b \in known : c.q[a][1] # c.q[b][1] /\ ~c.p2inf[a][b] THEN "pairwise-physical-distance-across-chromosomes"
       ELSE "ok"

TInit == i \in 1..Len(Cases) /\ rows = <<>>
TSpec == TInit /\ [][UNCHANGED tvars]_tvars
Report == IF Cases[i].kind = "map"
          THEN PrintT(<<"CASE", Cases[i].id, MapVerdict(Cases[i])>>)
          ELSE PrintT(<<"CASE", Cases[i].id, "expected",
                        [k \in 1..Len(Cases[i].ks) |-> IF Cases[i].fn = "haldane" THEN HaldaneR(Cases[i].ks[k]) ELSE KosambiR(Cases[i].ks[k])]>>)
==============================================================================
