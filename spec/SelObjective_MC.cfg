SPECIFICATION Spec
CONSTANTS
  MaxN = 3
  MaxC = 2
  DVals <- DDef
INVARIANT ScaleInvariant
INVARIANT QuadNonNeg
INVARIANT LinBetween
CHECK_DEADLOCK FALSE
