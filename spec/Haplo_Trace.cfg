SPECIFICATION TSpec
CONSTANTS
  MaxChr = 1
  MaxMark = 1
  PosSet = {0}
INVARIANT Report
CHECK_DEADLOCK FALSE
