--------------------------- MODULE ProgenyVar_Trace ---------------------------
(* Validates entries of the real progeny variance / covariance matrices against the enumeration of    *)
(* module ProgenyVar.  TABLE_FILE holds the joint-origin tables TLC produced with ProgenyVar_MC       *)
(* (one per scheme, selfing depth and rho); TRACE_FILE the cases:                                      *)
(*   scheme, K, D, s (selfing depth; -1 = infinite, two-way only), genic (linkage ignored),            *)
(*   A[taxon][locus] alleles of the inbred parents, u[locus][trait], rhoM[i][j] recombination         *)
(*   numerators of the locus pairs (D/2 across chromosomes), entries = <<parents, t1, t2, num, den>>   *)
(*   with parents the 0-based taxon tuple of the matrix entry and num/den the observed value.          *)
EXTENDS Integers, Sequences, FiniteSets, Json, IOUtils, TLC

Cases == JsonDeserialize(IOEnv.TRACE_FILE)
Tab == JsonDeserialize(IOEnv.TABLE_FILE)
VARIABLE i

RECURSIVE Gcd(_, _)
Gcd(a, b) == IF b = 0 THEN a ELSE Gcd(b, a % b)
Abs(x) == IF x < 0 THEN -x ELSE x
RNorm(p) == LET g == Gcd(Abs(p[1]), p[2]) IN IF p[1] = 0 THEN <<0, 1>> ELSE <<p[1] \div g, p[2] \div g>>
RAdd(p, q) == LET g == Gcd(p[2], q[2]) IN RNorm(<<p[1] * (q[2] \div g) + q[1] * (p[2] \div g), (p[2] \div g) * q[2]>>)
RMul(p, q) == LET a == RNorm(<<p[1], q[2]>>)
                  b == RNorm(<<q[1], p[2]>>)
              IN <<a[1] * b[1], a[2] * b[2]>>
RNeg(p) == <<-p[1], p[2]>>
RECURSIVE RSum(_, _)
RSum(f, n) == IF n = 0 THEN <<0, 1>> ELSE RAdd(f[n], RSum(f, n - 1))
RECURSIVE SumTo(_, _)
SumTo(f, n) == IF n = 0 THEN 0 ELSE f[n] + SumTo(f, n - 1)

JointOf(c, r) == (CHOOSE k \in 1..Len(Tab) : Tab[k].scheme = c.scheme /\ Tab[k].s = c.s /\ Tab[k].rho = r /\ Tab[k].D = c.D)
OA(c, h) == (h - 1) \div c.K
OB(c, h) == (h - 1) % c.K
\* Cov(a_i, a_j) for the parents tuple par (0-based taxon ids): E[a_i a_j] - E[a_i] E[a_j]
\* (c.s = -1: selfing for ever -- the tables of the "inbred" stage of ProgenyVar, for every scheme)
Cov(c, par, li, lj) ==
    IF FALSE THEN <<0, 1>>
    ELSE LET J == Tab[JointOf(c, c.rhoM[li][lj])].joint
             NH == c.K * c.K
             T == SumTo(J, NH)
             sij == SumTo([h \in 1..NH |-> J[h] * c.A[par[OA(c, h) + 1] + 1][li] * c.A[par[OB(c, h) + 1] + 1][lj]], NH)
             si == SumTo([h \in 1..NH |-> J[h] * c.A[par[OA(c, h) + 1] + 1][li]], NH)
             sj == SumTo([h \in 1..NH |-> J[h] * c.A[par[OB(c, h) + 1] + 1][lj]], NH)
         IN RAdd(RNorm(<<sij, T>>), RNeg(RMul(RNorm(<<si, T>>), RNorm(<<sj, T>>))))
\* variance / covariance between traits t1, t2 of the doubled haploids' genotypic values  g = 2 sum_l u_l a_l
Expected(c, e) ==
    LET L == Len(c.u)
        par == e[1]
        term(li, lj) == IF c.genic /\ li # lj THEN <<0, 1>>
                        ELSE RMul(<<4 * c.u[li][e[2]] * c.u[lj][e[3]], 1>>, Cov(c, par, li, lj))
    IN RSum([li \in 1..L |-> RSum([lj \in 1..L |-> term(li, lj)], L)], L)
RatEq(p, q) == p[1] * q[2] = q[1] * p[2]

Bad(c) == {k \in 1..Len(c.entries) : ~RatEq(<<c.entries[k][4], c.entries[k][5]>>, Expected(c, c.entries[k]))}
Verdict(c) == IF c.err # "none" THEN <<"exception-on-valid-input", 0>>
              ELSE IF ~c.lat THEN <<"value-not-a-small-rational", 0>>
              ELSE IF Bad(c) # {} THEN <<"entry-differs-from-enumeration", CHOOSE k \in Bad(c) : \A m \in Bad(c) : k <= m>>
              ELSE <<"ok", 0>>

TInit == i \in 1..Len(Cases)
TSpec == TInit /\ [][UNCHANGED i]_i
Report == PrintT(<<"CASE", Cases[i].id, Verdict(Cases[i])[1], Verdict(Cases[i])[2]>>)
==============================================================================
