SPECIFICATION Spec
CONSTANTS
  NL = 2
  MaxPop = 2
  Effects <- Eff
INVARIANT Bracket
INVARIANT FixedEqual
INVARIANT DescendantsBracket
PROPERTY UslNeverIncreases
PROPERTY LslNeverDecreases
PROPERTY LostNeverReappears
CHECK_DEADLOCK FALSE
