----------------------------- MODULE Entropy_Trace -----------------------------
(***************************************************************************)
(* Validates twin executions of the real library against the INTENDED      *)
(* variant of Entropy (no hidden entropy, no leaks): a case is one program *)
(* executed in two interpreters with different prior histories.  Each      *)
(* event carries, per copy, the sources whose state changed (t), a digest  *)
(* id of the result (d), of the global streams afterwards (gl) and of the  *)
(* explicit generators afterwards (gs).  The abstract coordinates of       *)
(* Entropy are advanced along the recorded events; wherever the            *)
(* specification makes the two copies' inputs equal, the recorded digests  *)
(* must be equal, and a call may only consume the sources Uses() allows.   *)
(***************************************************************************)
EXTENDS Entropy, Json, IOUtils, TLC

Cases == JsonDeserialize(IOEnv.TRACE_FILE)
VARIABLE i
tvars == <<i, py, np, os, gen, out, exout, seeded, ncall, noise>>

SetOf(s) == {s[x] : x \in 1..Len(s)}
St0 == [py |-> [c \in Copies |-> <<<<"hist-py-" \o c, 0, 0>>, 0>>],
        np |-> [c \in Copies |-> <<<<"hist-np-" \o c, 0, 0>>, 0>>],
        gen |-> [c \in Copies |-> [g \in Gens |-> None]]]
CoordOf(st, c, src) == IF src = "np" THEN st.np[c] ELSE IF src = "py" THEN st.py[c] ELSE st.gen[c][src]
Touched(e, c) == IF c = "A" THEN SetOf(e.tA) ELSE SetOf(e.tB)

StepOf(st, e) ==
    IF e.op = "seed" THEN [st EXCEPT !.py = [c \in Copies |-> <<<<"seed", e.s, 0>>, 1>>],
                                     !.np = [c \in Copies |-> <<<<"np-from-seed", e.s, 0>>, 0>>]]
    ELSE IF e.op = "newgen" THEN [st EXCEPT !.gen = [c \in Copies |-> [st.gen[c] EXCEPT ![e.g] = <<<<"own", e.s, 0>>, 0>>]]]
    ELSE IF e.op = "spawn" THEN [st EXCEPT !.gen = [c \in Copies |-> [st.gen[c] EXCEPT ![e.g] = <<<<"spawn:" \o st.py[c][1][1], st.py[c][1][2], st.py[c][2]>>, 0>>]],
                                           !.py = [c \in Copies |-> Adv(st.py[c])]]
    ELSE [st EXCEPT !.py = [c \in Copies |-> IF "py" \in Touched(e, c) THEN Adv(st.py[c]) ELSE st.py[c]],
                    !.np = [c \in Copies |-> IF "np" \in Touched(e, c) THEN Adv(st.np[c]) ELSE st.np[c]],
                    !.gen = [c \in Copies |-> [g \in Gens |-> IF g \in Touched(e, c) THEN Adv(st.gen[c][g]) ELSE st.gen[c][g]]]]

GlobalsAgree(st) == st.py["A"] = st.py["B"] /\ st.np["A"] = st.np["B"]
CheckOf(st, e) ==
    LET nx == StepOf(st, e)
        U == Uses(e.kind, e.rng)
        same == \A src \in U : CoordOf(st, "A", src) = CoordOf(st, "B", src)
    IN IF e.errA # "none" \/ e.errB # "none" THEN "exception-on-valid-call"
       ELSE IF e.op = "seed" THEN (IF e.glA # e.glB THEN "seeding-leaves-different-global-states" ELSE "ok")
       ELSE IF e.op = "newgen" THEN "ok"
       ELSE IF e.op = "spawn" THEN
            (IF \E c \in Copies : ~(Touched(e, c) \subseteq {"py"}) THEN "spawn-consumed-a-source-other-than-python's"
             ELSE IF GlobalsAgree(st) /\ e.gsA # e.gsB THEN "spawned-generator-not-determined-by-the-seeded-stream"
             ELSE IF GlobalsAgree(nx) /\ e.glA # e.glB THEN "global-state-diverged"
             ELSE "ok")
       ELSE IF e.rng # "none" /\ \E c \in Copies : Touched(e, c) \cap {"py", "np"} # {} THEN "global-stream-advanced-despite-explicit-generator"
       ELSE IF \E c \in Copies : ~(Touched(e, c) \subseteq U) THEN "consumed-a-source-the-specification-does-not-allow"
       ELSE IF e.rng # "none" /\ same /\ e.dA # e.dB THEN "result-depends-on-more-than-the-generator"
       ELSE IF e.rng = "none" /\ same /\ e.dA # e.dB THEN "result-not-reproducible-after-seeding"
       ELSE IF same /\ Touched(e, "A") # Touched(e, "B") THEN "consumption-differs-between-identical-runs"
       ELSE IF GlobalsAgree(nx) /\ e.glA # e.glB THEN "global-state-diverged"
       ELSE IF (\A g \in Gens : nx.gen["A"][g] = nx.gen["B"][g]) /\ e.gsA # e.gsB THEN "generator-state-diverged"
       ELSE "ok"

RECURSIVE RunFrom(_, _, _)
RunFrom(c, k, st) == IF k > Len(c.ev) THEN <<"ok", 0>>
                     ELSE LET v == CheckOf(st, c.ev[k]) IN
                          IF v # "ok" THEN <<v, k>> ELSE RunFrom(c, k + 1, StepOf(st, c.ev[k]))
Verdict(c) == RunFrom(c, 1, St0)

TInit == /\ i \in 1..Len(Cases)
         /\ py = St0.py /\ np = St0.np /\ os = St0.py /\ gen = St0.gen /\ out = <<>> /\ exout = <<>>
         /\ seeded = FALSE /\ ncall = 0 /\ noise = 0
TSpec == TInit /\ [][UNCHANGED tvars]_tvars
Report == PrintT(<<"CASE", Cases[i].id, Verdict(Cases[i])[1], Verdict(Cases[i])[2]>>)
==============================================================================
