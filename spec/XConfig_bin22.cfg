SPECIFICATION Spec
CONSTANTS
  N = 4
  NC = 2
  NP = 2
  Decs <- D4b
  Enc = "tiled"
  MixCols = FALSE
INVARIANT DoneOK
INVARIANT TiledClosedForm
INVARIANT ClosedFormExact
PROPERTY MultisetKept
PROPERTY NeverWorse
CHECK_DEADLOCK FALSE
