-------------------------- MODULE SelObjective_Trace --------------------------
(* Validates latent vectors and assembled objectives of the real selection problems in all encodings.  *)
(* record: fam ("lin" | "family" | "quad" | "ocs" | "l1" | "l2" | "pafd" | "pau" | "mogs"), c (contribution vector),     *)
(*   data: d[i][t] | fam[i], nf | K[a][b] | Ks[t][a][b] | Vs[t][l][i] | g, pl, w[t][l], tn[t][l], td;   *)
(*   obs = sequence of [enc |-> "subset"|"integer"|"binary"|"real"|"evalfn", vals |-> sequence of        *)
(*   <<num, den>>, ...]; norm-valued components are logged squared by the harness.                        *)
(*   For "evalfn": trans ("identity"|"sum"|"dot"), wobj, lw, and vals = assembled objectives.            *)
EXTENDS SelObjective, Json, IOUtils, TLC

Cases == JsonDeserialize(IOEnv.TRACE_FILE)
VARIABLE i
tvars == <<i, c, d>>

Latent(k) ==
    CASE k.fam = "lin"    -> [t \in 1..Len(k.d[1]) |-> Lin(k.c, k.d, t)]
      [] k.fam = "family" -> [t \in 1..(Len(k.d[1]) + k.nf) |-> IF t <= Len(k.d[1]) THEN Lin(k.c, k.d, t) ELSE FamShare(k.c, k.fam_of, t - Len(k.d[1]) - 1)]
      [] k.fam = "quad"   -> <<Quad(k.c, k.K)>>
      [] k.fam = "ocs"    -> [t \in 1..(1 + Len(k.d[1])) |-> IF t = 1 THEN Quad(k.c, k.K) ELSE Lin(k.c, k.d, t - 1)]
      [] k.fam = "l2"     -> [t \in 1..Len(k.Ks) |-> Quad(k.c, k.Ks[t])]
      [] k.fam = "l1"     -> [t \in 1..Len(k.Vs) |-> L1(k.c, k.Vs[t])]
      [] k.fam = "pau"    -> [t \in 1..Len(k.w) |-> Pau(k.c, k.g, k.pl, k.w[t], k.tn[t], k.td)]
      [] k.fam = "mogs"   -> [t \in 1..(2 * Len(k.w)) |-> IF t <= Len(k.w) THEN Pau(k.c, k.g, k.pl, k.w[t], k.tn[t], k.td)
                                                          ELSE Pafd(k.c, k.g, k.pl, k.w[t - Len(k.w)], k.tn[t - Len(k.w)], k.td)]
      [] OTHER            -> [t \in 1..Len(k.w) |-> Pafd(k.c, k.g, k.pl, k.w[t], k.tn[t], k.td)]
ExpectedObj(k, o) ==
    LET lat == Latent(k) IN
    CASE o.trans = "identity" -> [t \in 1..Len(lat) |-> << o.wobj[t] * lat[t][1], lat[t][2] >>]
      [] o.trans = "sum" -> << << o.wobj[1] * TransSum(lat)[1], TransSum(lat)[2] >> >>
      [] o.trans = "sq" -> LET sq == TransSum([t \in 1..Len(lat) |-> << lat[t][1] * lat[t][1], lat[t][2] * lat[t][2] >>])
                           IN << << o.wobj[1] * sq[1], sq[2] >> >>
      [] OTHER -> << << o.wobj[1] * TransDot(lat, o.lw)[1], TransDot(lat, o.lw)[2] >> >>
ObsOK(k, o) ==
    LET exp == IF o.enc = "evalfn" THEN ExpectedObj(k, o) ELSE Latent(k) IN
    /\ Len(o.vals) = Len(exp)
    /\ \A t \in 1..Len(exp) : RatEq(<<o.vals[t][1], o.vals[t][2]>>, exp[t])
Bad(k) == {p \in 1..Len(k.obs) : ~ObsOK(k, k.obs[p])}
Verdict(k) == IF k.err # "none" THEN <<"exception-on-valid-input", "">>
              ELSE IF ~k.lat THEN <<"value-not-a-small-rational", "">>
              ELSE IF Bad(k) # {} THEN <<"value-differs-from-definition", k.obs[CHOOSE p \in Bad(k) : \A q \in Bad(k) : p <= q].enc>>
              ELSE IF ~k.dataok THEN <<"factory-data-not-the-population-data-in-taxon-order", "">>
              ELSE <<"ok", "">>

TInit == i \in 1..Len(Cases) /\ c = <<>> /\ d = <<>>
TSpec == TInit /\ [][UNCHANGED tvars]_tvars
Report == PrintT(<<"CASE", Cases[i].id, Verdict(Cases[i])[1], Verdict(Cases[i])[2]>>)
==============================================================================
