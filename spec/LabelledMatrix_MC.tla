-------------------------- MODULE LabelledMatrix_MC --------------------------
EXTENDS LabelledMatrix
\* four entities: two groups, one duplicated name
PoolDef == {1, 2, 3, 4}
GrpDef == <<2, 1, 1, 2>>
NameDef == <<1, 2, 1, 3>>
==============================================================================
