SPECIFICATION Spec
CONSTANTS
  MaxChr = 2
  PhysSet = {1, 2, 4}
  GenSet = {0, 1, 3}
  MaxK = 6
INVARIANT OwnMarkers
INVARIANT Monotone
INVARIANT Between
INVARIANT LatticeLaws
CHECK_DEADLOCK FALSE
