--------------------------- MODULE BreedingLoop_Apa ---------------------------
(***************************************************************************)
(* Unbounded safety of the breeding loop (C20) with Apalache: an inductive *)
(* invariant over ARBITRARY numbers of replicates and generations.  TLC    *)
(* explores MaxRep, MaxGen <= 3; here nrep and ngen range over all of Nat: *)
(*    IndInit => IndInv                 (length 0)                         *)
(*    IndInv /\ Next => IndInv'         (length 1, --init=IndInv)          *)
(*    IndInv => Safety                  (Safety is a conjunct-wise         *)
(*                                       consequence, checked at length 0) *)
(* The actions are those of module BreedingLoop (INSTANCE, no copy), incl.  *)
(* the direct advance(k) / reset() calls after evolve() has returned.       *)
(***************************************************************************)
EXTENDS Integers, Sequences, FiniteSets

Slots == {"genome", "geno", "pheno", "bval", "gmod"}
MaxRep == 1          \* only used by Init / TypeOK of the bounded model; irrelevant to Next
MaxGen == 1
RecordHist == FALSE

VARIABLES
    \* @type: Str;
    pc,
    \* @type: Int;
    nrep,
    \* @type: Int;
    ngen,
    \* @type: Bool;
    loginit,
    \* @type: Int;
    rep,
    \* @type: Int;
    gen,
    \* @type: Int;
    t,
    \* @type: Int;
    lrep,
    \* @type: Str -> {cs: Bool, ms: Bool, cd: Bool, sd: Bool};
    al,
    \* @type: Seq({call: Str, rep: Int, t: Int, oc: Str -> Str});
    hist,
    \* @type: Int;
    tb

Deep    == INSTANCE BreedingLoop WITH ResetMode <- "deep"
Shallow == INSTANCE BreedingLoop WITH ResetMode <- "shallow"

PCs == {"idle", "reset", "evalinit", "log_initialize", "tick0", "pselect", "log_pselect", "mate", "log_mate",
        "evaluate", "log_evaluate", "sselect", "log_sselect", "tick", "finished"}
InGen == {"pselect", "log_pselect", "mate", "log_mate", "evaluate", "log_evaluate", "sselect", "log_sselect", "tick"}
Flag == [cs : BOOLEAN, ms : BOOLEAN, cd : BOOLEAN, sd : BOOLEAN]

\* the initial condition with unbounded arguments
IndInit == /\ pc = "idle"
           /\ nrep \in Nat /\ nrep >= 1 /\ ngen \in Nat /\ loginit \in BOOLEAN
           /\ rep = 0 /\ gen = 0 /\ t = 0 /\ lrep = 0
           /\ al = [s \in Slots |-> [cs |-> FALSE, ms |-> FALSE, cd |-> FALSE, sd |-> FALSE]]
           /\ hist = <<>> /\ tb = 0

\* the inductive invariant (constrains every variable)
IndInv ==
    /\ pc \in PCs
    /\ nrep \in Nat /\ nrep >= 1 /\ ngen \in Nat /\ loginit \in BOOLEAN
    /\ rep \in Nat /\ rep <= nrep /\ gen \in Nat /\ gen <= ngen /\ t \in Nat /\ lrep = rep
    /\ al \in [Slots -> Flag]
    /\ hist = <<>> /\ tb \in Nat
    \* aliasing: with a deep reset the working containers never share anything with the stored start
    /\ \A s \in Slots : ~al[s].cs /\ ~al[s].ms /\ ~al[s].sd
    /\ pc = "evalinit" => \A s \in Slots : ~al[s].cd
    \* counters
    /\ pc \in {"reset", "evalinit", "log_initialize", "tick0"} \cup InGen => rep >= 1
    /\ pc \in {"evalinit", "log_initialize", "tick0"} => t = 0 /\ gen = 0
    /\ pc \in InGen => t = tb + gen /\ gen < ngen
    /\ pc \in {"idle", "finished"} => (rep = 0 /\ gen = 0 /\ t = 0) \/ (gen = ngen /\ t = tb + ngen)
    /\ pc = "finished" => rep = nrep

\* the properties of module BreedingLoop (its invariants, verbatim) follow from IndInv
Safety == /\ Deep!StartNeverModified
          /\ Deep!ReplicateStartsEqual
          /\ Deep!TimeIndex
          /\ Deep!LogbookRep
          /\ Deep!DoneAll

\* the bounded model lets a direct advance(k) run only while the time stays below its bound; here k is any positive number
NextDeep == Deep!Next \/ (\E k \in Nat : k >= 1 /\ Deep!MoreAdvanceBody(k))
NextShallow == Shallow!Next

\* non-vacuity: the same invariant is NOT inductive for the shallow reset
===============================================================================
