SPECIFICATION TSpec
CONSTANTS
  MaxN = 1
  MaxP = 1
  Eff = {0}
INVARIANT Report
CHECK_DEADLOCK FALSE
