SPECIFICATION Spec
CONSTANTS
  N = 3
  NC = 3
  NP = 2
  Decs <- D3w
  Enc = "sus"
  MixCols = FALSE
INVARIANT DoneOK
INVARIANT TiledClosedForm

PROPERTY MultisetKept
PROPERTY NeverWorse
CHECK_DEADLOCK FALSE
