----------------------------- MODULE Mating_MC -----------------------------
EXTENDS Mating, TLC
\* index-expansion laws for all count vectors of <= 3 crosses with counts 1..3 (0 allowed for nprogeny)
Counts(n, S) == [1..n -> S]
ExpansionLaws ==
    \A n \in 1..3 : \A nm \in Counts(n, 1..2) : \A np \in Counts(n, 0..2) :
        /\ NestedCrossOf(nm, np) = CrossOf(nm, np)
        /\ Len(CrossOf(nm, np)) = Len(HybridOf(nm, np))
        /\ \A k \in 1..Len(CrossOf(nm, np)) :
              RepeatSeq(Iota(n), nm)[HybridOf(nm, np)[k]] = CrossOf(nm, np)[k]
        /\ \A k \in 1..(Len(HybridOf(nm, np)) - 1) : HybridOf(nm, np)[k] <= HybridOf(nm, np)[k + 1]
ExpansionOnce == (stage = "start" /\ proto = "sx" /\ ns = 0 /\ \A l \in 1..L : xo[l] = 0 /\ row[1] = 0) => ExpansionLaws
==============================================================================
