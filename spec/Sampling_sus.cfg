SPECIFICATION Spec
CONSTANTS
  MaxOpt = 4
  WVals = {0, 1, 2, 3, 5}
  MaxK = 6
  G = 4
  ZeroOff = FALSE
  Tables = {}
  Mode = "sus"
INVARIANT SusInRange
INVARIANT SusFloorCeil
PROPERTY Terminates
CHECK_DEADLOCK FALSE
