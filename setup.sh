#!/bin/sh
# Offline setup: nothing to build; verify the tools the checks need are present and the specs parse.
set -e
cd "$(dirname "$0")"
test -x /venv/bin/python
test -f /opt/veriftools/tla/tla2tools.jar
java -version >/dev/null 2>&1
mkdir -p evidence
/venv/bin/python - <<'PY'
import sys
sys.path.insert(0, '.')
import harness.compat
import pybrops, numpy, pandas, h5py
print("setup ok: numpy", numpy.__version__)
PY
