"""Labelled-matrix adapters: build real pybrops matrices from abstract axis states (entity ids), project real
objects back to abstract states, execute structural operations in their specific / generic / mutating forms.
Used by C03 (and by C15/C16).  No semantics of the operations lives here: TLC decides every step."""
import copy, importlib
import numpy as np

NID = 8
TAB = {
    "taxa": {"name": ["tA", "tB", "tC", "tA", "tB", "tD", "tE", "tC"], "grp": [2, -1, -1, 2, 3, -1, 3, 2]},      # group labels may be negative (-1: "unknown family")
    "vrnt": {"chr": [0, 0, 2, 2, 0, 3, 2, 3],       # chromosome numbering may start at 0
             "pos": [10, 20, 10, 30, 20, 5, 15, 5],
             "name": ["v0", "v1", "v2", "v3", "v1", "v5", "v2", "v7"], "gen": [10, 25, 5, 40, 25, 0, 20, 3],
             "xo": [50, 10, 50, 20, 10, 50, 30, 25], "hap": [0, 0, 1, 1, 0, 2, 1, 2],
             "alt": ["A", "C", "G", "T", "C", "A", "G", "T"], "ref": ["T", "G", "C", "A", "G", "T", "C", "A"],
             "mask": [True, False, True, True, False, False, True, False]},
    "trait": {"name": ["y0", "y1", "y2", "y1", "y4", "y0", "y6", "y7"]},
}
for _a in ("taxa", "vrnt", "trait"):
    _names = sorted(set(TAB[_a]["name"]))
    TAB[_a]["namerank"] = [_names.index(x) for x in TAB[_a]["name"]]

# the same table at genome scale: physical positions of hundreds of megabases (chromosome number x position span exceeds 2**31),
# held -- like the chromosome labels -- in 32-bit integers, as marker files usually deliver them
import copy as _copy
TAB_SMALL = TAB
TAB_GENOME = _copy.deepcopy(TAB)
TAB_GENOME["vrnt"]["pos"] = [x * 40000000 for x in TAB["vrnt"]["pos"]]
LABEL_INT = {"dtype": "int64"}


def use_table(which):
    global TAB
    TAB = TAB_GENOME if which == "genome" else TAB_SMALL
    LABEL_INT["dtype"] = "int32" if which == "genome" else "int64"


FIELDS = {"taxa": ["name", "grp"], "vrnt": ["chr", "pos", "name", "gen", "xo", "hap", "alt", "ref", "mask"],
          "trait": ["name"]}
ATTR = {("taxa", "name"): "taxa", ("taxa", "grp"): "taxa_grp", ("vrnt", "chr"): "vrnt_chrgrp", ("vrnt", "pos"): "vrnt_phypos",
        ("vrnt", "name"): "vrnt_name", ("vrnt", "gen"): "vrnt_genpos", ("vrnt", "xo"): "vrnt_xoprob",
        ("vrnt", "hap"): "vrnt_hapgrp", ("vrnt", "alt"): "vrnt_hapalt", ("vrnt", "ref"): "vrnt_hapref",
        ("vrnt", "mask"): "vrnt_mask", ("trait", "name"): "trait"}
META = {"taxa": "taxa_grp", "vrnt": "vrnt_chrgrp"}

# kind -> (axes in the matrix, dtype)
KINDS = {
    "T": (["taxa"], "float64"), "V": (["vrnt"], "float64"), "R": (["trait"], "float64"),
    "TV": (["taxa", "vrnt"], "int8"), "PTV": (["taxa", "vrnt"], "int8"), "TR": (["taxa", "trait"], "float64"),
    "SQ": (["taxa"], "float64"), "SQR": (["taxa", "trait"], "float64"),
    # three and four square taxa axes followed by a trait axis (three- / four-way variance matrices)
    "SQ3R": (["taxa", "trait"], "float64"), "SQ4R": (["taxa", "trait"], "float64"),
}
CLASSES = {
    "DenseTaxaMatrix": ("pybrops.core.mat.DenseTaxaMatrix", "T"),
    "DenseVariantMatrix": ("pybrops.core.mat.DenseVariantMatrix", "V"),
    "DenseTraitMatrix": ("pybrops.core.mat.DenseTraitMatrix", "R"),
    "DenseTaxaVariantMatrix": ("pybrops.core.mat.DenseTaxaVariantMatrix", "TV"),
    "DensePhasedTaxaVariantMatrix": ("pybrops.core.mat.DensePhasedTaxaVariantMatrix", "PTV"),
    "DenseTaxaTraitMatrix": ("pybrops.core.mat.DenseTaxaTraitMatrix", "TR"),
    "DenseSquareTaxaMatrix": ("pybrops.core.mat.DenseSquareTaxaMatrix", "SQ"),
    "DenseSquareTaxaTraitMatrix": ("pybrops.core.mat.DenseSquareTaxaTraitMatrix", "SQR"),
    "DenseGenotypeMatrix": ("pybrops.popgen.gmat.DenseGenotypeMatrix", "TV"),
    "DensePhasedGenotypeMatrix": ("pybrops.popgen.gmat.DensePhasedGenotypeMatrix", "PTV"),
    "DenseMolecularCoancestryMatrix": ("pybrops.popgen.cmat.DenseMolecularCoancestryMatrix", "SQ"),
    "DenseVanRadenCoancestryMatrix": ("pybrops.popgen.cmat.DenseVanRadenCoancestryMatrix", "SQ"),
    "DenseTwoWayDHAdditiveGeneticVarianceMatrix": ("pybrops.model.vmat.DenseTwoWayDHAdditiveGeneticVarianceMatrix", "SQR"),
    "DenseTwoWayDHAdditiveGenicVarianceMatrix": ("pybrops.model.vmat.DenseTwoWayDHAdditiveGenicVarianceMatrix", "SQR"),
}
# classes with more than two square taxa axes: exercised by a dedicated batch of in-place reorderings (driver c03), not by the
# general histories (their copying taxa operations fall under the open findings about square matrices)
CLASSES_MULTISQUARE = {
    "DenseThreeWayDHAdditiveGeneticVarianceMatrix": ("pybrops.model.vmat.DenseThreeWayDHAdditiveGeneticVarianceMatrix", "SQ3R"),
    "DenseThreeWayDHAdditiveGenicVarianceMatrix": ("pybrops.model.vmat.DenseThreeWayDHAdditiveGenicVarianceMatrix", "SQ3R"),
    "DenseFourWayDHAdditiveGeneticVarianceMatrix": ("pybrops.model.vmat.DenseFourWayDHAdditiveGeneticVarianceMatrix", "SQ4R"),
}


def get_class(name):
    mod, kind = CLASSES[name] if name in CLASSES else CLASSES_MULTISQUARE[name]
    return getattr(importlib.import_module(mod), name), kind


# ---------------------------------------------------------------- cells
def cells(kind, ax):
    t = ax.get("taxa", []); v = ax.get("vrnt", []); r = ax.get("trait", [])
    dt = KINDS[kind][1]
    if kind == "T":
        m = np.array([[i * 8 + c for c in range(2)] for i in t], dtype=dt).reshape(len(t), 2)
    elif kind == "V":
        m = np.array([[j * 8 + c for c in range(2)] for j in v], dtype=dt).reshape(len(v), 2)
    elif kind == "R":
        m = np.array([[j * 8 + c for c in range(2)] for j in r], dtype=dt).reshape(len(r), 2)
    elif kind == "TV":
        m = np.array([[i * 8 + j for j in v] for i in t], dtype=dt).reshape(len(t), len(v))
    elif kind == "PTV":
        m = np.array([[[64 * p + i * 8 + j for j in v] for i in t] for p in range(2)], dtype=dt).reshape(2, len(t), len(v))
    elif kind == "TR":
        m = np.array([[i * 8 + j for j in r] for i in t], dtype=dt).reshape(len(t), len(r))
    elif kind == "SQ":
        m = np.array([[i * 8 + j for j in t] for i in t], dtype=dt).reshape(len(t), len(t))
    elif kind == "SQR":
        m = np.array([[[i * 64 + j * 8 + k for k in r] for j in t] for i in t], dtype=dt).reshape(len(t), len(t), len(r))
    elif kind in ("SQ3R", "SQ4R"):
        na = 3 if kind == "SQ3R" else 4
        import itertools
        m = np.zeros((len(t),) * na + (len(r),), dtype=dt)
        for pos in itertools.product(range(len(t)), repeat=na):
            code = 0
            for q in pos:
                code = code * 8 + t[q]
            for kk, rr in enumerate(r):
                m[pos + (kk,)] = code * 8 + rr
    else:
        raise KeyError(kind)
    return m


def decode(kind, mat):
    """-> (ax ids, cellsok, squareok): ids are read off the first row/column, then every cell is checked"""
    m = np.asarray(mat)
    ax = {"taxa": [], "vrnt": [], "trait": []}
    ok = True; sq = True
    try:
        if kind == "T":
            ax["taxa"] = [int(x) // 8 for x in m[:, 0]]
            ok = m.shape[1] == 2 and np.array_equal(m, cells(kind, ax))
        elif kind in ("V", "R"):
            a = "vrnt" if kind == "V" else "trait"
            ax[a] = [int(x) // 8 for x in m[:, 0]]
            ok = m.shape[1] == 2 and np.array_equal(m, cells(kind, ax))
        elif kind in ("TV", "TR"):
            b = "vrnt" if kind == "TV" else "trait"
            ax["taxa"] = [int(x) // 8 for x in m[:, 0]]
            ax[b] = [int(x) % 8 for x in m[0, :]]
            ok = np.array_equal(m, cells(kind, ax))
        elif kind == "PTV":
            ax["taxa"] = [int(x) // 8 for x in m[0, :, 0]]
            ax["vrnt"] = [int(x) % 8 for x in m[0, 0, :]]
            ok = m.shape[0] == 2 and np.array_equal(m, cells(kind, ax))
        elif kind == "SQ":
            if m.shape[0] != m.shape[1]:
                sq = False
            # ids from the diagonal (cross cells between adjoined blocks hold the fill value)
            n = min(m.shape[0], m.shape[1])
            ax["taxa"] = [int(m[i, i]) // 8 if np.isfinite(m[i, i]) else -1 for i in range(m.shape[0])] if sq else \
                [int(x) // 8 if np.isfinite(x) else -1 for x in m[:, 0]]
            if sq:
                exp = cells(kind, ax)
                ok = bool(np.all((m == exp) | np.isnan(m))) and all(int(m[i, i]) % 8 == ax["taxa"][i] for i in range(n))
        elif kind == "SQR":
            if m.shape[0] != m.shape[1]:
                sq = False
            ax["trait"] = [int(x) % 8 for x in m[0, 0, :]]
            ax["taxa"] = [int(m[i, i, 0]) // 64 if np.isfinite(m[i, i, 0]) else -1 for i in range(m.shape[0])] if sq else \
                [int(x) // 64 if np.isfinite(x) else -1 for x in m[:, 0, 0]]
            if sq:
                exp = cells(kind, ax)
                ok = bool(np.all((m == exp) | np.isnan(m))) and all((int(m[i, i, 0]) // 8) % 8 == ax["taxa"][i] for i in range(m.shape[0]))
        elif kind in ("SQ3R", "SQ4R"):
            na = 3 if kind == "SQ3R" else 4
            if len(set(m.shape[:na])) != 1:
                sq = False
            n = m.shape[0]
            ax["trait"] = [int(x) % 8 for x in m[(0,) * na]]
            # ids from the main diagonal cell (i,i,..,i): every digit of its code is the id of taxon i
            ax["taxa"] = [int(m[(i,) * na + (0,)]) // 8 % 8 for i in range(n)] if sq else []
            if sq:
                ok = bool(np.array_equal(m, cells(kind, ax)))
    except Exception:
        ok = False
    return ax, bool(ok), bool(sq)


# ---------------------------------------------------------------- labels
def label_array(a, f, ids):
    vals = [TAB[a][f][i] for i in ids]
    if f in ("name", "alt", "ref"):
        return np.array(vals, dtype=object)
    if f in ("gen", "xo"):
        return np.array(vals, dtype=float) / 100.0
    if f == "mask":
        return np.array(vals, dtype=bool)
    return np.array(vals, dtype=LABEL_INT["dtype"] if a == "vrnt" and f in ("chr", "pos") else "int64")


def proj_label(f, arr):
    if arr is None:
        return {"on": False, "v": []}
    out = []
    for x in np.asarray(arr).tolist():
        if f in ("name", "alt", "ref"):
            out.append("None" if x is None else str(x))
        elif f in ("gen", "xo"):
            out.append(int(round(float(x) * 100)) if x == x else -999)
        elif f == "mask":
            out.append(bool(x))
        else:
            out.append(int(x))
    return {"on": True, "v": out}


PRESENCE = {
    "all": None,
    "sparse": {("taxa", "name"), ("vrnt", "chr"), ("vrnt", "pos"), ("trait", "name")},
    "nogrp": {("taxa", "name"), ("vrnt", "chr"), ("vrnt", "pos"), ("vrnt", "name"), ("vrnt", "mask"), ("trait", "name")},
    "grponly": {("taxa", "grp"), ("vrnt", "chr"), ("vrnt", "pos"), ("vrnt", "gen"), ("vrnt", "xo"), ("trait", "name")},
}


def build(clsname, ax, presence="all"):
    cls, kind = get_class(clsname)
    kw = {"mat": cells(kind, ax)}
    import inspect
    params = inspect.signature(cls.__init__).parameters
    for (a, f), attr in ATTR.items():
        if attr in params and a in KINDS[kind][0]:
            if PRESENCE[presence] is None or (a, f) in PRESENCE[presence]:
                kw[attr] = label_array(a, f, ax[a])
    return cls(**kw)


def project(obj, kind):
    ax, cok, sok = decode(kind, obj.mat)
    lab = {}
    for a in ("taxa", "vrnt", "trait"):
        lab[a] = {}
        for f in FIELDS[a]:
            attr = ATTR[(a, f)]
            lab[a][f] = proj_label(f, getattr(obj, attr, None)) if a in KINDS[kind][0] else {"on": False, "v": []}
    meta = {}
    for a in ("taxa", "vrnt"):
        on = False; parts = []
        if a in KINDS[kind][0]:
            try:
                on = bool(getattr(obj, "is_grouped_" + a)())
            except Exception:
                on = False
            if on:
                p = META[a]
                try:
                    nm = getattr(obj, p + "_name"); st = getattr(obj, p + "_stix"); sp = getattr(obj, p + "_spix"); ln = getattr(obj, p + "_len")
                    parts = [[int(nm[k]), int(st[k]), int(sp[k]), int(ln[k])] for k in range(len(nm))]
                except Exception:
                    parts = [[-1, -1, -1, -1]]
        meta[a] = {"on": on, "parts": parts}
    return {"ax": ax, "lab": lab, "meta": meta, "ok": {"cells": cok, "square": sok}}


def axis_index(obj, a):
    return {"taxa": "taxa_axis", "vrnt": "vrnt_axis", "trait": "trait_axis"}[a], getattr(obj, {"taxa": "taxa_axis", "vrnt": "vrnt_axis", "trait": "trait_axis"}[a])


MUT = {"adjoin": "append", "delete": "remove", "insert": "incorp"}


def execute(obj, clsname, a, op, args, form, mutating, presence):
    """run one operation on obj (already a private copy). Returns the resulting object."""
    cls, kind = get_class(clsname)
    axi = getattr(obj, a + "_axis")
    if form == "generic-":
        axi = axi - obj.mat.ndim
    name = MUT.get(op, op) if mutating else op
    spec = form == "specific"
    meth = getattr(obj, name + "_" + a) if spec else getattr(obj, name)
    axkw = {} if spec else {"axis": axi}
    if op in ("select", "reorder"):
        res = meth(np.array(args["ix"], dtype=int), **axkw)
    elif op == "delete":
        res = meth(args["obj"], **axkw)
    elif op in ("insert", "adjoin"):
        bax = dict(project(obj, kind)["ax"]); bax[a] = args["blk"]
        blk = build(clsname, bax, presence)
        if args.get("raw"):
            kw = {}
            for f in FIELDS[a]:
                v = getattr(blk, ATTR[(a, f)], None)
                if v is not None:
                    kw[ATTR[(a, f)]] = v
            vals = blk.mat
        else:
            kw = {}; vals = blk
        if op == "insert":
            res = meth(np.array(args["pos"], dtype=int), vals, **axkw, **kw)
        else:
            res = meth(vals, **axkw, **kw)
    elif op == "concat":
        mats = [obj]
        for b in args["blks"]:
            bax = dict(project(obj, kind)["ax"]); bax[a] = b
            mats.append(build(clsname, bax, presence))
        res = (getattr(cls, "concat_" + a)(mats) if spec else cls.concat(mats, **axkw))
    elif op == "sort":
        res = meth(keys=None, **axkw) if not spec else meth()
    elif op in ("group", "ungroup"):
        res = meth(**axkw)
    elif op == "lexsort":
        ix = (getattr(obj, "lexsort_" + a)() if spec else obj.lexsort(keys=None, **axkw))
        return ("indices", [int(x) for x in ix])
    else:
        raise KeyError(op)
    return obj if (mutating or op in ("reorder", "sort", "group", "ungroup")) else res
