"""Batched validation of recorded cases / traces by TLC (TLC is the verdict owner)."""
import json, os, shutil, tempfile
from concurrent.futures import ThreadPoolExecutor
from . import tlc


def _san(o):
    """JSON values TLC's Json module cannot read (null) are replaced; floats are not allowed at all."""
    if o is None:
        return "none"
    if isinstance(o, dict):
        return {k: _san(v) for k, v in o.items()}
    if isinstance(o, (list, tuple)):
        return [_san(v) for v in o]
    if isinstance(o, float):
        raise ValueError("float in TLC case: %r" % o)
    return o


def validate(ctx, spec, cfg, cases, name, chunk=1500, procs=8, workers=1, tag="CASE", env=None, timeout=1800,
             dfs=False):
    """cases: list of JSON-able dicts each having a unique 'id'. Returns {id: verdict-list}.

    The trace spec prints one line <<tag, id, verdict...>> per case.  Every case must receive a
    verdict, otherwise the run is a machinery failure.
    """
    if not cases:
        return {}
    tmp = tempfile.mkdtemp(prefix="cases_")
    try:
        files = []
        for k in range(0, len(cases), chunk):
            fn = os.path.join(tmp, "chunk%d.json" % (k // chunk))
            with open(fn, "w") as f:
                json.dump(_san(cases[k:k + chunk]), f)
            files.append(fn)

        def one(fn):
            e = {"TRACE_FILE": fn}
            if env:
                e.update(env)
            return tlc.run(spec, cfg, workers=workers, env=e, timeout=timeout, dfs=dfs)

        with ThreadPoolExecutor(max_workers=procs) as ex:
            results = list(ex.map(one, files))
    finally:
        shutil.rmtree(tmp, ignore_errors=True)
    out = {}
    agg_gen = agg_dist = 0
    wall = 0.0
    for r in results:
        if not r.ok:
            raise tlc.TLCFailure("trace validation %s failed: %s\n%s" % (name, r.error, r.raw[-2000:]))
        agg_gen += r.generated; agg_dist += r.distinct; wall = max(wall, r.wall)
        for t in r.tuples:
            if t and t[0] == tag:
                out[t[1]] = t[2:] if len(t) > 3 else t[2]
    missing = [c["id"] for c in cases if c["id"] not in out]
    if missing:
        raise tlc.TLCFailure("trace validation %s: %d cases without verdict (first %r)" % (name, len(missing), missing[0]))
    ctx.states += agg_dist
    ctx.transitions += max(agg_gen - len(results), 0)
    ctx.tlc_runs.append({"name": name, "generated": agg_gen, "distinct": agg_dist, "chunks": len(results),
                         "wall_s": round(wall, 2)})
    return out
