"""Thin TLC runner: runs a spec/cfg from /verif/spec, parses summary, PrintT output and errors.

Everything TLC writes (metadir) goes to a temporary directory that is removed afterwards.
"""
import json, os, re, shutil, subprocess, tempfile, time

SPEC_DIR = os.path.join(os.path.dirname(os.path.dirname(os.path.abspath(__file__))), "spec")
JAR = "/opt/veriftools/tla/tla2tools.jar:/opt/veriftools/tla/CommunityModules-deps.jar"


class TLCFailure(Exception):
    """Machinery failure (TLC crashed, parse error, timeout)."""


class TLCResult:
    def __init__(self):
        self.ok = False            # finished without error
        self.violated = None       # name of violated invariant/property or None
        self.error = None          # error text
        self.generated = 0
        self.distinct = 0
        self.depth = 0
        self.prints = []           # raw PrintT lines (non-TLC-message lines)
        self.json = []             # parsed JSON objects printed via PrintT(ToJson(..))
        self.tuples = []           # parsed <<...>> tuples printed via PrintT
        self.coverage = {}         # action name -> (distinct, total) with -coverage
        self.raw = ""
        self.wall = 0.0
        self.cmd = ""

    @property
    def transitions(self):
        return max(self.generated - 1, 0)


_TUP = re.compile(r'^<<(.*)>>$')


def _parse_tuple(line):
    # parse simple TLA+ tuple of ints/strings/nested tuples into python lists
    s = line.strip()
    out, stack, i, n = None, [], 0, len(s)
    cur = None
    while i < n:
        if s.startswith("<<", i) or s[i] == "{":
            step = 2 if s.startswith("<<", i) else 1
            new = []
            if cur is not None:
                cur.append(new); stack.append(cur)
            cur = new; i += step
        elif s.startswith(">>", i) or s[i] == "}":
            step = 2 if s.startswith(">>", i) else 1
            if stack:
                cur = stack.pop()
            else:
                out = cur
            i += step
        elif s[i] == '"':
            j = i + 1
            buf = []
            while s[j] != '"':
                if s[j] == '\\':
                    j += 1
                buf.append(s[j]); j += 1
            cur.append("".join(buf)); i = j + 1
        elif s[i] in "-0123456789":
            j = i + 1
            while j < n and s[j].isdigit():
                j += 1
            cur.append(int(s[i:j])); i = j
        elif s.startswith("TRUE", i):
            cur.append(True); i += 4
        elif s.startswith("FALSE", i):
            cur.append(False); i += 5
        else:
            i += 1
    return out


def run(spec, cfg=None, workers="auto", env=None, timeout=1800, simulate=None, depth=None,
        seed=None, coverage=False, deadlock=None, extra=(), dfs=False, heap="8g", cwd=None):
    """Run TLC on spec (module name or file under spec dir) with cfg. Returns TLCResult."""
    cwd = cwd or SPEC_DIR
    spec_file = spec if spec.endswith(".tla") else spec + ".tla"
    cfg = cfg or (spec_file[:-4] + ".cfg")
    meta = tempfile.mkdtemp(prefix="tlcmeta_")
    jopts = ["-XX:+UseParallelGC", "-Xmx" + heap, "-Xss64m", "-Djava.io.tmpdir=" + meta]
    if dfs:
        jopts.append("-Dtlc2.tool.queue.IStateQueue=StateDeque")
    cmd = ["java"] + jopts + ["-cp", JAR, "tlc2.TLC", "-metadir", meta, "-noGenerateSpecTE",
                              "-config", cfg, "-workers", str(workers)]
    if simulate is not None:
        cmd += ["-simulate", simulate]
    if depth is not None:
        cmd += ["-depth", str(depth)]
    if seed is not None:
        cmd += ["-seed", str(seed)]
    if coverage:
        cmd += ["-coverage", "1"]
    if deadlock is False:
        cmd += ["-deadlock"]
    cmd += list(extra) + [spec_file]
    e = dict(os.environ)
    e.pop("JAVA_TOOL_OPTIONS", None)
    if env:
        e.update({k: str(v) for k, v in env.items()})
    r = TLCResult()
    r.cmd = " ".join(cmd)
    t0 = time.time()
    try:
        p = subprocess.run(cmd, cwd=cwd, env=e, stdout=subprocess.PIPE, stderr=subprocess.STDOUT,
                           timeout=timeout, text=True, errors="replace")
    except subprocess.TimeoutExpired as ex:
        shutil.rmtree(meta, ignore_errors=True)
        subprocess.run(["pkill", "-f", meta], check=False)
        raise TLCFailure("TLC timeout after %ss: %s" % (timeout, r.cmd))
    finally:
        shutil.rmtree(meta, ignore_errors=True)
    r.wall = time.time() - t0
    r.raw = p.stdout
    _parse(r, p.stdout, p.returncode)
    return r


_MSG_PREFIXES = ("TLC2 ", "Running ", "Parsing file", "Semantic processing", "Starting...", "Computing ",
                 "Finished ", "Model checking completed", "Progress(", "The depth of", "Warning:",
                 "Implied-temporal", "Checking ", "Finished in", "Semantic errors", "Generating ",
                 "The number of states generated", "Simulation using", "The coverage statistics",
                 "End of statistics", "Linting of module", "  calculated (optimistic)",
                 "  based on the actual", "Picked up JAVA", "Computed ", "Initializing ", "Loading ")


def _parse(r, out, rc):
    lines = out.splitlines()
    in_cov = False
    err_lines = []
    in_err = False
    # join TLC's multi-line pretty-printed tuples (PrintT output) into single lines
    joined, buf, bal = [], None, 0
    for ln in lines:
        st0 = ln.strip()
        if buf is None:
            if st0.startswith("<<") and st0.count("<<") != st0.count(">>"):
                buf = [st0]; bal = st0.count("<<") - st0.count(">>")
            else:
                joined.append(ln)
        else:
            buf.append(st0); bal += st0.count("<<") - st0.count(">>")
            if bal <= 0:
                joined.append(" ".join(buf)); buf = None
    if buf is not None:
        joined.extend(buf)
    lines = joined
    for ln in lines:
        s = ln.rstrip("\n")
        m = re.match(r"^(\d+) states generated, (\d+) distinct states found", s)
        if m:
            r.generated = int(m.group(1)); r.distinct = int(m.group(2)); continue
        m = re.match(r"^The depth of the complete state graph search is (\d+)", s)
        if m:
            r.depth = int(m.group(1)); continue
        m = re.match(r"^Error: Invariant (\S+) is violated", s)
        if m:
            r.violated = m.group(1)
        m2 = re.match(r"^Error: Action property (\S+) is violated", s)
        if m2:
            r.violated = m2.group(1)
        if re.match(r"^Error: Temporal properties were violated", s):
            r.violated = r.violated or "TemporalProperty"
        if s.startswith("Error:"):
            in_err = True
        if in_err:
            err_lines.append(s)
            if len(err_lines) > 60:
                in_err = False
        m = re.match(r"^<(\w+) line \d+, col \d+ to line \d+, col \d+ of module (\w+)>: (\d+):(\d+)", s)
        if m:
            r.coverage[m.group(1)] = (int(m.group(3)), int(m.group(4)))
            continue
        st = s.strip()
        if st.startswith('"{') or st.startswith('"['):
            try:
                inner = json.loads(st)
                r.json.append(json.loads(inner))
                continue
            except Exception:
                pass
        if st.startswith("<<") and st.endswith(">>"):
            try:
                r.tuples.append(_parse_tuple(st)); continue
            except Exception:
                pass
        if st and not st.startswith(_MSG_PREFIXES) and not st.startswith("@!@!@"):
            r.prints.append(st)
    if err_lines:
        r.error = "\n".join(err_lines[:60])
    r.ok = (rc == 0 and r.error is None)
    if not r.ok and r.violated is None and r.error is None:
        r.error = "TLC exit code %d\n%s" % (rc, "\n".join(lines[-30:]))
    return r


def must_pass(r, what=""):
    """Raise TLCFailure if the run failed for a reason other than a property violation."""
    if r.ok:
        return r
    if r.violated:
        return r
    raise TLCFailure("TLC failed %s: %s\ncmd: %s" % (what, r.error, r.cmd))


def sany(spec, cwd=None):
    cwd = cwd or SPEC_DIR
    p = subprocess.run(["java", "-cp", JAR, "tla2sany.SANY", spec], cwd=cwd, stdout=subprocess.PIPE,
                       stderr=subprocess.STDOUT, text=True)
    return p.returncode == 0 and "Semantic errors" not in p.stdout and "***Parse Error***" not in p.stdout, p.stdout
