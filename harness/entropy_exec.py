"""Executes C08 programs against the real library and logs, per operation, which entropy sources changed state and a
digest of the result.  Run in-process (copy A) and as a subprocess (copy B: other hash seed, other prior history):

    python -m harness.entropy_exec <programs.json> <out.json> <variant>

The executor itself never draws from a global stream (all data are fixed arrays)."""
import hashlib, importlib, json, os, random, sys

import numpy as np


def _sha(b):
    return hashlib.sha1(b).hexdigest()[:16]


def canon(o):
    """canonical bytes of a result"""
    import pandas
    if isinstance(o, np.ndarray):
        if o.dtype == object:
            return b"O" + repr(o.tolist()).encode()
        return str(o.dtype).encode() + repr(o.shape).encode() + np.ascontiguousarray(o).tobytes()
    if isinstance(o, pandas.DataFrame):
        return o.to_csv(float_format="%.17g").encode()
    if isinstance(o, (list, tuple)):
        return b"[" + b"|".join(canon(x) for x in o) + b"]"
    if isinstance(o, dict):
        return b"{" + b"|".join(repr(k).encode() + b":" + canon(o[k]) for k in sorted(o)) + b"}"
    if isinstance(o, (float, np.floating)):
        return repr(float(o)).encode()
    return repr(o).encode()


def gstate():
    return _sha(repr(random.getstate()).encode()), _sha(repr(np.random.get_state()).encode())


def genstate(g):
    if g is None:
        return "none"
    st = g.bit_generator.state if hasattr(g, "bit_generator") else g.get_state()
    return _sha(repr(st).encode())


# ---------------------------------------------------------------- fixed environment (no global randomness)
class Env:
    def __init__(self):
        from pybrops.popgen.gmat.DensePhasedGenotypeMatrix import DensePhasedGenotypeMatrix
        from pybrops.popgen.bvmat.DenseBreedingValueMatrix import DenseBreedingValueMatrix
        from pybrops.model.gmod.DenseAdditiveLinearGenomicModel import DenseAdditiveLinearGenomicModel
        r = random.Random(987654321)                      # local instance: global streams untouched
        n, L, T = 8, 10, 2
        ph = np.array([[[r.randrange(2) for _ in range(L)] for _ in range(n)] for _ in range(2)], dtype="int8")
        names = np.array(["e%02d" % i for i in range(n)], dtype=object)
        chrgrp = np.array([1] * 5 + [2] * 5, dtype="int64")
        self.pg = DensePhasedGenotypeMatrix(ph, taxa=names, taxa_grp=np.array([i % 3 for i in range(n)], dtype="int64"), vrnt_chrgrp=chrgrp,
                                            vrnt_phypos=np.arange(1, L + 1, dtype="int64"), vrnt_name=np.array(["m%d" % j for j in range(L)], dtype=object),
                                            vrnt_genpos=np.array([0.0, 0.2, 0.4, 0.6, 0.8] * 2), vrnt_xoprob=np.array([0.5, 0.2, 0.2, 0.2, 0.2] * 2))
        self.pg.group_vrnt()
        u = np.array([[r.choice([-2, -1, 1, 2]) for _ in range(T)] for _ in range(L)], dtype=float)
        trait = np.array(["y0", "y1"], dtype=object)
        self.gm = DenseAdditiveLinearGenomicModel(beta=np.array([[10.0, 20.0]]), u_misc=None, u_a=u, trait=trait)
        raw = np.array([[r.randrange(-5, 9) for _ in range(T)] for _ in range(n)], dtype=float)
        self.bv = DenseBreedingValueMatrix.from_numpy(raw, taxa=names, taxa_grp=None, trait=trait)
        self.n = n
        self.pg5 = self.pg.select_taxa(np.arange(5))          # small population for the O(n^k) matrices
        # clustered map positions: equal-width haplotype bins stay empty (surplus blocks must be zero, not leftovers)
        self.pgc = DensePhasedGenotypeMatrix(ph.copy(), taxa=names.copy(), taxa_grp=np.zeros(n, dtype="int64"), vrnt_chrgrp=chrgrp.copy(),
                                             vrnt_phypos=np.arange(1, L + 1, dtype="int64"), vrnt_genpos=np.array([0.0, 0.0, 0.0, 0.9, 0.9] * 2),
                                             vrnt_xoprob=np.array([0.5, 0.0, 0.0, 0.3, 0.0] * 2))
        self.pgc.group_vrnt()


def _quad(n=7, k=3, two=False):
    from .drivers.c06 import _mk_subset_problem
    Q = _mk_subset_problem()
    a = [1, -2, 3, 0, -1, 2, -3][:n]
    b = [[(abs(i - j) % 3) if i != j else 0 for j in range(n)] for i in range(n)]
    return Q(list(range(n)), k, a, b, [0] * n, None, a2=[3, 1, -1, 2, 0, -2, 1][:n] if two else None)


def _vec(vt, two=False):
    from .drivers.c06 import _mk_vector_problem
    return _mk_vector_problem(vt)([0, 0, 0, 0], [1, 1, 1, 1] if vt == "bin" else [5, 4, 6, 3], [2, -3, 1, -1], [0] * 4, None,
                                  d2=[-1, 2, -2, 1] if two else None)


def _algo(name, rng, **kw):
    mod = kw.pop("mod", name)
    cls = getattr(importlib.import_module("pybrops.opt.algo." + mod), name)
    try:
        return cls(ngen=3, pop_size=8, rng=rng)
    except TypeError:
        return cls(rng=rng)


def _soln(s):
    return [np.asarray(s.soln_decn), np.asarray(s.soln_obj)]


def _mate(proto, npar, via_setter=False):
    def fn(env, rng):
        cls = getattr(importlib.import_module("pybrops.breed.prot.mate." + proto), proto)
        xc = np.array([[(i + j) % env.n for j in range(npar)] for i in range(3)], dtype="int64")
        if via_setter:
            # the generator is assigned through the public rng property AFTER construction (the object was built on another one)
            prot = cls(progeny_counter=0, family_counter=0, rng=np.random.default_rng(12345)); prot.rng = rng
        else:
            prot = cls(progeny_counter=0, family_counter=0, rng=rng)
        out = prot.mate(env.pg, xc, 1, 2, nself=1)
        return [np.asarray(out.mat), np.asarray(out.taxa), np.asarray(out.taxa_grp)]
    return fn


def _xcfg(enc):
    def fn(env, rng):
        cls = getattr(importlib.import_module("pybrops.breed.prot.sel.cfg.%sSelectionConfiguration" % enc), "%sSelectionConfiguration" % enc)
        decn = {"Subset": np.array([1, 4, 6, 2, 7]), "Integer": np.array([0, 2, 1, 0, 3, 0, 1, 0]), "Binary": np.array([1, 0, 1, 1, 0, 0, 1, 0]),
                "Real": np.array([0.1, 0.0, 0.4, 0.2, 0.0, 0.3, 0.0, 0.5])}[enc]
        return np.asarray(cls(ncross=3, nparent=2, nmating=1, nprogeny=1, pgmat=env.pg, xconfig_decn=decn, rng=rng).xconfig)
    return fn


def _select(stem, mod, soalgo, **extra):
    def fn(env, rng):
        cls = getattr(importlib.import_module("pybrops.breed.prot.sel." + mod), stem)
        so = soalgo(rng) if soalgo else None
        pr = cls(ncross=2, nparent=2, nmating=1, nprogeny=1, nobj=1, ntrait=2, obj_trans=_tsum, obj_trans_kwargs={}, soalgo=so, rng=rng, **extra)
        cfg = pr.select(pgmat=env.pg, gmat=env.pg, ptdf=None, bvmat=env.bv, gpmod=env.gm, t_cur=0, t_max=1, miscout=None)
        return [np.asarray(cfg.xconfig_decn), np.asarray(cfg.xconfig)]
    return fn


def _tsum(decnvec, latentvec, **kwargs):
    return np.array([latentvec.sum()])


def _sampling(name):
    def fn(env, rng):
        S = importlib.import_module("pybrops.core.random.sampling")
        if name == "tiled_choice":
            return S.tiled_choice(np.arange(5), size=7, replace=False, rng=rng)
        if name == "sus":
            return S.stochastic_universal_sampling(np.arange(4), np.array([1.0, 2.0, 3.0, 4.0]), size=6, rng=rng)
        if name == "axis_shuffle":
            a = np.arange(12).reshape(3, 4); S.axis_shuffle(a, 0, rng=rng); return a
        a = np.array([[0, 0], [1, 1], [2, 2], [0, 1]]); S.outcross_shuffle(a, rng=rng); return a
    return fn


def _pheno_set(env, rng):
    """the protocol's generator is assigned through the rng property after construction (built with the default, or with another one)"""
    from pybrops.breed.prot.pt.G_E_Phenotyping import G_E_Phenotyping
    prot = G_E_Phenotyping(env.gm, nenv=2, nrep=2, var_env=1.0, var_rep=0.5, var_err=2.0) if rng is not None else \
        G_E_Phenotyping(env.gm, nenv=2, nrep=2, var_env=1.0, var_rep=0.5, var_err=2.0, rng=np.random.default_rng(777))
    prot.rng = rng
    return prot.phenotype(env.pg)


def _climb_set(env, rng):
    alg = _algo("SteepestDescentSubsetHillClimber", np.random.default_rng(4242)); alg.rng = rng
    return _soln(alg.minimize(_quad()))


def _pheno(env, rng):
    from pybrops.breed.prot.pt.G_E_Phenotyping import G_E_Phenotyping
    return G_E_Phenotyping(env.gm, nenv=2, nrep=2, var_env=1.0, var_rep=0.5, var_err=2.0, rng=rng).phenotype(env.pg)


def _prng(env, rng):
    import pybrops.core.random.prng as prng
    return [prng.normal(size=3), prng.choice(5, 2), prng.uniform(0, 1, 2)]


def _jitter(env, rng):
    from pybrops.popgen.cmat.DenseMolecularCoancestryMatrix import DenseMolecularCoancestryMatrix
    cm = DenseMolecularCoancestryMatrix.from_gmat(env.pg)
    cm.mat = np.zeros_like(cm.mat)          # singular: jitter has to be applied
    cm.apply_jitter()
    return np.asarray(cm.mat)


def _dense(which):
    def fn(env, rng):
        M = importlib.import_module("pybrops.core.util.mate")
        import pybrops.core.random.prng as prng
        g = rng if rng is not None else prng.global_prng          # these helpers have no default: the caller passes the global generator
        geno = np.asarray(env.pg.mat); xo = np.asarray(env.pg.vrnt_xoprob)
        if which == "meiosis":
            return M.dense_meiosis(geno, np.array([0, 3, 3, 5]), xo, g)
        if which == "dh":
            return M.dense_dh(geno, np.array([1, 1, 6]), xo, g)
        return M.dense_cross(geno, geno, np.array([0, 2, 4]), np.array([1, 3, 5]), xo, g)
    return fn


def _embvmat(env, rng):
    from pybrops.model.embvmat.DenseExpectedMaximumBreedingValueMatrix import DenseExpectedMaximumBreedingValueMatrix as E
    return np.asarray(E.from_gmod(env.gm, env.pg, 3, 2).mat)


def _xcfg_mate(enc):
    def fn(env, rng):
        from pybrops.core.util.array import xmapix
        cls = getattr(importlib.import_module("pybrops.breed.prot.sel.cfg.%sMateSelectionConfiguration" % enc), "%sMateSelectionConfiguration" % enc)
        xm = np.array(list(xmapix(5, 2, True)), dtype="int64")
        decn = {"Subset": np.array([1, 4, 6]), "Integer": np.array([0, 2, 1, 0, 3, 0, 1, 0, 0, 1]), "Binary": np.array([1, 0, 1, 1, 0, 0, 1, 0, 0, 1]),
                "Real": np.array([0.1, 0.0, 0.4, 0.2, 0.0, 0.3, 0.0, 0.5, 0.2, 0.0])}[enc]
        return np.asarray(cls(ncross=4, nparent=2, nmating=1, nprogeny=1, pgmat=env.pg, xconfig_decn=decn, xconfig_xmap=xm, rng=rng).xconfig)
    return fn


def _pure(which):
    """deterministic computations: they may consume no entropy source at all (in particular not the content of
    uninitialised memory)"""
    def fn(env, rng):
        from pybrops.popgen.gmap.HaldaneMapFunction import HaldaneMapFunction
        if which.startswith("vmat:"):
            name = which[5:]
            pkg = "pybrops.model.pcvmat." if "Progeny" in name else "pybrops.model.vmat."
            cls = getattr(importlib.import_module(pkg + name), name)
            if "Genic" in name:
                return np.asarray(cls.from_algmod(env.gm, env.pg5, 10, 2).mat)
            return np.asarray(cls.from_algmod(env.gm, env.pg5, 1, 10, 1, HaldaneMapFunction(), 2).mat)
        if which.startswith("cmat:"):
            name = which[5:]
            cls = getattr(importlib.import_module("pybrops.popgen.cmat." + name), name)
            return np.asarray(cls.from_gmat(env.pg).mat)
        if which == "ohv":
            from pybrops.breed.prot.sel.prob.OptimalHaploidValueSelectionProblem import OptimalHaploidValueSubsetSelectionProblem as O
            hm = O._calc_haplomat(env.pg, env.gm, 4); xm = O._calc_xmap(env.n, 2, True)
            hc = O._calc_haplomat(env.pgc, env.gm, 6)
            return [np.asarray(hm), np.asarray(O._calc_ohvmat(2, hm, xm, mem=3)), np.asarray(hc), np.asarray(O._calc_ohvmat(2, hc, xm, mem=None))]
        if which == "uc":
            from pybrops.breed.prot.sel.prob.UsefulnessCriterionSelectionProblem import UsefulnessCriterionSubsetSelectionProblem as U
            from pybrops.model.vmat.fcty.DenseTwoWayDHAdditiveGeneticVarianceMatrixFactory import DenseTwoWayDHAdditiveGeneticVarianceMatrixFactory as F
            xm = U._calc_xmap(5, 2, True)
            return np.asarray(U._calc_uc(1, 2, 1, 0.1, F(), HaldaneMapFunction(), True, env.pg5, env.gm, xm)) if hasattr(U, "_calc_uc") else None
        if which == "model":
            g = env.gm
            return [np.asarray(g.gebv(env.pg).mat), np.asarray(g.usl(env.pg)), np.asarray(g.lsl(env.pg)), np.asarray(g.var_A(env.pg)), np.asarray(g.facount(env.pg))]
        if which == "genostats":
            p = env.pg
            return [np.asarray(p.afreq()), np.asarray(p.maf()), np.asarray(p.gtcount()), np.asarray(p.meh()), np.asarray(p.mat_asformat("{0,1,2}"))]
        if which == "xoprob":
            from pybrops.popgen.gmap.StandardGeneticMap import StandardGeneticMap
            import copy
            q = copy.deepcopy(env.pg)
            gm = StandardGeneticMap(vrnt_chrgrp=np.asarray(q.vrnt_chrgrp), vrnt_phypos=np.asarray(q.vrnt_phypos), vrnt_genpos=np.asarray(q.vrnt_genpos) * 1.5)
            q.interp_xoprob(gm, HaldaneMapFunction())
            return [np.asarray(q.vrnt_genpos), np.asarray(q.vrnt_xoprob)]
        raise KeyError(which)
    return fn


def _twdh(rng):
    from pybrops.breed.prot.mate.TwoWayDHCross import TwoWayDHCross
    return TwoWayDHCross(rng=rng)


def _memetic(name):
    return lambda env, rng: _soln(_algo(name, rng, mod="NSGA2MemeticSubsetGeneticAlgorithm").minimize(_quad(two=True)))


def prebuild(env):
    """objects that exist BEFORE the re-seeding (part of "whatever was executed before"): stochastic components built with
    the default generator, and shallow / deep copies of them; the calls below use them after the seeding"""
    import copy
    from pybrops.breed.prot.pt.G_E_Phenotyping import G_E_Phenotyping
    from pybrops.breed.prot.mate.TwoWayCross import TwoWayCross
    from pybrops.breed.prot.mate.TwoWayDHCross import TwoWayDHCross
    from pybrops.breed.prot.sel.EstimatedBreedingValueSelection import EstimatedBreedingValueSubsetSelection
    pre = {}
    pre["pheno"] = G_E_Phenotyping(env.gm, nenv=2, nrep=2, var_env=1.0, var_rep=0.5, var_err=2.0)
    pre["mate2w"] = TwoWayCross(progeny_counter=0, family_counter=0)
    pre["mate2wdh"] = TwoWayDHCross(progeny_counter=0, family_counter=0)
    pre["climber"] = _algo("SteepestDescentSubsetHillClimber", None)
    pre["selebv"] = EstimatedBreedingValueSubsetSelection(ncross=2, nparent=2, nmating=1, nprogeny=1, nobj=1, ntrait=2, obj_trans=_tsum,
                                                          obj_trans_kwargs={}, soalgo=_algo("SortingSubsetOptimizationAlgorithm", None), unscale=True)
    for k in list(pre):
        pre[k + ":deepcopy"] = copy.deepcopy(pre[k])
        pre[k + ":copy"] = copy.copy(pre[k])
    # a configuration whose decision names exactly as many individuals as there are slots (one complete set, no remainder),
    # sampled again and again, and an option array handed to tiled_choice again and again
    from pybrops.breed.prot.sel.cfg.SubsetSelectionConfiguration import SubsetSelectionConfiguration
    pre["xcfg_exact"] = SubsetSelectionConfiguration(ncross=3, nparent=2, nmating=1, nprogeny=1, pgmat=env.pg, xconfig_decn=np.array([1, 4, 6, 2, 7, 0]))
    pre["options"] = np.arange(10, 18)
    # a phenotyping protocol that was saved and read back (no generator given: it is bound to the library's global generator)
    import tempfile, os
    fd, fn = tempfile.mkstemp(suffix=".h5"); os.close(fd)
    try:
        pre["pheno"].to_hdf5(fn, "prot")
        pre["pheno_h5"] = G_E_Phenotyping.from_hdf5(fn, "prot", gpmod=env.gm)
    finally:
        os.remove(fn)
    env.pre = pre


def _preobj(key, how):
    def fn(env, rng):
        o = env.pre[key + how]
        if key == "xcfg_exact":
            return [np.asarray(o.sample_xconfig(return_xconfig=True)).copy(), np.asarray(o.xconfig_decn).copy()]
        if key == "options":
            from pybrops.core.random.sampling import tiled_choice
            return [np.asarray(tiled_choice(o, (4, 2), False, None, rng)).copy(), o.copy()]
        if key in ("pheno", "pheno_h5"):
            return o.phenotype(env.pg)
        if key.startswith("mate"):
            o.progeny_counter = 0; o.family_counter = 0
            xc = np.array([[i % env.n, (i + 1) % env.n] for i in range(3)], dtype="int64")
            out = o.mate(env.pg, xc, 1, 2, nself=1)
            return [np.asarray(out.mat), np.asarray(out.taxa), np.asarray(out.taxa_grp)]
        if key == "climber":
            return _soln(o.minimize(_quad()))
        cfg = o.select(pgmat=env.pg, gmat=env.pg, ptdf=None, bvmat=env.bv, gpmod=env.gm, t_cur=0, t_max=1, miscout=None)
        return [np.asarray(cfg.xconfig_decn), np.asarray(cfg.xconfig)]
    return fn


OPS = {
    # name: (kind, function, accepts an explicit generator)
    "tiled_choice": ("lib", _sampling("tiled_choice"), True),
    "sus": ("lib", _sampling("sus"), True),
    "axis_shuffle": ("lib", _sampling("axis_shuffle"), True),
    "outcross_shuffle": ("lib", _sampling("outcross_shuffle"), True),
    "mate_self": ("lib", _mate("SelfCross", 1), True),
    "mate_2w": ("lib", _mate("TwoWayCross", 2), True),
    "mate_2wdh": ("lib", _mate("TwoWayDHCross", 2), True),
    "mate_3w": ("lib", _mate("ThreeWayCross", 3), True),
    "mate_3wdh": ("lib", _mate("ThreeWayDHCross", 3), True),
    "mate_4w": ("lib", _mate("FourWayCross", 4), True),
    "mate_4wdh": ("lib", _mate("FourWayDHCross", 4), True),
    "phenotype": ("lib", _pheno, True),
    "phenotype_rng_assigned_later": ("lib", _pheno_set, True),
    "mate_2w_rng_assigned_later": ("lib", _mate("TwoWayCross", 2, True), True),
    "mate_3wdh_rng_assigned_later": ("lib", _mate("ThreeWayDHCross", 3, True), True),
    "hillclimb_rng_assigned_later": ("lib", _climb_set, True),
    "xcfg_subset": ("lib", _xcfg("Subset"), True),
    "xcfg_integer": ("lib", _xcfg("Integer"), True),
    "xcfg_binary": ("lib", _xcfg("Binary"), True),
    "xcfg_real": ("lib", _xcfg("Real"), True),
    "hillclimb": ("lib", lambda env, rng: _soln(_algo("SteepestDescentSubsetHillClimber", rng).minimize(_quad())), True),
    "prng_wrappers": ("lib", _prng, False),
    "jitter": ("lib", _jitter, False),
    "select_ebv_sorting": ("select", _select("EstimatedBreedingValueSubsetSelection", "EstimatedBreedingValueSelection",
                                              lambda rng: _algo("SortingSubsetOptimizationAlgorithm", None), unscale=True), True),
    "select_gebv_climber": ("select", _select("GenomicEstimatedBreedingValueSubsetSelection", "GenomicEstimatedBreedingValueSelection",
                                               lambda rng: _algo("SteepestDescentSubsetHillClimber", rng), unscale=True), True),
    "select_random": ("select", _select("RandomSubsetSelection", "RandomSelection", lambda rng: _algo("SortingSubsetOptimizationAlgorithm", None)), True),
    "ga_subset": ("pymoo", lambda env, rng: _soln(_algo("SubsetGeneticAlgorithm", rng).minimize(_quad())), True),
    "ga_integer": ("pymoo", lambda env, rng: _soln(_algo("IntegerGeneticAlgorithm", rng).minimize(_vec("int"))), True),
    "ga_binary": ("pymoo", lambda env, rng: _soln(_algo("BinaryGeneticAlgorithm", rng).minimize(_vec("bin"))), True),
    "ga_real": ("pymoo", lambda env, rng: _soln(_algo("RealGeneticAlgorithm", rng).minimize(_vec("real"))), True),
    "nsga2_subset": ("pymoo", lambda env, rng: _soln(_algo("NSGA2SubsetGeneticAlgorithm", rng).minimize(_quad(two=True))), True),
    "nsga3_subset": ("pymoo", lambda env, rng: _soln(_algo("NSGA3SubsetGeneticAlgorithm", rng).minimize(_quad(two=True))), True),
    "nsga2_integer": ("pymoo", lambda env, rng: _soln(_algo("NSGA2IntegerGeneticAlgorithm", rng).minimize(_vec("int", two=True))), True),
    "nsga2_real": ("pymoo", lambda env, rng: _soln(_algo("NSGA2RealGeneticAlgorithm", rng).minimize(_vec("real", two=True))), True),
    "nsga2_binary": ("pymoo", lambda env, rng: _soln(_algo("NSGA2BinaryGeneticAlgorithm", rng).minimize(_vec("bin", two=True))), True),
    "memetic_subset": ("pymoo", lambda env, rng: _soln(_algo("NSGA2MutatorASubsetGeneticAlgorithm", rng, mod="NSGA2MemeticSubsetGeneticAlgorithm").minimize(_quad(two=True))), True),
    "dense_meiosis": ("lib", _dense("meiosis"), True),
    "dense_dh": ("lib", _dense("dh"), True),
    "dense_cross": ("lib", _dense("cross"), True),
    "embv_matrix": ("lib", _embvmat, False),
    "xcfg_mate_subset": ("lib", _xcfg_mate("Subset"), True),
    "xcfg_mate_integer": ("lib", _xcfg_mate("Integer"), True),
    "xcfg_mate_binary": ("lib", _xcfg_mate("Binary"), True),
    "xcfg_mate_real": ("lib", _xcfg_mate("Real"), True),
    "sorting_climber": ("lib", lambda env, rng: _soln(_algo("SortingSteepestDescentSubsetHillClimber", rng).minimize(_quad())), False),
    "memetic_steepest": ("pymoo", _memetic("NSGA2SteepestDescentSubsetGeneticAlgorithm"), True),
    "memetic_stochastic": ("pymoo", _memetic("NSGA2StochasticDescentSubsetGeneticAlgorithm"), True),
    "memetic_b": ("pymoo", _memetic("NSGA2MutatorBSubsetGeneticAlgorithm"), True),
    "pure_vmat_2w": ("pure", _pure("vmat:DenseTwoWayDHAdditiveGeneticVarianceMatrix"), False),
    "pure_vmat_2w_genic": ("pure", _pure("vmat:DenseTwoWayDHAdditiveGenicVarianceMatrix"), False),
    "pure_vmat_3w": ("pure", _pure("vmat:DenseThreeWayDHAdditiveGeneticVarianceMatrix"), False),
    "pure_vmat_3w_genic": ("pure", _pure("vmat:DenseThreeWayDHAdditiveGenicVarianceMatrix"), False),
    "pure_vmat_4w": ("pure", _pure("vmat:DenseFourWayDHAdditiveGeneticVarianceMatrix"), False),
    "pure_vmat_dihybrid": ("pure", _pure("vmat:DenseDihybridDHAdditiveGeneticVarianceMatrix"), False),
    "pure_pcvmat_2w": ("pure", _pure("vmat:DenseTwoWayDHAdditiveProgenyGeneticCovarianceMatrix"), False),
    "pure_pcvmat_dihybrid": ("pure", _pure("vmat:DenseDihybridDHAdditiveProgenyGeneticCovarianceMatrix"), False),
    "pure_cmat_molecular": ("pure", _pure("cmat:DenseMolecularCoancestryMatrix"), False),
    "pure_cmat_vanraden": ("pure", _pure("cmat:DenseVanRadenCoancestryMatrix"), False),
    "pure_cmat_yang": ("pure", _pure("cmat:DenseYangCoancestryMatrix"), False),
    "pure_ohv": ("pure", _pure("ohv"), False),
    "pure_model": ("pure", _pure("model"), False),
    "pure_genostats": ("pure", _pure("genostats"), False),
    "pure_xoprob": ("pure", _pure("xoprob"), False),
    "pre_pheno": ("lib", _preobj("pheno", ""), False),
    "pre_pheno_deepcopied": ("lib", _preobj("pheno", ":deepcopy"), False),
    "pre_pheno_copied": ("lib", _preobj("pheno", ":copy"), False),
    "pre_mate2w": ("lib", _preobj("mate2w", ""), False),
    "pre_mate2w_deepcopied": ("lib", _preobj("mate2w", ":deepcopy"), False),
    "pre_mate2w_copied": ("lib", _preobj("mate2w", ":copy"), False),
    "pre_mate2wdh_deepcopied": ("lib", _preobj("mate2wdh", ":deepcopy"), False),
    "pre_climber_deepcopied": ("lib", _preobj("climber", ":deepcopy"), False),
    "pre_climber_copied": ("lib", _preobj("climber", ":copy"), False),
    "pre_selebv_deepcopied": ("select", _preobj("selebv", ":deepcopy"), False),
    "pre_selebv_copied": ("select", _preobj("selebv", ":copy"), False),
    "pre_pheno_from_hdf5": ("lib", _preobj("pheno_h5", ""), False),
    "pre_xcfg_resample": ("lib", _preobj("xcfg_exact", ""), False),
    "pre_tiled_exact_fit": ("lib", _preobj("options", ""), True),
    "select_embv": ("select", lambda env, rng: _select("ExpectedMaximumBreedingValueSubsetSelection", "ExpectedMaximumBreedingValueSelection",
                                                      lambda r: _algo("SortingSubsetOptimizationAlgorithm", None), nrep=2,
                                                      mateprot=_twdh(rng), unique_parents=True)(env, rng), True),
    "select_ebv_ga": ("pymoo", _select("EstimatedBreedingValueIntegerSelection", "EstimatedBreedingValueSelection",
                                        lambda rng: _algo("IntegerGeneticAlgorithm", rng), unscale=True), True),
}


def poison(variant, k):
    """uninitialised memory is a hidden entropy source: before every call the heap's free lists are filled with
    copy-specific garbage, so that a result computed from numpy.empty() leftovers differs between the twin interpreters"""
    val = 0.0 if variant == "A" else 1e5 + 17.0 * k
    # numpy keeps freed blocks of up to 1024 bytes in per-size buckets (16-byte steps, 7 blocks each); larger blocks go
    # back to malloc's free lists
    junk = [np.full(sz, val) for sz in range(1, 131) for _ in range(8)]
    junk += [np.full(sz, val) for sz in (160, 200, 256, 300, 400, 512, 700, 1024, 1500, 2048, 4096) for _ in range(3)]
    del junk


def noise(variant, env):
    """prior history of the interpreter: arbitrary use of the global streams (and of the library) before re-seeding"""
    import pybrops.core.random.prng as prng
    if variant == "A":
        return
    if variant == "A2":
        # copy A's own kind of history (never the same as copy B's: the two interpreters must not reach the program with
        # equal global states by accident)
        np.random.random(2); random.random()
        prng.seed(77); prng.spawn(1); np.random.standard_normal(4)
        OPS["mate_2wdh"][1](env, None)
        return
    random.random(); random.getrandbits(70); np.random.random(5); np.random.standard_normal(3)
    prng.seed(99); prng.spawn(2)
    OPS["mate_2w"][1](env, None); OPS["ga_subset"][1](env, None); OPS["xcfg_real"][1](env, None)
    random.shuffle(list(range(9))); np.random.permutation(7)


def execute(programs, variant):
    import pybrops.core.random.prng as prng
    env = Env()
    out = []
    for pi, prog in enumerate(programs):
        if variant == "B" or pi % 2:
            noise(variant if variant == "B" else "A2" if pi % 4 == 1 else "A", env)
        prebuild(env)
        if variant == "B":
            # "whatever was executed before": in this copy every call of the program has already been made once (any
            # state a call leaves behind in the process -- caches, module-level tables -- is then part of the history)
            for nm in sorted({op["name"] for op in prog if op["op"] == "call"}):
                try:
                    with np.errstate(all="ignore"):
                        OPS[nm][1](env, None)
                except Exception:
                    pass
        gens = {}
        evs = []
        for op in prog:
            g0 = gstate(); s0 = {k: genstate(v) for k, v in gens.items()}
            ev = {"op": op["op"], "rng": op.get("rng", "none"), "name": op.get("name", op["op"]), "err": None}
            try:
                if op["op"] == "seed":
                    prng.seed(op["s"]); res = None
                elif op["op"] == "newgen":
                    s = op["s"]
                    gens[op["g"]] = np.random.default_rng(s) if s % 2 else np.random.RandomState(s); res = None
                elif op["op"] == "spawn":
                    gens[op["g"]] = prng.spawn(); res = None
                else:
                    kind, fn, _ = OPS[op["name"]]
                    poison(variant, len(evs))
                    with np.errstate(all="ignore"):
                        res = fn(env, gens[op["rng"]] if op["rng"] != "none" else None)
                ev["dig"] = _sha(canon(res)) if res is not None else "-"
            except Exception as e:                                   # noqa: BLE001
                ev["err"] = "%s: %s" % (type(e).__name__, str(e)[:200]); ev["dig"] = "!"
            g1 = gstate(); s1 = {k: genstate(v) for k, v in gens.items()}
            touched = [n for n, a, b in (("py", g0[0], g1[0]), ("np", g0[1], g1[1])) if a != b]
            touched += [k for k in sorted(gens) if k in s0 and s0[k] != s1[k]]
            ev["touched"] = touched; ev["glob"] = g1[0] + g1[1]
            ev["gst"] = {k: s1[k] for k in sorted(s1)}
            evs.append(ev)
        out.append(evs)
    return out


if __name__ == "__main__":
    sys.path.insert(0, os.path.dirname(os.path.dirname(os.path.abspath(__file__))))
    import harness.compat  # noqa: F401
    with open(sys.argv[1]) as f:
        progs = json.load(f)
    res = execute(progs, sys.argv[3])
    with open(sys.argv[2], "w") as f:
        json.dump(res, f)
