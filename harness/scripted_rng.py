"""Scripted / recording random sources accepted by pybrops' rng type checks."""
import numpy
from numpy.random import RandomState


class ScriptInapplicable(Exception):
    pass


class Scripted(RandomState):
    """RandomState whose uniform()/shuffle()/choice() follow callbacks; everything else is real."""
    def __init__(self, seed=0, uniform=None, shuffle=None, choice=None, on_shuffle=None, mvn=None):
        super().__init__(seed)
        self._u = uniform; self._s = shuffle; self._c = choice; self._on = on_shuffle; self._m = mvn
        self.log = []

    def uniform(self, low=0.0, high=1.0, size=None):
        self.log.append(("uniform", low, high, size))
        if self._u is None:
            return super().uniform(low, high, size)
        return self._u(low, high, size)

    def shuffle(self, x):
        self.log.append(("shuffle", len(x)))
        if self._on is not None:
            self._on(x)
        if self._s is None:
            return super().shuffle(x)
        return self._s(x)

    def choice(self, a, size=None, replace=True, p=None):
        self.log.append(("choice", size, replace))
        if self._c is None:
            return super().choice(a, size, replace, p)
        return self._c(a, size, replace, p)

    def multivariate_normal(self, mean, cov, size=None, *a, **k):
        self.log.append(("multivariate_normal", [float(x) for x in numpy.asarray(mean).ravel()],
                         [float(x) for x in numpy.asarray(cov).ravel()], size))
        if self._m is None:
            return super().multivariate_normal(mean, cov, size, *a, **k)
        return self._m(mean, cov, size)
