"""Check context: collects coverage, violations, known findings, writes evidence, decides exit code."""
import hashlib, json, os, sys, time, traceback

ROOT = os.path.dirname(os.path.dirname(os.path.abspath(__file__)))
# evidence goes to /verif/evidence; the self-tests, which run the checks against PATCHED copies of the repository, point this elsewhere
EVID = os.environ.get("VERIF_EVIDENCE_DIR") or os.path.join(ROOT, "evidence")
REPLAY = os.path.join(EVID, "replay")
KF_FILE = os.path.join(ROOT, "known_findings.json")


def _jsonable(o):
    import numpy
    if isinstance(o, dict):
        return {str(k): _jsonable(v) for k, v in o.items()}
    if isinstance(o, (list, tuple, set, frozenset)):
        return [_jsonable(v) for v in o]
    if isinstance(o, numpy.ndarray):
        return _jsonable(o.tolist())
    if isinstance(o, (numpy.integer,)):
        return int(o)
    if isinstance(o, (numpy.floating,)):
        return float(o)
    if isinstance(o, (numpy.bool_,)):
        return bool(o)
    if isinstance(o, bytes):
        return o.decode("utf8", "replace")
    if isinstance(o, float) and (o != o or o in (float("inf"), float("-inf"))):
        return repr(o)
    if isinstance(o, (str, int, float, bool)) or o is None:
        return o
    return repr(o)


class Ctx:
    def __init__(self, pid, tier, seed):
        self.pid = pid
        self.tier = tier
        self.seed = seed
        self.t0 = time.time()
        self.states = 0
        self.transitions = 0
        self.traces = 0          # traces / cases validated against the implementation
        self.evaluations = 0
        self.nontrivial = set()
        self.nontrivial_n = 0
        self.samples = []
        self.assumptions = []
        self.tlc_runs = []
        self.violations = []     # (key, what, replay)
        self.known_hit = {}      # key -> what
        self.extra = {}
        self.rule = ""
        self.exhaustive = False
        self.kf = self._load_kf()

    # ---- known findings
    def _load_kf(self):
        try:
            with open(KF_FILE) as f:
                d = json.load(f)
        except FileNotFoundError:
            return {}
        out = {}
        self.kf_rx = []
        import re
        for e in d.get("findings", []):
            if e.get("property") == self.pid and e.get("status") == "open":
                if "key_regex" in e:
                    self.kf_rx.append((re.compile(e["key_regex"]), e))
                else:
                    out[e["key"]] = e
        return out

    def is_known(self, key):
        return key in self.kf

    # ---- bookkeeping
    def add_tlc(self, r, name):
        self.states += r.distinct
        self.transitions += max(r.generated - 1, 0) if r.generated else 0
        self.tlc_runs.append({"name": name, "generated": r.generated, "distinct": r.distinct, "depth": r.depth,
                              "wall_s": round(r.wall, 2),
                              "coverage": {k: list(v) for k, v in list(r.coverage.items())[:40]}})

    def sample(self, s, cap=6):
        if len(self.samples) < cap:
            self.samples.append(_jsonable(s))

    def count(self, n=1, nontrivial_key=None):
        self.evaluations += n
        if nontrivial_key is not None:
            h = hash(nontrivial_key)
            if h not in self.nontrivial:
                self.nontrivial.add(h)

    def assume(self, *a):
        for x in a:
            if x not in self.assumptions:
                self.assumptions.append(x)

    def violation(self, key, what, detail=None):
        """Report a violation identified by key (site:clause). Known (listed open) findings are suppressed."""
        if key in self.kf:
            if key not in self.known_hit:
                self.known_hit[key] = what
            return False
        for rx, e in getattr(self, "kf_rx", []):
            if rx.match(key):
                k = e.get("key", e["key_regex"])
                if k not in self.known_hit:
                    self.known_hit[k] = e.get("what", what)
                self.extra.setdefault("known_finding_keys_matched", {}).setdefault(k, [])
                if key not in self.extra["known_finding_keys_matched"][k]:
                    self.extra["known_finding_keys_matched"][k].append(key)
                return False
        for k, _, _ in self.violations:
            if k == key:
                return True
        os.makedirs(REPLAY, exist_ok=True)
        h = hashlib.sha1((key + json.dumps(_jsonable(detail), sort_keys=True, default=str)).encode()).hexdigest()[:10]
        path = os.path.join(REPLAY, "%s-%s.json" % (self.pid, h))
        with open(path, "w") as f:
            json.dump({"property": self.pid, "key": key, "what": what, "detail": _jsonable(detail),
                       "seed": self.seed, "tier": self.tier,
                       "rerun": "VERIF_SEED=%d ./check %s --tier %s" % (self.seed, self.pid, self.tier)}, f, indent=1)
        self.violations.append((key, what, path))
        return True

    # ---- finish
    def finish(self):
        wall = time.time() - self.t0
        cov = {
            "states": int(self.states),
            "transitions": int(self.transitions),
            "traces_validated_against_impl": int(self.traces),
            "evaluations": int(max(self.evaluations, 1)),
            "distinct_nontrivial": int(len(self.nontrivial)),
            "rule": self.rule,
            "samples": self.samples or ["(none)"],
            "exhaustive": bool(self.exhaustive),
            "tlc_runs": self.tlc_runs,
            "known_findings_reproduced": sorted(self.known_hit.keys()),
        }
        cov.update(_jsonable(self.extra))
        ev = {
            "property_id": self.pid, "tier": self.tier, "seed": int(self.seed), "level": "model_checking",
            "coverage": cov, "assumptions": self.assumptions, "wall_s": round(wall, 2),
            "violations": len(self.violations),
        }
        os.makedirs(EVID, exist_ok=True)
        with open(os.path.join(EVID, self.pid + ".json"), "w") as f:
            json.dump(ev, f, indent=1)
        for key, what in sorted(self.known_hit.items()):
            print("KNOWN-FINDING: property=%s %s -- %s" % (self.pid, key, what))
        # listed findings that no longer reproduce are reported as stale (informational only)
        for key in sorted(self.kf):
            if key not in self.known_hit and self.extra.get("kf_probed", {}).get(key):
                print("NOTE: known finding %s did not reproduce in this run (stale?)" % key)
        for key, what, path in self.violations:
            print("VIOLATION property=%s replay=%s" % (self.pid, path))
            print("  key=%s: %s" % (key, what))
        print("%s tier=%s seed=%d states=%d traces=%d evals=%d wall=%.1fs violations=%d known=%d" % (
            self.pid, self.tier, self.seed, self.states, self.traces, self.evaluations, wall,
            len(self.violations), len(self.known_hit)))
        return 1 if self.violations else 0


class Timeout(Exception):
    pass


class time_limit:
    """SIGALRM based watchdog for calls into the code under test (a hang is reported as a violation)."""
    def __init__(self, seconds):
        self.s = seconds

    def __enter__(self):
        import signal
        def h(sig, frm):
            raise Timeout("no result within %ss" % self.s)
        self.old = signal.signal(signal.SIGALRM, h)
        signal.alarm(self.s)

    def __exit__(self, *a):
        import signal
        signal.alarm(0)
        signal.signal(signal.SIGALRM, self.old)
        return False


class Unchanged:
    """snapshot of the caller's argument arrays / object attributes taken before a call; changed() names those that differ
    afterwards (a call must not modify what it was handed unless it is documented as in-place)"""
    def __init__(self, **named):
        import copy as _c
        import numpy as _np
        self.named = named
        self.before = {}
        for k, v in named.items():
            self.before[k] = self._snap(v)

    @staticmethod
    def _snap(v):
        import numpy as _np
        import copy as _c
        if isinstance(v, _np.ndarray):
            return ("a", v.dtype.str, v.shape, v.tobytes() if v.dtype != object else repr(v.tolist()))
        if hasattr(v, "__dict__"):
            out = []
            for a, x in sorted(vars(v).items()):
                if isinstance(x, _np.ndarray):
                    out.append((a, x.dtype.str, x.shape, x.tobytes() if x.dtype != object else repr(x.tolist())))
                elif isinstance(x, (int, float, str, bool, type(None))):
                    out.append((a, x))
            return ("o", tuple(out))
        return ("r", repr(v))

    def changed(self):
        return sorted(k for k, v in self.named.items() if self._snap(v) != self.before[k])
