"""C11 genetic maps and map functions (spec/GenMap*.tla)."""
import itertools, math, random
import numpy as np
from .. import tlc, cases
from ..core import time_limit

G = 8


def lat(x, scale, ok):
    v = np.asarray(x, dtype=float) * scale
    fin = np.isfinite(v)
    r = np.rint(np.where(fin, v, 0.0))
    if not np.all(np.abs(np.where(fin, v, 0.0) - r) <= 1e-6 * np.maximum(1.0, np.abs(r))):
        ok[0] = False
    return r.astype(np.int64)


def lcm(a, b):
    return a * b // math.gcd(a, b)


HOWS = ("ctor", "nogroup", "pandas", "pandas-nogroup", "reorder", "foreign-spline", "chromosome-removed", "spline-shared", "relabelled")


def build_map(clsname, rows, how="ctor", rng=None):
    """how: the default constructor (rows are grouped and the spline is built at once); the constructor / the data-frame
    import with auto_group=False (the spline is built from the rows AS SUPPLIED); a grouped map whose rows are reordered
    in place before the spline is rebuilt"""
    from pybrops.popgen.gmap.StandardGeneticMap import StandardGeneticMap
    from pybrops.popgen.gmap.ExtendedGeneticMap import ExtendedGeneticMap
    ch = np.array([r[0] for r in rows], dtype="int64"); ph = np.array([r[1] for r in rows], dtype="int64")
    ge = np.array([r[2] for r in rows], dtype=float) / G
    std = clsname == "StandardGeneticMap"
    if how in ("pandas", "pandas-nogroup") and std:
        import pandas
        df = pandas.DataFrame({"chr": ch, "pos": ph, "cM": ge})
        return StandardGeneticMap.from_pandas(df, auto_group=(how == "pandas"))
    kw = {"auto_group": False} if how in ("nogroup", "pandas-nogroup") else {}
    if how == "foreign-spline":
        # the optional spline argument is given (here: the splines of ANOTHER map); the constructor builds the map's own spline
        # (auto_build_spline, the default) and the supplied one is overwritten, as documented
        other = StandardGeneticMap(vrnt_chrgrp=ch, vrnt_phypos=ph, vrnt_genpos=ge * 3.0 + 0.5) if std else \
            ExtendedGeneticMap(vrnt_chrgrp=ch, vrnt_phypos=ph, vrnt_stop=ph + 1, vrnt_genpos=ge * 3.0 + 0.5)
        kw["spline"] = dict(other.spline)
    if how == "relabelled":
        ch = ch + 20          # built under provisional chromosome labels, corrected below through the vrnt_chrgrp property
    if how == "chromosome-removed":
        # the map once held another chromosome (label 11, which the queries ask about): all its markers were removed (remove with
        # positions, or select with a mask) and the spline was built again -- the map now IS the map of the remaining rows
        k = (rng or random).randrange(1, 4)
        ch = np.concatenate([np.repeat(11, k), ch]); ph = np.concatenate([np.arange(3, 3 + 4 * k, 4), ph]); ge = np.concatenate([np.arange(k) * 0.07, ge])
    # markers of an extended map may be longer than one position (start < stop): positions refer to the marker START
    m = StandardGeneticMap(vrnt_chrgrp=ch, vrnt_phypos=ph, vrnt_genpos=ge, **kw) if std else \
        ExtendedGeneticMap(vrnt_chrgrp=ch, vrnt_phypos=ph, vrnt_stop=ph + 1 + 2 * (ph % 3), vrnt_genpos=ge, **kw)
    if how == "chromosome-removed":
        at = np.flatnonzero(np.asarray(m.vrnt_chrgrp) == 11)
        if (rng or random).random() < 0.5:
            m.remove(at)
        else:
            m.select(np.asarray(m.vrnt_chrgrp) != 11)
        m.build_spline()
    if how == "relabelled":
        m.vrnt_chrgrp = np.asarray(m.vrnt_chrgrp) - 20
        m.build_spline()
    if how == "spline-shared":
        # a second map is built on this map's spline dictionary (the optional argument; it builds its own splines at once):
        # this map keeps answering with its own positions
        kw2 = dict(vrnt_chrgrp=ch, vrnt_phypos=ph, vrnt_genpos=ge * 2.0 + 0.25, spline=m.spline)
        StandardGeneticMap(**kw2) if std else ExtendedGeneticMap(vrnt_stop=ph + 1, **kw2)
    if how == "reorder":
        perm = list(range(len(rows))); (rng or random).shuffle(perm)
        m.reorder(np.array(perm))
        m.build_spline()
    return m


def tiled(fn, a, b, n, rng):
    """the n x n pairwise matrix assembled from windowed calls fn(a, b, rst, rsp, cst, csp) over a random tiling (row and
    column cuts chosen independently, so most tiles are off-diagonal and not square); one row band uses the row window alone"""
    def cuts():
        k = sorted(set([0, n] + [rng.randrange(0, n + 1) for _ in range(rng.randrange(1, 4))]))
        return list(zip(k, k[1:]))
    out = np.full((n, n), np.nan)
    for bi, (r0, r1) in enumerate(cuts()):
        if bi == 0 and rng.random() < 0.5:
            out[r0:r1, :] = np.asarray(fn(a, b, r0, r1), dtype=float)
            continue
        for c0, c1 in cuts():
            out[r0:r1, c0:c1] = np.asarray(fn(a, b, r0, r1, c0, c1), dtype=float)
    return out


def map_case(cid, clsname, rows, queries, how="ctor", rng=None):
    c = {"id": cid, "kind": "map", "cls": clsname, "rows": [list(r) for r in rows], "G": G, "q": [list(q) for q in queries], "err": None}
    S = 1
    for chn in {r[0] for r in rows}:
        ps = sorted(r[1] for r in rows if r[0] == chn)
        for a, b in zip(ps, ps[1:]):
            S = lcm(S, b - a)
    c["S"] = S
    try:
        with time_limit(30), np.errstate(all="ignore"):
            import warnings
            warnings.simplefilter("ignore")
            m = build_map(clsname, rows, how, rng)
            if rng is not None and rng.random() < 0.4:
                # the map has been EXPORTED (data frame, default units) before it is used: exporting reads the map
                m.to_pandas()
                if rng.random() < 0.5:
                    m.to_pandas()
                c["exported"] = True
            # interpolation is asked in the caller's order (chromosome labels interleaved) and BEFORE anything else touches
            # the map; the distance functions below document grouped input and get the grouped listing
            rc = np.array([q[0] for q in queries], dtype="int64"); rp = np.array([q[1] for q in queries], dtype="int64")
            iv_raw = np.asarray(m.interp_genpos(rc, rp), dtype=float)
            if how != "ctor" and not m.is_grouped():
                m.group()
            st = list(zip(m.vrnt_chrgrp.tolist(), m.vrnt_phypos.tolist(), np.rint(np.asarray(m.vrnt_genpos) * G).astype(int).tolist()))
            c["sorted"] = [list(map(int, r)) for r in st]
            c["congr"] = bool(m.is_congruent())
            order = sorted(range(len(queries)), key=lambda k: queries[k][0])
            qs = [queries[k] for k in order]
            c["q"] = [list(q) for q in qs]
            qc = np.array([q[0] for q in qs], dtype="int64"); qp = np.array([q[1] for q in qs], dtype="int64")
            ok = [True]; dok = [True]
            iv = iv_raw[order] if iv_raw.shape == (len(queries),) else iv_raw
            c["im"] = [bool(np.isnan(x)) for x in iv]
            c["iv"] = lat(np.where(np.isnan(iv), 0.0, iv), S * G, ok).tolist(); c["ilat"] = ok[0]
            d1 = np.asarray(m.gdist1g(m.vrnt_chrgrp, m.vrnt_genpos), dtype=float)
            c["d1inf"] = [bool(np.isinf(x)) for x in d1]; c["d1"] = lat(d1, G, dok).tolist()
            win = rng is not None and rng.random() < 0.6
            d2 = tiled(m.gdist2g, m.vrnt_chrgrp, m.vrnt_genpos, len(rows), rng) if win else \
                np.asarray(m.gdist2g(m.vrnt_chrgrp, m.vrnt_genpos), dtype=float)
            c["windows"] = bool(win)
            c["d2inf"] = np.isinf(d2).tolist(); c["d2"] = lat(d2, G, dok).tolist()
            p1 = np.asarray(m.gdist1p(qc, qp), dtype=float)
            c["p1inf"] = [bool(not np.isfinite(x)) for x in p1]; c["p1"] = lat(np.where(np.isfinite(p1), p1, 0.0), S * G, dok).tolist()
            p2 = tiled(m.gdist2p, qc, qp, len(qs), rng) if win else np.asarray(m.gdist2p(qc, qp), dtype=float)
            c["p2inf"] = (~np.isfinite(p2)).tolist(); c["p2"] = lat(np.where(np.isfinite(p2), p2, 0.0), S * G, dok).tolist()
            c["dlat"] = dok[0]
            # interp_gmap: a new map at the query markers carries the interpolated positions
            known = [k for k in range(len(qs)) if not c["im"][k]]
            if known:
                g2 = m.interp_gmap(qc[known], qp[known]) if clsname == "StandardGeneticMap" else \
                    m.interp_gmap(qc[known], qp[known], qp[known] + 1)
                iv2 = lat(np.asarray(g2.vrnt_genpos, dtype=float), S * G, ok).tolist()
                if iv2 != [c["iv"][k] for k in known]:
                    c["ilat"] = False
    except Exception as e:
        c["err"] = "%s: %s" % (type(e).__name__, str(e)[:160])
    n = len(rows); nq = len(c["q"])
    for k, dflt in (("sorted", c["rows"]), ("congr", True), ("im", [False] * nq), ("iv", [0] * nq), ("ilat", False), ("d1inf", [False] * n),
                    ("d1", [0] * n), ("d2inf", [[False] * n] * n), ("d2", [[0] * n] * n), ("p1inf", [False] * nq), ("p1", [0] * nq),
                    ("p2inf", [[False] * nq] * nq), ("p2", [[0] * nq] * nq), ("dlat", False)):
        c.setdefault(k, dflt)
    return c


def run(ctx):
    rng = random.Random(ctx.seed)
    thorough = ctx.tier == "thorough"
    ctx.rule = ("TLC checks interpolation laws (own markers, monotone for congruent maps, between flanking positions) for all "
                "well-formed maps of <=4 rows in all row orders and the Haldane/Kosambi lattice laws (monotone, in [0,1/2], "
                "closed under the addition law); real Standard/ExtendedGeneticMap objects built from every row order of small "
                "maps and from random larger maps are queried (inside, outside, absent chromosomes) and validated by TLC in "
                "exact scaled integers; map functions are compared with TLC's exact lattice values; non-trivial: >= 2 "
                "chromosomes or a non-congruent map; distinct by (class, rows in order, queries)")
    ctx.assume("genetic positions are multiples of 1/8 Morgan, physical positions integers: every interpolated value is on the lattice 1/(S*8)",
               "map functions decided on the lattice d = k*delta with r(delta) = 1/10 (plus 0 and infinity); float comparison 1e-9",
               "the inverse clause is asserted where mapfn(d) < 1/2 in double precision")
    r = tlc.run("GenMap", "GenMap_MC.cfg", timeout=2000)
    tlc.must_pass(r, "GenMap_MC"); ctx.add_tlc(r, "GenMap_MC.cfg")
    if r.violated:
        ctx.violation("spec:GenMap:" + r.violated, "TLC: %s violated" % r.violated, r.error)
    allc = []
    # (A) small maps in several row orders
    small = []
    phys = [1, 2, 4]; gens = [0, 1, 3]
    for nch in (1, 2):
        for _ in range(60 if thorough else 18):
            rows = []
            for chn in range(1, nch + 1):
                m = rng.randrange(2, 4)
                ps = rng.sample(phys, m)
                lab = chn * (1 if rng.random() < 0.8 else 3)
                for p in ps:
                    rows.append((lab, p, rng.choice(gens)))
            small.append(rows)
    for rows in small:
        orders = [rows, sorted(rows), sorted(rows, reverse=True)]
        for o in orders:
            o = list(o)
            if o is rows:
                rng.shuffle(o)
            qs = [(rng.choice([r[0] for r in rows] + [9]), rng.choice([0, 1, 2, 3, 4, 6])) for _ in range(5)]
            for clsname in ("StandardGeneticMap", "ExtendedGeneticMap"):
                allc.append(map_case(len(allc) + 1, clsname, o, qs, "ctor", rng))
    # (B) larger random maps
    for _ in range(120 if thorough else 40):
        rows = []
        for chn in rng.sample(range(0, 8), rng.randrange(2, 5)):        # chromosome numbering may start at 0
            m = rng.randrange(2, 9)
            p = rng.randrange(1, 5); g = rng.randrange(0, 10)
            for _k in range(m):
                rows.append((chn, p, g))
                p += rng.choice([1, 2, 3, 4, 6]); g += rng.choice([0, 1, 2, 5] if rng.random() < 0.85 else [-2])
        rng.shuffle(rows)
        chs = [r_[0] for r_ in rows]
        qs = [(rng.choice(chs + [11]), rng.randrange(0, 40)) for _ in range(8)]
        allc.append(map_case(len(allc) + 1, rng.choice(["StandardGeneticMap", "ExtendedGeneticMap"]), rows, qs, "ctor", rng))
        # the same rows through the other ways of building a map (no grouping at construction, data-frame import,
        # in-place reordering followed by a new spline)
        how = HOWS[1 + (len(allc) // 2) % 8]
        cc = map_case(len(allc) + 1, "StandardGeneticMap" if how.startswith("pandas") else rng.choice(["StandardGeneticMap", "ExtendedGeneticMap"]),
                      rows, qs, how, rng)
        cc["how"] = how
        allc.append(cc)
    # lattice cases for the map functions
    ks = list(range(0, 9))
    lat_cases = [{"id": len(allc) + 1, "kind": "lattice", "fn": "haldane", "ks": ks},
                 {"id": len(allc) + 2, "kind": "lattice", "fn": "kosambi", "ks": ks}]
    verd = cases.validate(ctx, "GenMap_Trace", "GenMap_Trace.cfg", allc + lat_cases, "GenMap_Trace", chunk=40, procs=14)
    ctx.traces += len(allc)
    for c in allc:
        v = verd[c["id"]]
        nt = len({r_[0] for r_ in c["rows"]}) >= 2
        ctx.count(1, repr((c["cls"], c["rows"], c["q"])) if nt else None)
        if v != "ok":
            ctx.violation("%s:%s%s" % (c["cls"], v, ":" + c["how"] if c.get("how") else ""), "TLC verdict %s%s" % (v, " -- " + c["err"] if c["err"] else ""),
                          {k: c[k] for k in ("rows", "q", "S", "sorted", "iv", "im", "d1", "d1inf", "err") if k in c})
    ctx.sample({k: allc[0][k] for k in ("cls", "rows", "q", "S", "sorted", "iv", "im", "d1", "d1inf", "congr")})
    # ---- map functions against the exact lattice
    from pybrops.popgen.gmap.HaldaneMapFunction import HaldaneMapFunction
    from pybrops.popgen.gmap.KosambiMapFunction import KosambiMapFunction
    from pybrops.popgen.gmat.DensePhasedGenotypeMatrix import DensePhasedGenotypeMatrix
    from pybrops.popgen.gmap.StandardGeneticMap import StandardGeneticMap
    for lc, fnobj in zip(lat_cases, (HaldaneMapFunction(), KosambiMapFunction())):
        name = type(fnobj).__name__
        exp = verd[lc["id"]][1]
        ctx.count(1, ("lattice", name))
        with np.errstate(all="ignore"):
            delta = float(fnobj.invmapfn(np.array([0.1]))[0])
            d = np.array([k * delta for k in ks])
            rr = np.asarray(fnobj.mapfn(d), dtype=float)
            for k, (num, den) in zip(ks, exp):
                if abs(rr[k] - num / den) > 1e-9:
                    ctx.violation("%s.mapfn:lattice-value" % name, "mapfn(%d*delta)=%r, exact %d/%d" % (k, rr[k], num, den), {"k": k})
            if not np.all(np.diff(rr) >= -1e-15) or rr.min() < 0 or rr.max() > 0.5:
                ctx.violation("%s.mapfn:monotone-into-0-half" % name, "values %r" % rr.tolist(), None)
            if float(fnobj.mapfn(np.array([np.inf]))[0]) != 0.5 or float(fnobj.mapfn(np.array([0.0]))[0]) != 0.0:
                ctx.violation("%s.mapfn:zero-and-infinity" % name, "mapfn(0)=%r mapfn(inf)=%r" % (fnobj.mapfn(np.array([0.0])), fnobj.mapfn(np.array([np.inf]))), None)
            back = np.asarray(fnobj.invmapfn(rr), dtype=float)
            if np.max(np.abs(back - d)) > 1e-9:
                ctx.violation("%s.invmapfn:not-inverse" % name, "invmapfn(mapfn(d)) - d = %r" % (back - d).tolist(), None)
            dd = np.array([0.0, 1e-6, 0.013, 0.5, 1.0, 3.0])
            back2 = np.asarray(fnobj.invmapfn(fnobj.mapfn(dd)), dtype=float)
            if np.max(np.abs(back2 - dd) / np.maximum(1.0, dd)) > 1e-6:
                ctx.violation("%s.invmapfn:not-inverse" % name, "on %r got %r" % (dd.tolist(), back2.tolist()), None)
            # crossover probabilities assigned to a genotype matrix from a lattice map
            for rep in range(6 if thorough else 3):
                rows = []
                for chn in (1, 2, 4)[:rng.randrange(1, 4)]:
                    kk = 0; p = rng.randrange(1, 4)
                    for _m in range(rng.randrange(2, 6)):
                        rows.append((chn, p, kk)); p += rng.choice([1, 2, 5]); kk += rng.choice([0, 1, 2, 3])
                gm = StandardGeneticMap(vrnt_chrgrp=np.array([r_[0] for r_ in rows], dtype="int64"),
                                        vrnt_phypos=np.array([r_[1] for r_ in rows], dtype="int64"),
                                        vrnt_genpos=np.array([r_[2] * delta for r_ in rows], dtype=float))
                mk = sorted(rows)
                pg = DensePhasedGenotypeMatrix(mat=np.zeros((2, 2, len(mk)), dtype="int8"),
                                               vrnt_chrgrp=np.array([r_[0] for r_ in mk], dtype="int64"),
                                               vrnt_phypos=np.array([r_[1] for r_ in mk], dtype="int64"))
                pg.group_vrnt()
                if rep % 3 == 1:
                    # the matrix already carries positions and probabilities from ANOTHER map (stretched 3x): the values
                    # after the second call must be those of the map given to it
                    gm0 = StandardGeneticMap(vrnt_chrgrp=np.array([r_[0] for r_ in rows], dtype="int64"),
                                             vrnt_phypos=np.array([r_[1] for r_ in rows], dtype="int64"),
                                             vrnt_genpos=np.array([3.0 * r_[2] * delta + 0.01 * k for k, r_ in enumerate(rows)], dtype=float))
                    pg.interp_xoprob(gm0, fnobj)
                elif rep % 3 == 2:
                    pg.vrnt_genpos = np.linspace(0.0, 1.0, len(mk)); pg.vrnt_xoprob = np.full(len(mk), 0.25)
                pg.interp_xoprob(gm, fnobj)
                xo = np.asarray(pg.vrnt_xoprob, dtype=float); gp = np.asarray(pg.vrnt_genpos, dtype=float)
                ctx.count(1, ("xoprob", name, tuple(mk)))
                for j, r_ in enumerate(mk):
                    if abs(gp[j] - r_[2] * delta) > 1e-9:
                        ctx.violation("interp_xoprob:genpos", "marker %d genpos %r expected %r" % (j, gp[j], r_[2] * delta), {"rows": mk})
                    if j == 0 or mk[j - 1][0] != r_[0]:
                        want = 0.5
                    else:
                        num, den = exp[r_[2] - mk[j - 1][2]] if r_[2] - mk[j - 1][2] < len(exp) else (None, None)
                        want = num / den
                    if abs(xo[j] - want) > 1e-9:
                        ctx.violation("interp_xoprob:%s:xoprob" % name, "marker %d xoprob %r expected %r" % (j, xo[j], want), {"rows": mk})
    ctx.sample({"lattice": {"haldane": verd[lat_cases[0]["id"]][1][:5], "kosambi": verd[lat_cases[1]["id"]][1][:5]}})
