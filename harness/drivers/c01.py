"""C01 Mendelian fidelity of the seven mating protocols (spec/Mating*.tla)."""
import random, re
import numpy as np
from .. import tlc, cases
from ..core import time_limit

PROTOS = {
    "sx": ("SelfCross", 1), "2w": ("TwoWayCross", 2), "2wdh": ("TwoWayDHCross", 2),
    "3w": ("ThreeWayCross", 3), "3wdh": ("ThreeWayDHCross", 3),
    "4w": ("FourWayCross", 4), "4wdh": ("FourWayDHCross", 4),
}


def make_parents(ntaxa, nvrnt, xoprob, rng):
    from pybrops.popgen.gmat.DensePhasedGenotypeMatrix import DensePhasedGenotypeMatrix
    mat = np.empty((2, ntaxa, nvrnt), dtype="int8")
    for i in range(ntaxa):
        mat[0, i, :] = 2 * i
        mat[1, i, :] = 2 * i + 1
    nchr = rng.choice([1, 1, 2, 3]) if nvrnt >= 3 else 1
    cuts = sorted(rng.sample(range(1, nvrnt), nchr - 1)) if nchr > 1 else []
    chrgrp = np.zeros(nvrnt, dtype="int64")
    for c in cuts:
        chrgrp[c:] += 1
    chrgrp += 1
    pg = DensePhasedGenotypeMatrix(
        mat=mat,
        taxa=np.array(["par%02d" % i for i in range(ntaxa)], dtype=object),
        taxa_grp=np.array([i % 2 for i in range(ntaxa)], dtype="int64"),
        vrnt_chrgrp=chrgrp,
        vrnt_phypos=np.arange(10, 10 + 7 * nvrnt, 7, dtype="int64")[:nvrnt],
        vrnt_name=np.array(["snp%03d" % j for j in range(nvrnt)], dtype=object),
        vrnt_genpos=np.linspace(0.0, 1.0, nvrnt),
        vrnt_xoprob=np.array(xoprob, dtype=float),
        vrnt_hapgrp=np.arange(nvrnt, dtype="int64") // 2,
        vrnt_mask=np.array([j % 2 == 0 for j in range(nvrnt)], dtype=bool),
    )
    pg.group_vrnt()
    return pg


VFIELDS = ["vrnt_chrgrp", "vrnt_phypos", "vrnt_name", "vrnt_genpos", "vrnt_xoprob", "vrnt_hapgrp", "vrnt_mask",
           "vrnt_chrgrp_name", "vrnt_chrgrp_stix", "vrnt_chrgrp_spix", "vrnt_chrgrp_len"]


def snapshot(pg):
    d = {"mat": pg.mat.copy(), "taxa": pg.taxa.copy(), "taxa_grp": pg.taxa_grp.copy()}
    for f in VFIELDS:
        v = getattr(pg, f)
        d[f] = None if v is None else np.array(v).copy()
    return d


def same(a, b):
    if a is None or b is None:
        return a is None and b is None
    a = np.asarray(a); b = np.asarray(b)
    return a.shape == b.shape and bool(np.all(a == b))


def one_case(cid, pkey, rng, many=False):
    import importlib
    cls_name, npar = PROTOS[pkey]
    cls = getattr(importlib.import_module("pybrops.breed.prot.mate." + cls_name), cls_name)
    ntaxa = rng.choice([1, 2, 3, 4, 6, 8])
    nvrnt = rng.choice([1, 2, 3, 4, 6, 8])
    xcls = [rng.choice([0, 0, 1, 1, 2]) for _ in range(nvrnt)]
    if rng.random() < 0.15:
        xcls = [1] * nvrnt
    if rng.random() < 0.15:
        xcls = [0] * nvrnt
    xoprob = [{0: 0.0, 1: rng.choice([0.5, 0.5, 0.1, 0.9]), 2: 1.0}[c] for c in xcls]
    pg = make_parents(ntaxa, nvrnt, xoprob, rng)
    ncross = rng.choice([1, 1, 2, 3, 4])
    xdtype = "int64"
    if many:
        # many crosses (more than a signed / unsigned byte can count) named in a NARROW index dtype: the internal index arrays
        # of the protocol (intermediate hybrids, matings, progeny) must not inherit a width that is too small for them
        xdtype = many; ncross = {"int8": rng.choice([130, 150]), "uint8": rng.choice([260, 300]), "int16": 150}[xdtype]
        nvrnt = min(nvrnt, 3); xcls = xcls[:nvrnt]; xoprob = xoprob[:nvrnt]
        ntaxa = 60; pg = make_parents(ntaxa, nvrnt, xoprob, rng)        # many taxa: two crosses rarely share a parent
    xconfig = np.array([[rng.randrange(ntaxa) for _ in range(npar)] for _ in range(ncross)], dtype=xdtype)
    if rng.random() < 0.25:    # repeated parents / selfs inside a cross
        xconfig[0, :] = xconfig[0, 0]
    if many or rng.random() < 0.5:
        nm = rng.choice([1, 2, 3]) if not many else 1; nmv = [nm] * ncross; nm_arg = nm
    else:
        nmv = [rng.choice([1, 2, 3]) for _ in range(ncross)]; nm_arg = np.array(nmv, dtype="int64")
    if many or rng.random() < 0.5:
        npg = rng.choice([1, 2, 3]) if not many else 1; npv = [npg] * ncross; np_arg = npg
    else:
        npv = [rng.choice([1, 2, 3, 4]) for _ in range(ncross)]; np_arg = np.array(npv, dtype="int64")
    nself = rng.choice([0, 0, 1, 2, 3]) if not many else rng.choice([0, 0, 1])
    pc0 = rng.choice([0, 0, 5, 1234, 10 ** 7 + 5, 123456789]); fc0 = rng.choice([0, 0, 3, 77, 99998, 10 ** 6 + 1])
    gen = np.random.default_rng(rng.randrange(2 ** 32)) if rng.random() < 0.5 else np.random.RandomState(rng.randrange(2 ** 32))
    prot = cls(progeny_counter=pc0, family_counter=fc0, rng=gen)
    warm = rng.random() < 0.3
    if warm:
        # the protocol object has been used before, on another population with another shape (nothing it kept from that
        # call may leak into this one); the counters simply continue
        nt_w = rng.choice([2, 3, 5]); nv_w = rng.choice([1, 2, 5])
        pgw = make_parents(nt_w, nv_w, [0.5] * nv_w, rng)
        xw = np.array([[rng.randrange(nt_w) for _ in range(npar)] for _ in range(rng.choice([1, 2, 3]))], dtype="int64")
        try:
            prot.mate(pgw, xw, rng.choice([1, 2]), rng.choice([1, 3]), nself=rng.choice([0, 1, 2]))
        except Exception:
            pass
        pc0 = int(prot.progeny_counter); fc0 = int(prot.family_counter)
    replan = (not isinstance(nm_arg, int) or not isinstance(np_arg, int)) and rng.random() < 0.6
    if replan:
        # a recurrent programme keeps ONE plan (cross configuration and count arrays) and hands the same objects to mate()
        # every cycle: the recorded call is the second one with these objects
        try:
            prot.mate(pg, xconfig, nm_arg, np_arg, nself=nself)
        except Exception:
            pass
        pc0 = int(prot.progeny_counter); fc0 = int(prot.family_counter)
    xids = xconfig.tolist()                     # the designated taxa (what TLC validates against)
    if rng.random() < 0.25:
        # some parents are named by from-the-end indices (numpy meaning: -1 is the last taxon)
        xconfig = np.array([[v - ntaxa if rng.random() < 0.5 else v for v in row] for row in xids], dtype="int64" if xdtype == "uint8" else xdtype)
    xarg0 = xconfig.copy()
    before = snapshot(pg)
    c = {"id": cid, "kind": "call", "proto": pkey, "xconfig": xids, "nm": nmv, "np": npv, "nself": nself, "xo": xcls,
         "pc0": pc0, "fc0": fc0, "exc": None, "ntaxa": ntaxa,
         "nm_is_array": not isinstance(nm_arg, int), "np_is_array": not isinstance(np_arg, int), "warm": warm, "replan": replan}
    try:
        with time_limit(60):
            out = prot.mate(pg, xconfig, nm_arg, np_arg, nself=nself)
    except Exception as e:
        c.update(exc="%s: %s" % (type(e).__name__, e), prog=[], num=[], grp=[], prefixok=False, pc1=0, fc1=0,
                 parentsame=True, metasame=True)
        return c
    m = np.asarray(out.mat)
    c["prog"] = [[m[0, k, :].astype(int).tolist(), m[1, k, :].astype(int).tolist()] for k in range(m.shape[1])] \
        if m.ndim == 3 and m.shape[0] == 2 else []
    nums, pref = [], set()
    for nme in (out.taxa if out.taxa is not None else []):
        mm = re.match(r"^(.*\D)(\d{7,})$", str(nme))
        if mm:
            nums.append(int(mm.group(2))); pref.add(mm.group(1))
        else:
            nums.append(-1); pref.add("?")
    c["num"] = nums
    c["prefixok"] = len(pref) <= 1 and "?" not in pref and len(nums) == len(c["prog"])
    c["grp"] = [int(x) for x in out.taxa_grp] if out.taxa_grp is not None else []
    if len(c["grp"]) != len(c["prog"]):
        c["grp"] = [-1] * len(c["prog"])
    c["pc1"] = int(prot.progeny_counter); c["fc1"] = int(prot.family_counter)
    after = snapshot(pg)
    c["parentsame"] = all(same(before[k], after[k]) for k in before) and np.array_equal(xconfig, xarg0)
    c["metasame"] = all(same(before[f], getattr(out, f)) for f in VFIELDS)
    return c


def helper_case(cid, rng, k):
    """the matrix-level helpers under the protocols (breed.prot.mate.util) and their duplicates (core.util.mate), called
    directly; the female and male genotype arrays are the same array, two separate arrays, or two VIEWS of one population
    array (a female and a male pool sliced from it)"""
    from pybrops.breed.prot.mate import util as U
    from pybrops.core.util import mate as D
    fnname = ["mat_mate", "dense_cross", "mat_dh", "dense_dh"][k % 4]
    layout = ["same", "separate", "views", "views"][(k // 4) % 4]
    fn = getattr(U if fnname.startswith("mat_") else D, fnname)
    n = rng.randrange(2, 7); L = rng.randrange(1, 7); nsel = rng.randrange(1, 6)
    xcls = [rng.choice([0, 1, 1, 2]) for _ in range(L)]
    xoprob = np.array([{0: 0.0, 1: rng.choice([0.5, 0.1]), 2: 1.0}[c] for c in xcls])
    pop = np.empty((2, n, L), dtype="int8")
    for i in range(n):
        pop[0, i, :] = 2 * i; pop[1, i, :] = 2 * i + 1
    g = np.random.default_rng(rng.randrange(2 ** 32)) if k % 2 else np.random.RandomState(rng.randrange(2 ** 32))
    dh = fnname.endswith("dh")
    c = {"id": cid, "kind": "helper", "fn": fnname, "layout": layout, "proto": "sx" if dh else "2w", "xo": xcls, "dh": dh, "exc": None,
         "nself": 0}
    pop0 = pop.copy()
    try:
        if dh:
            sel = np.array([rng.randrange(n) for _ in range(nsel)])
            c["xconfig"] = [[int(x)] for x in sel]
            out = np.asarray(fn(pop, sel, xoprob, g))
        else:
            if layout == "same":
                fg, mg, off = pop, pop, 0
            elif layout == "separate":
                fg, mg, off = pop, pop.copy(), 0
            else:
                nf = rng.randrange(1, n)
                fg, mg, off = pop[:, :nf, :], pop[:, nf:, :], nf
            fsel = np.array([rng.randrange(fg.shape[1]) for _ in range(nsel)]); msel = np.array([rng.randrange(mg.shape[1]) for _ in range(nsel)])
            c["xconfig"] = [[int(a), int(b) + off] for a, b in zip(fsel, msel)]
            out = np.asarray(fn(fg, mg, fsel, msel, xoprob, g))
        c["prog"] = [[out[0, j, :].astype(int).tolist(), out[1, j, :].astype(int).tolist()] for j in range(out.shape[1])] \
            if out.ndim == 3 and out.shape[0] == 2 else []
        c["parentsame"] = bool(np.array_equal(pop, pop0))
    except Exception as e:
        c.update(exc="%s: %s" % (type(e).__name__, e), prog=[], parentsame=True)
    return c


def bulk_case(cid, pkey, rng):
    """one large mate() call: implementations that process gametes or loci in blocks must be right across block seams"""
    import importlib
    cls_name, npar = PROTOS[pkey]
    cls = getattr(importlib.import_module("pybrops.breed.prot.mate." + cls_name), cls_name)
    nvrnt = rng.choice([420, 500, 610]); nprog = rng.choice([400, 650, 900])
    # recombination only at a few places: chromosome starts and a handful of loci; everywhere else exactly 0
    xcls = [0] * nvrnt
    for l in range(0, nvrnt, rng.choice([60, 97, 140])):
        xcls[l] = 1
    for l in rng.sample(range(nvrnt), 6):
        xcls[l] = rng.choice([1, 2])
    xoprob = [{0: 0.0, 1: 0.5, 2: 1.0}[v] for v in xcls]
    pg = make_parents(npar + 1, nvrnt, xoprob, rng)
    row = rng.sample(range(npar + 1), npar)
    nself = rng.choice([0, 0, 1, 2])
    gen = np.random.default_rng(rng.randrange(2 ** 32)) if rng.random() < 0.5 else np.random.RandomState(rng.randrange(2 ** 32))
    c = {"id": cid, "kind": "bulk", "proto": pkey, "xconfig": [row], "nself": nself, "xo": xcls, "nexp": nprog, "exc": None}
    try:
        with time_limit(120):
            nm, npg = (1, nprog) if rng.random() < 0.5 else (nprog, 1)
            out = cls(progeny_counter=0, family_counter=0, rng=gen).mate(pg, np.array([row], dtype="int64"), nm, npg, nself=nself)
        m = np.asarray(out.mat)
        c["nprog"] = int(m.shape[1])
        c["tags0"] = sorted(int(x) for x in np.unique(m[0])); c["tags1"] = sorted(int(x) for x in np.unique(m[1]))
        sw = np.any(m[:, :, 1:] != m[:, :, :-1], axis=(0, 1))
        c["switch"] = [int(l) + 2 for l in np.flatnonzero(sw)]
        c["dhhet"] = int(np.sum(np.any(m[0] != m[1], axis=1)))
    except Exception as e:
        c.update(exc="%s: %s" % (type(e).__name__, e), nprog=0, tags0=[], tags1=[], switch=[], dhhet=0)
    return c


def run(ctx):
    rng = random.Random(ctx.seed)
    thorough = ctx.tier == "thorough"
    ctx.rule = ("TLC explores the lineage of one progeny through every stage of each of the seven protocols for all parent "
                "tuples, crossover-class vectors over 3 loci and selfing depths, checking the provenance relation; every "
                "real mate() call on provenance-tagged parents (random configurations incl. selfs, repeated parents, scalar "
                "and array counts, nself 0..3, exact 0/0.5/1 crossover probabilities, Generator and RandomState) is "
                "validated by TLC against the same relation; non-trivial = >=2 crosses with distinct parent rows or "
                "array counts; distinct by configuration")
    ctx.assume("parents carry provenance tags (copy h of taxon i = 2i+h at every locus); int8 holds 63 parents",
               "the starting copy of a gamete is left free (property clause; the distribution is C02's subject)",
               "xoprob abstracted to classes =0, in (0,1), >=1")
    cfg = "Mating_MCT.cfg" if thorough else "Mating_MC.cfg"
    r = tlc.run("Mating_MC", cfg, coverage=True, timeout=3000)
    tlc.must_pass(r, cfg); ctx.add_tlc(r, cfg)
    if r.violated:
        ctx.violation("spec:Mating:" + r.violated, "TLC: %s violated (design-level)" % r.violated, r.error)
    for a in ("MakeF1", "Second", "SelfStep", "SelfDone", "DoubleHaploid"):
        if r.coverage.get(a, (0, 0))[1] == 0:
            raise tlc.TLCFailure("vacuous: %s never taken" % a)
    allc = []
    n = 2800 if thorough else 700
    keys = list(PROTOS)
    for t in range(n):
        allc.append(one_case(t + 1, keys[t % len(keys)], rng))
    for t in range(21 if thorough else 14):
        allc.append(one_case(len(allc) + 1, keys[t % len(keys)], rng, many=["int8", "uint8", "int16"][(t // len(keys)) % 3]))
    bulk = [bulk_case(len(allc) + 1 + t, keys[t % len(keys)], rng) for t in range(28 if thorough else 14)]
    helpers = [helper_case(len(allc) + len(bulk) + 1 + t, rng, t) for t in range(192 if thorough else 64)]
    verd = cases.validate(ctx, "Mating_Trace", "Mating_Trace.cfg", allc + bulk + helpers, "Mating_Trace", chunk=120, procs=14)
    ctx.traces += len(allc) + len(bulk) + len(helpers)
    for c in helpers:
        v = verd[c["id"]]
        ctx.count(1, repr({k: c[k] for k in ("fn", "layout", "xconfig", "xo")}))
        if v != "ok":
            ctx.violation("%s[%s]:%s" % (c["fn"], c["layout"], v), "TLC verdict %s%s (female / male arrays: %s)" % (
                v, (" (" + c["exc"] + ")") if c["exc"] else "", c["layout"]), {k: c[k] for k in c if k != "prog"} | {"prog_head": c["prog"][:6]})
    for c in bulk:
        v = verd[c["id"]]
        ctx.count(1, repr({k: c[k] for k in ("proto", "xconfig", "nself", "nexp")} | {"nvrnt": len(c["xo"])}))
        if v != "ok":
            ctx.violation("%s.mate:%s:large-call" % (PROTOS[c["proto"]][0], v),
                          "TLC verdict %s on a %d x %d call%s" % (v, c["nexp"], len(c["xo"]), (" (" + c["exc"] + ")") if c["exc"] else ""),
                          {k: c[k] for k in c if k != "xo"})
    for c in allc:
        v = verd[c["id"]]
        nt = len({tuple(r_) for r_ in c["xconfig"]}) > 1 or c["nm_is_array"] or c["np_is_array"]
        ctx.count(1, repr({k: c[k] for k in ("proto", "xconfig", "nm", "np", "nself", "xo", "ntaxa")}) if nt else None)
        if v != "ok":
            site = PROTOS[c["proto"]][0] + ".mate"
            ctx.violation("%s:%s" % (site, v), "TLC verdict %s%s" % (v, (" (" + c["exc"] + ")") if c["exc"] else ""),
                          {k: c[k] for k in c if k != "prog"} | {"prog_head": c["prog"][:6]})
    ctx.sample({"case": {k: allc[8][k] for k in allc[8] if k != "prog"}, "progeny_head": allc[8]["prog"][:3],
                "verdict": verd[allc[8]["id"]]})
