"""C07 selection protocols -> cross configurations (spec/XConfig*.tla)."""
import importlib, random
import numpy as np
from .. import tlc, cases
from ..core import time_limit

SEL = "pybrops.breed.prot.sel."


def model_check(ctx, thorough):
    cfgs = ["tiled32", "bin22", "sus32", "live"] + (["tiled23"] if thorough else [])
    for name in cfgs:
        c = "XConfig_%s.cfg" % name
        r = tlc.run("XConfig_MC", c, coverage=True, timeout=2400)
        tlc.must_pass(r, c); ctx.add_tlc(r, c)
        if r.violated:
            ctx.violation("spec:XConfig:" + r.violated, "TLC: %s violated in %s" % (r.violated, c), r.error)
        for a in ("Draw", "Settle", "RowMix") + (("Exchange",) if name != "live" else ()):
            if r.coverage.get(a, (0, 0))[1] == 0:
                raise tlc.TLCFailure("vacuous: %s never taken in %s" % (a, c))
    # wrong variant: mixing inside columns re-creates self pairings; TLC must find it
    r = tlc.run("XConfig_MC", "XConfig_cols.cfg", timeout=900)
    ctx.add_tlc(r, "XConfig_cols.cfg (wrong variant: mix inside columns)")
    if r.violated != "DoneOK":
        raise tlc.TLCFailure("the column-mixing variant was not rejected by TLC (%r)" % r.violated)
    ctx.extra["wrong_variant_rejected"] = True


# ---------------------------------------------------------------- populations
def population(rng, n, L, T):
    from pybrops.popgen.gmat.DensePhasedGenotypeMatrix import DensePhasedGenotypeMatrix
    from pybrops.popgen.bvmat.DenseBreedingValueMatrix import DenseBreedingValueMatrix
    from pybrops.model.gmod.DenseAdditiveLinearGenomicModel import DenseAdditiveLinearGenomicModel
    ph = np.array([[[rng.randrange(2) for _ in range(L)] for _ in range(n)] for _ in range(2)], dtype="int8")
    names = np.array(["t%03d" % x for x in rng.sample(range(500), n)], dtype=object)
    grp = np.array([rng.randrange(3) for _ in range(n)], dtype="int64")
    u = np.array([[rng.choice([-3, -2, -1, 1, 2, 3]) for _ in range(T)] for _ in range(L)], dtype=float)
    raw = np.array([[rng.randrange(-6, 10) for _ in range(T)] for _ in range(n)], dtype=float)
    trait = np.array(["y%d" % t for t in range(T)], dtype=object)
    return build(ph, names, grp, u, raw, trait)


def build(ph, names, grp, u, raw, trait):
    from pybrops.popgen.gmat.DensePhasedGenotypeMatrix import DensePhasedGenotypeMatrix
    from pybrops.popgen.bvmat.DenseBreedingValueMatrix import DenseBreedingValueMatrix
    from pybrops.model.gmod.DenseAdditiveLinearGenomicModel import DenseAdditiveLinearGenomicModel
    L = ph.shape[2]; T = u.shape[1]
    nchr = 2 if L >= 4 else 1
    chrgrp = np.array([1 + (j * nchr) // L for j in range(L)], dtype="int64")
    genpos = np.array([0.3 * (j - (0 if chrgrp[j] == 1 else int(np.argmax(chrgrp == 2)))) for j in range(L)])
    pg = DensePhasedGenotypeMatrix(ph.copy(), taxa=names.copy(), taxa_grp=grp.copy(), vrnt_chrgrp=chrgrp,
                                   vrnt_phypos=np.arange(1, L + 1, dtype="int64"), vrnt_name=np.array(["m%d" % j for j in range(L)], dtype=object),
                                   vrnt_genpos=genpos, vrnt_xoprob=np.array([0.5 if (j == 0 or chrgrp[j] != chrgrp[j - 1]) else 0.2 for j in range(L)]))
    pg.group_vrnt()
    gm = DenseAdditiveLinearGenomicModel(beta=np.zeros((1, T)), u_misc=None, u_a=u.copy(), trait=trait)
    bv = DenseBreedingValueMatrix.from_numpy(raw.copy(), taxa=names.copy(), taxa_grp=grp.copy(), trait=trait)
    return {"pg": pg, "gm": gm, "bv": bv, "ph": ph, "names": names, "grp": grp, "u": u, "raw": raw, "trait": trait,
            "gebv": (ph[0].astype(int) + ph[1].astype(int)) @ u}


def twin_of(pop, perm, rename, rng):
    names = pop["names"][perm].copy()
    if rename:
        names = np.array(["z%03d" % x for x in rng.sample(range(500), len(perm))], dtype=object)
    return build(pop["ph"][:, perm, :], names, pop["grp"][perm], pop["u"], pop["raw"][perm], pop["trait"])


def algo(name, **kw):
    return getattr(importlib.import_module("pybrops.opt.algo." + name), name)(**kw)


def gen(rng):
    s = rng.randrange(2 ** 31)
    return np.random.default_rng(s) if s % 2 else np.random.RandomState(s)


# ---------------------------------------------------------------- projections
def meta_ok(cfg, pg, nc, npar, nmating, nprogeny):
    try:
        return bool(cfg.ncross == nc and cfg.nparent == npar and cfg.pgmat is pg
                    and np.array_equal(np.asarray(cfg.nmating), np.broadcast_to(nmating, (nc,)))
                    and np.array_equal(np.asarray(cfg.nprogeny), np.broadcast_to(nprogeny, (nc,))))
    except Exception:
        return False


def table(x):
    x = np.asarray(x)
    if x.ndim != 2:
        return [[-1]]
    return [[int(v) if float(v) == int(v) else -1 for v in row] for row in x]


def contribution(enc, decn, n):
    """(spec encoding, integer contribution vector, slack) of a decision over n candidates"""
    decn = np.asarray(decn)
    if enc == "Subset":
        d = [0] * n
        for v in decn:
            if 0 <= int(v) < n:
                d[int(v)] += 1
            else:
                return "tiled", None, 0
        return "tiled", d, 0
    if enc in ("Integer", "Binary"):
        if len(decn) != n:
            return "tiled", None, 0
        return "tiled", [int(v) for v in decn], 0
    if len(decn) != n or not np.all(np.isfinite(decn.astype(float))) or np.any(decn.astype(float) < 0):
        return "susx", None, 0
    d = [int(round(float(v) * 10 ** 6)) for v in decn]
    return "susx", d, None


def cfg_case(enc, decn, cfg, n, nc, npar, meta):
    e, d, slack = contribution(enc, decn, n)
    c = {"kind": "cfg", "enc": e, "d": d if d is not None else [0] * n, "nc": nc, "np": npar, "tab": table(cfg.xconfig),
         "meta": bool(meta), "topk": False, "k": 0, "crit": [0] * n, "hastwin": False, "twin": [], "slack": 0, "err": "none"}
    if d is None:
        c["err"] = "decision-not-in-the-encoding"
    if e == "susx" and d is not None:
        # weights rounded to 1e-6: each rounding moves size*d_i - c_i*W by at most size + c_i*n half-units
        c["slack"] = (nc * npar) * (n + 1)
        while sum(c["d"]) * nc * npar > 2 * 10 ** 8:          # keep products within 32 bits
            c["d"] = [v // 10 for v in c["d"]]
    return c


# ---------------------------------------------------------------- protocol families
def families():
    from pybrops.popgen.cmat.fcty.DenseMolecularCoancestryMatrixFactory import DenseMolecularCoancestryMatrixFactory as MC
    from pybrops.model.vmat.fcty.DenseTwoWayDHAdditiveGeneticVarianceMatrixFactory import DenseTwoWayDHAdditiveGeneticVarianceMatrixFactory as VF
    from pybrops.popgen.gmap.HaldaneMapFunction import HaldaneMapFunction
    return {
        # name: (module, stem, kwargs(T), criterion source, mate?)
        "ebv": ("EstimatedBreedingValueSelection", "EstimatedBreedingValue", lambda T, r: dict(ntrait=T, unscale=r.random() < 0.5), "raw", False),
        "gebv": ("GenomicEstimatedBreedingValueSelection", "GenomicEstimatedBreedingValue", lambda T, r: dict(ntrait=T, unscale=r.random() < 0.5), "gebv", False),
        "wgebv": ("WeightedGenomicSelection", "WeightedGenomic", lambda T, r: dict(ntrait=T), "problem", False),
        "gwgebv": ("GeneralizedWeightedGenomicEstimatedBreedingValueSelection", "GeneralizedWeightedGenomicEstimatedBreedingValue",
                   lambda T, r: dict(ntrait=T, alpha=r.choice([0.0, 0.5, 1.0])), "problem", False),
        "random": ("RandomSelection", "Random", lambda T, r: dict(ntrait=T), None, False),
        "mgr": ("MeanGenomicRelationshipSelection", "MeanGenomicRelationship", lambda T, r: dict(cmatfcty=MC()), None, False),
        "meh": ("MeanExpectedHeterozygositySelection", "MeanExpectedHeterozygosity", lambda T, r: dict(), None, False),
        "l2": ("L2NormGenomicSelection", "L2NormGenomic", lambda T, r: dict(cmatfcty=MC()), None, False),
        "ohv": ("OptimalHaploidValueSelection", "OptimalHaploidValue", lambda T, r: dict(ntrait=T, nhaploblk=2, unique_parents=r.random() < 0.6), None, True),
        "uc": ("UsefulnessCriterionSelection", "UsefulnessCriterion",
               lambda T, r: dict(ntrait=T, nself=r.choice([0, 1]), upper_percentile=0.1, vmatfcty=VF(), gmapfn=HaldaneMapFunction(), unique_parents=True), None, True),
        "family": ("FamilyEstimatedBreedingValueSelection", "FamilyEstimatedBreedingValue", lambda T, r: dict(ntrait=T), None, False),
        "ocs": ("OptimalContributionSelection", "OptimalContribution", lambda T, r: dict(ntrait=T, cmatfcty=MC(), unscale=r.random() < 0.5), None, False),
        "embv": ("ExpectedMaximumBreedingValueSelection", "ExpectedMaximumBreedingValue",
                 lambda T, r: dict(ntrait=T, nrep=2, mateprot=_dh(r), unique_parents=r.random() < 0.6), None, True),
        # subset-only families
        "opv": ("OptimalPopulationValueSelection", "OptimalPopulationValue", lambda T, r: dict(ntrait=T, nhaploblk=2), None, False),
        "gbuild": ("GenotypeBuilderSelection", "GenotypeBuilder", lambda T, r: dict(ntrait=T, nhaploblk=2, nbestfndr=1), None, False),
        "pafd": ("PopulationAlleleFrequencyDistanceSelection", "PopulationAlleleFrequencyDistance", "LT", None, False),
        "pau": ("PopulationAlleleUnavailabilitySelection", "PopulationAlleleUnavailability", "LT", None, False),
        "mogs": ("MultiObjectiveGenomicSelection", "MultiObjectiveGenomic", "LT", None, False),
    }


SUBSET_ONLY = ("opv", "gbuild", "pafd", "pau", "mogs")


def _dh(r):
    from pybrops.breed.prot.mate.TwoWayDHCross import TwoWayDHCross
    return TwoWayDHCross(rng=np.random.default_rng(r.randrange(2 ** 31)))


SO = {"Subset": ["SortingSubsetOptimizationAlgorithm", "SteepestDescentSubsetHillClimber", "SubsetGeneticAlgorithm"],
      "Integer": ["IntegerGeneticAlgorithm"], "Binary": ["BinaryGeneticAlgorithm"], "Real": ["RealGeneticAlgorithm"]}
EXACT = ("SortingSubsetOptimizationAlgorithm", "SteepestDescentSubsetHillClimber")


def make_soalgo(name, rng):
    g = gen(rng)
    if name.endswith("GeneticAlgorithm"):
        return algo(name, ngen=rng.choice([2, 4]), pop_size=rng.choice([6, 10]), rng=g)
    if name == "SortingSubsetOptimizationAlgorithm":
        return algo(name)
    return algo(name, rng=g)


def select_once(fam, spec, enc, pop, nc, npar, T, algname, rng, kw, obj_wt, mo_box=None):
    mod, stem, kwf, src, mate = spec
    cls = getattr(importlib.import_module(SEL + mod), stem + enc + "Selection")
    nmating = rng.choice([1, 2]); nprogeny = rng.choice([1, 3])
    nobj = 1
    from pybrops.breed.prot.sel.prob.trans import trans_sum
    trans = trans_sum; tkw = {}          # the latent vector (traits, families, ...) is reduced to one objective
    reconf = rng.random() < 0.35
    nc0 = (nc + rng.choice([1, 2])) if reconf else nc
    pr = cls(ncross=nc0, nparent=npar, nmating=nmating, nprogeny=nprogeny, nobj=nobj, obj_wt=obj_wt, obj_trans=trans, obj_trans_kwargs=tkw,
             soalgo=make_soalgo(algname, rng), rng=gen(rng), **kw)
    if reconf:       # an existing protocol object resized through its setters before it is asked to select
        pr.ncross = nc; pr.nmating = nmating; pr.nprogeny = nprogeny
    mo = {}
    if mo_box is not None:
        mo_box.append(mo)
    cfg = pr.select(pgmat=pop["pg"], gmat=pop["pg"], ptdf=None, bvmat=pop["bv"], gpmod=pop["gm"], t_cur=0, t_max=5, miscout=mo)
    return pr, cfg, mo, nmating, nprogeny


def run(ctx):
    rng = random.Random(ctx.seed)
    thorough = ctx.tier == "thorough"
    ctx.rule = ("TLC checks the pipeline Draw -> Exchange* -> Settle -> RowMix for all decisions over 3-4 candidates (counts 0..2, 0/1, "
                "weights {0,1,2,5}), 3x2 / 2x2 (2x3) tables: every finished configuration refers to chosen candidates only, has the "
                "dictated multiplicities and no self pairing removable by one exchange; multiset kept, never worse, termination; the "
                "closed form of the tiled multiplicities is exact; the column-mixing variant is rejected. Real executions: all "
                "configuration classes (subset / integer / binary / real and their mate variants) with random decisions and both "
                "generator kinds; select() of ten protocol families x four encodings with exact (sorting, hill climber) and genetic "
                "optimisers, permuted and relabelled twin populations, and multi-objective protocols with a declared linear preference; "
                "every configuration, cross map, truncation choice and preference choice is validated by TLC (XConfig_Trace); "
                "non-trivial: a decision with >=2 chosen candidates and a table with >=2 cells; distinct by input")
    ctx.assume("integer / binary decisions: multiplicities follow the tiling of the option list (each listed option floor or ceiling of "
               "size/m times); real decisions: floor or ceiling of the proportional share (weights from select() are rounded to 1e-6 "
               "and given the corresponding allowance)",
               "truncation is asserted for separable criteria (EBV, GEBV, weighted GEBV) with the sorting optimiser and the "
               "hill climbers (TLC: a separable local optimum is global); criteria are integers taken from the inputs (EBV, GEBV) "
               "or the ranks of the problem's single-candidate evaluations (weighted GEBV, validated by C05)",
               "configurations are sampled from the global generators (select() passes rng=None); the driver seeds them per case")
    model_check(ctx, thorough)
    allc = []
    info = {}

    def add(c, site):
        c["id"] = len(allc) + 1
        info[c["id"]] = site
        allc.append(c)

    from pybrops.core.util.array import xmapix
    import pybrops.core.random.prng as prng

    # ---------------------------------------------------------------- (B) configuration classes with random decisions
    CFG = SEL + "cfg."
    ncfg = 500 if thorough else 160
    pop0 = population(rng, 9, 4, 1)
    for t in range(ncfg):
        enc = ("Subset", "Integer", "Binary", "Real")[t % 4]
        n = rng.randrange(2, 9); nc = rng.randrange(1, 6); npar = rng.randrange(1, 4)
        pop = pop0 if n == 9 else None
        if pop is None:
            pop = population(rng, n, 3, 1)
        if enc == "Subset":
            k = rng.choice([min(n, nc * npar), rng.randrange(1, n + 1)])
            decn = np.array(rng.sample(range(n), k))
        elif enc == "Integer":
            decn = np.array([rng.choice([0, 0, 1, 2, 3, 5]) for _ in range(n)])
            if rng.random() < 0.4:                 # counts that add up to the number of slots
                decn = np.bincount([rng.randrange(n) for _ in range(nc * npar)], minlength=n)
        elif enc == "Binary":
            decn = np.array([rng.randrange(2) for _ in range(n)])
        else:
            wint = [rng.choice([0, 0, 1, 2, 3, 7, 40]) for _ in range(n)]
            decn = np.array(wint, float) * rng.choice([1.0, 0.5, 0.125, 3.0])
        if decn.sum() == 0:
            decn[rng.randrange(len(decn))] = 1
        cls = getattr(importlib.import_module(CFG + enc + "SelectionConfiguration"), enc + "SelectionConfiguration")
        nm = rng.choice([1, 2]); npg = rng.choice([1, 4])
        try:
            with time_limit(30):
                cfg = cls(ncross=nc, nparent=npar, nmating=nm, nprogeny=npg, pgmat=pop["pg"], xconfig_decn=decn.copy(), rng=gen(rng))
                again = cfg.sample_xconfig(return_xconfig=True) if rng.random() < 0.3 else None
            c = cfg_case(enc, decn, cfg, n, nc, npar, meta_ok(cfg, pop["pg"], nc, npar, nm, npg) and np.array_equal(cfg.xconfig_decn, decn))
            if enc == "Real":
                c["enc"] = "sus"; c["d"] = list(wint) if sum(wint) else [int(v) for v in decn]; c["slack"] = 0     # exact integer weights
            if again is not None and not np.array_equal(again, cfg.xconfig):
                c["meta"] = False
        except Exception as e:
            c = {"kind": "cfg", "enc": "tiled", "d": [1] * n, "nc": nc, "np": npar, "tab": [[0]], "meta": True, "topk": False, "k": 0, "crit": [0] * n,
                 "hastwin": False, "twin": [], "slack": 0, "err": "%s: %s" % (type(e).__name__, str(e)[:160])}
        add(c, "cfg.%sSelectionConfiguration" % enc)
    # (B2) many candidates (more than a signed / unsigned byte can index) with sparse decisions stored in NARROW dtypes: the
    # configuration must refer to the individuals the decision names, whatever width the decision vector has
    for t in range(24 if thorough else 12):
        enc = ("Integer", "Binary", "Subset", "Integer")[t % 4]
        n = (160, 200, 300, 260)[t % 4]; nc = rng.randrange(2, 5); npar = 2
        pop = population(rng, n, 3, 1)
        hi = sorted(rng.sample(range(128, n), 3)) + [rng.randrange(0, 100)]       # chosen individuals, mostly beyond index 127
        if enc == "Integer":
            decn = np.zeros(n, dtype=("int8", "uint8", "int16")[(t // 4) % 3])
            for q_ in hi:
                decn[q_] = rng.choice([1, 2])
        elif enc == "Binary":
            decn = np.zeros(n, dtype=("int8", "uint8", "int64")[(t // 4) % 3]); decn[hi] = 1
        else:
            decn = np.array(hi, dtype=("int16", "uint16", "int32")[(t // 4) % 3])
        cls = getattr(importlib.import_module(CFG + enc + "SelectionConfiguration"), enc + "SelectionConfiguration")
        try:
            with time_limit(30):
                cfg = cls(ncross=nc, nparent=npar, nmating=1, nprogeny=1, pgmat=pop["pg"], xconfig_decn=decn.copy(), rng=gen(rng))
            c = cfg_case(enc, decn.astype("int64"), cfg, n, nc, npar, meta_ok(cfg, pop["pg"], nc, npar, 1, 1) and np.array_equal(cfg.xconfig_decn, decn))
        except Exception as e:
            c = {"kind": "cfg", "enc": "tiled", "d": [1] * n, "nc": nc, "np": npar, "tab": [[0]], "meta": True, "topk": False, "k": 0, "crit": [0] * n,
                 "hastwin": False, "twin": [], "slack": 0, "err": "%s: %s" % (type(e).__name__, str(e)[:160])}
        add(c, "cfg.%sSelectionConfiguration[narrow dtype, %d candidates]" % (enc, n))
    # mate configurations
    for t in range(ncfg // 2):
        enc = ("Subset", "Integer", "Binary", "Real")[t % 4]
        n = rng.randrange(2, 6); npar = rng.randrange(2, 4); strict = rng.random() < 0.5
        if strict and n < npar:
            n = npar
        xm = np.array(list(xmapix(n, npar, strict)), dtype="int64")
        nd = len(xm); nc = rng.randrange(1, 7)
        pop = population(rng, n, 3, 1)
        if nd == 0:          # the generator produced no cross at all for a satisfiable request
            add({"kind": "mate", "xmap": [], "xn": n, "xk": npar, "strict": bool(strict), "enc": "tiled", "d": [], "nc": nc, "np": npar,
                 "slack": 0, "err": "none", "tab": [[0] * npar] * nc, "meta": True}, "core.util.array.xmapix")
            continue
        if enc == "Subset":
            decn = np.array(rng.sample(range(nd), rng.randrange(1, min(nd, nc + 1) + 1))); d = [int(x in decn.tolist()) for x in range(nd)]
        elif enc == "Integer":
            decn = np.array([rng.choice([0, 0, 1, 2, 3]) for _ in range(nd)]); d = decn.tolist()
        elif enc == "Binary":
            decn = np.array([rng.randrange(2) for _ in range(nd)]); d = decn.tolist()
        else:
            d = [rng.choice([0, 0, 1, 2, 5]) for _ in range(nd)]; decn = np.array(d, float) * rng.choice([1.0, 0.25, 2.0])
        if sum(d) == 0:
            d[0] = 1; decn = np.array(d, float) if enc == "Real" else (np.array([0]) if enc == "Subset" else np.array(d))
        cls = getattr(importlib.import_module(CFG + enc + "MateSelectionConfiguration"), enc + "MateSelectionConfiguration")
        c = {"kind": "mate", "xmap": xm.tolist(), "xn": n, "xk": npar, "strict": bool(strict), "enc": "sus" if enc == "Real" else "tiled",
             "d": [int(v) for v in d], "nc": nc, "np": npar, "slack": 0, "err": "none"}
        try:
            with time_limit(30):
                cfg = cls(ncross=nc, nparent=npar, nmating=1, nprogeny=2, pgmat=pop["pg"], xconfig_decn=decn.copy(), xconfig_xmap=xm.copy(), rng=gen(rng))
            c["tab"] = table(cfg.xconfig); c["meta"] = meta_ok(cfg, pop["pg"], nc, npar, 1, 2) and np.array_equal(cfg.xconfig_xmap, xm)
        except Exception as e:
            c.update(tab=[[0] * npar], meta=True, err="%s: %s" % (type(e).__name__, str(e)[:160]))
        add(c, "cfg.%sMateSelectionConfiguration" % enc)

    # ---------------------------------------------------------------- (C) protocols: select()
    fams = families()
    nsel = 9 if thorough else 3
    notes = {"noresult": 0, "skipped": [], "empty": 0}
    for rep in range(nsel):
        for fam, spec in fams.items():
            mod, stem, kwf, src, mate = spec
            for enc in (("Subset",) if fam in SUBSET_ONLY else ("Subset", "Integer", "Binary", "Real")):
                algs = SO[enc] if (enc != "Subset" or src) else SO[enc][:2]
                for algname in (algs if rep == 0 or enc != "Subset" else [algs[rep % len(algs)]]):
                    T = rng.choice([1, 1, 2])
                    n = rng.randrange(4, 9); L = rng.randrange(4, 8)
                    npar = 2 if mate else rng.choice([1, 2, 2, 3])
                    nc = rng.randrange(1, 4)
                    if enc == "Subset" and not mate and nc * npar > n:
                        nc = max(1, n // npar)
                    pop = population(rng, n, L, T)
                    kw = dict(ntrait=T, weight=np.ones((L, T)), target=np.array([[rng.choice([0.0, 0.5, 1.0]) for _ in range(T)] for _ in range(L)])) \
                        if kwf == "LT" else kwf(T, rng)
                    sense = rng.choice([1.0, 1.0, -1.0])
                    seed = rng.randrange(2 ** 31)
                    site = "%s%sSelection.select" % (stem, enc)
                    try:
                        with time_limit(180), np.errstate(all="ignore"):
                            np.random.seed(seed); prng.seed(seed)
                            mo_box = []
                            pr, cfg, mo, nm, npg = select_once(fam, spec, enc, pop, nc, npar, T, algname, rng, kw, sense, mo_box)
                    except (ImportError, AttributeError) as e:
                        notes["skipped"].append("%s: %s" % (site, str(e)[:80])); continue
                    except Exception as e:
                        msg = "%s: %s" % (type(e).__name__, str(e)[:160])
                        sos = mo_box[0].get("sosoln") if mo_box else None
                        if sos is not None and not np.any(np.asarray(sos.soln_decn, dtype=float)):
                            notes["empty"] += 1; continue          # the optimiser chose nobody: no configuration exists
                        add({"kind": "cfg", "enc": "tiled", "d": [1] * n, "nc": nc, "np": npar, "tab": [[0]], "meta": True, "topk": False, "k": 0,
                             "crit": [0] * n, "hastwin": False, "twin": [], "slack": 0, "err": msg, "algo": algname}, site)
                        continue
                    sos = mo.get("sosoln")
                    decn = np.asarray(cfg.xconfig_decn)
                    same = sos is not None and np.array_equal(np.asarray(sos.soln_decn)[0], decn)
                    if mate:
                        xm = np.asarray(cfg.xconfig_xmap)
                        e, d, slack = contribution(enc, decn, len(xm))
                        c = {"kind": "mate", "xmap": xm.tolist(), "xn": n, "xk": npar, "strict": bool(kw["unique_parents"]), "enc": e,
                             "d": d if d is not None else [0] * len(xm), "nc": nc, "np": npar, "slack": 0, "err": "none" if d is not None else "decision-not-in-the-encoding",
                             "tab": table(cfg.xconfig), "meta": bool(same and meta_ok(cfg, pop["pg"], nc, npar, nm, npg)), "algo": algname}
                        if e == "susx" and d is not None:
                            c["slack"] = nc * (len(xm) + 1)
                            while sum(c["d"]) * nc > 2 * 10 ** 8:
                                c["d"] = [v // 10 for v in c["d"]]
                        add(c, site); continue
                    c = cfg_case(enc, decn, cfg, n, nc, npar, same and meta_ok(cfg, pop["pg"], nc, npar, nm, npg))
                    c["algo"] = algname
                    # truncation with an exact optimiser on a separable criterion
                    if enc == "Subset" and src and algname in EXACT and c["err"] == "none":
                        std = T > 1 and not kw.get("unscale", True)      # a sum of standardised traits is not the sum of the inputs
                        if src == "raw" and not std:
                            crit = pop["raw"].sum(1) * sense
                        elif src == "gebv" and not std:
                            crit = pop["gebv"].sum(1) * sense
                        else:
                            prob = pr.problem(pgmat=pop["pg"], gmat=pop["pg"], ptdf=None, bvmat=pop["bv"], gpmod=pop["gm"], t_cur=0, t_max=5)
                            v = [float(prob.evalfn(np.array([x]))[0][0]) for x in range(n)]
                            v = [round(x, 9) for x in v]            # values that differ only by rounding are ties (ties are free)
                            u = sorted(set(v), reverse=True)
                            crit = np.array([u.index(x) for x in v])            # lower objective = better = larger rank value
                        c["topk"] = True; c["k"] = nc * npar; c["crit"] = [int(round(float(x))) for x in crit]
                        # twin: the same population with the taxa permuted (and possibly renamed)
                        perm = np.array(rng.sample(range(n), n)) if rng.random() < 0.75 else np.arange(n)
                        tw = twin_of(pop, perm, rng.random() < 0.5, rng)
                        try:
                            with time_limit(180), np.errstate(all="ignore"):
                                np.random.seed(seed + 1); prng.seed(seed + 1)
                                cls = type(pr)
                                # half of the twins reuse the SAME protocol object on the permuted population (nothing it kept
                                # from the first call may leak into the second)
                                pr2 = pr if rng.random() < 0.5 else \
                                    cls(ncross=nc, nparent=npar, nmating=nm, nprogeny=npg, nobj=1, obj_wt=sense, obj_trans=pr.obj_trans,
                                        obj_trans_kwargs={}, soalgo=make_soalgo(algname, rng), rng=gen(rng), **kw)
                                cfg2 = pr2.select(pgmat=tw["pg"], gmat=tw["pg"], ptdf=None, bvmat=tw["bv"], gpmod=tw["gm"], t_cur=0, t_max=5, miscout=None)
                            c["hastwin"] = True
                            c["twin"] = sorted(int(perm[int(x)]) for x in np.asarray(cfg2.xconfig_decn))
                        except Exception as e:
                            c["err"] = "twin: %s: %s" % (type(e).__name__, str(e)[:120])
                    add(c, site)

    # ---------------------------------------------------------------- (D) multi-objective protocols with a declared linear preference
    npref = 36 if thorough else 12
    for t in range(npref):
        n = rng.randrange(5, 9); L = rng.randrange(4, 7); T = 2
        pop = population(rng, n, L, T)
        fam = ("ebv", "gebv")[t % 2]
        mod, stem, kwf, src, mate = fams[fam]
        cls = getattr(importlib.import_module(SEL + mod), stem + "SubsetSelection")
        npar = 2; nc = rng.randrange(1, min(3, n // 2) + 1); k = nc * npar
        vec = [rng.choice([-2, -1, 1, 2, 3]) for _ in range(T)]; wt = [1, -1, -1, 1, -1, -1][t % 6]      # every transformation with both signs

        trans = ("dot", "sq", "max")[t % 3]

        def pref(mat, vec=None, trans=trans, **kwargs):
            w = np.asarray(mat) * np.asarray(vec, float)[None, :]
            return {"dot": w.sum(1), "sq": w.sum(1) ** 2, "max": w.max(1)}[trans]
        seed = rng.randrange(2 ** 31)
        site = "%sSubsetSelection.select[multi-objective]" % stem
        moalg = rng.choice(["NSGA2SubsetGeneticAlgorithm", "NSGA3SubsetGeneticAlgorithm"])
        c = {"kind": "pref", "wt": wt, "vec": vec, "err": "none", "algo": moalg, "trans": trans}
        try:
            with time_limit(240), np.errstate(all="ignore"):
                np.random.seed(seed); prng.seed(seed)
                pr = cls(ncross=nc, nparent=npar, nmating=1, nprogeny=2, nobj=T, ntrait=T, unscale=True, ndset_wt=float(wt), ndset_trans=pref,
                         ndset_trans_kwargs={"vec": vec}, moalgo=algo(moalg, ngen=rng.choice([3, 6]), pop_size=rng.choice([8, 16]), rng=gen(rng)), rng=gen(rng))
                mo = {}
                cfg = pr.select(pgmat=pop["pg"], gmat=pop["pg"], ptdf=None, bvmat=pop["bv"], gpmod=pop["gm"], t_cur=0, t_max=5, miscout=mo)
            ms = mo["mosoln"]
            so = np.asarray(ms.soln_obj, float) * k
            objs = np.rint(so).astype(int)
            if np.abs(so - objs).max() > 1e-6:
                c["err"] = "objective-not-on-the-integer-lattice"
            c["objs"] = objs.tolist()
            c["decns"] = [sorted(int(x) for x in r) for r in np.asarray(ms.soln_decn)]
            c["chosen"] = sorted(int(x) for x in np.asarray(cfg.xconfig_decn))
            add(c, site)
            add(cfg_case("Subset", np.asarray(cfg.xconfig_decn), cfg, n, nc, npar, meta_ok(cfg, pop["pg"], nc, npar, 1, 2)), site)
        except Exception as e:
            c.update(err="%s: %s" % (type(e).__name__, str(e)[:160]), objs=[[0, 0]], decns=[[0]], chosen=[0])
            add(c, site)

    verd = cases.validate(ctx, "XConfig_Trace", "XConfig_Trace.cfg", [{k: v for k, v in c.items() if k != "algo"} for c in allc],
                          "XConfig_Trace", chunk=150, procs=14)
    ctx.traces += len(allc)
    seen = set()
    ntop = 0; ntwin = 0
    for c in allc:
        v = verd[c["id"]]
        site = info[c["id"]]
        nt = None
        if c["kind"] == "cfg":
            if sum(1 for x in c["d"] if x > 0) >= 2 and c["nc"] * c["np"] >= 2:
                nt = repr({k: c[k] for k in c if k != "id"})
            ntop += bool(c["topk"]); ntwin += bool(c["hastwin"])
        else:
            nt = repr({k: c[k] for k in c if k != "id"})
        ctx.count(1, nt)
        if v != "ok":
            what = "%s: TLC verdict %s" % (site, v)
            if c.get("algo"):
                what += " [%s]" % c["algo"]
            if c["err"] != "none":
                what += " (%s)" % c["err"]
            ctx.violation("%s:%s" % (site, v), what, c)
        key = (c["kind"], c.get("topk"))
        if key not in seen:
            seen.add(key); ctx.sample({"case": c, "site": site, "verdict": v})
    ctx.extra["truncation_cases"] = ntop; ctx.extra["twin_cases"] = ntwin
    ctx.extra["cases_by_kind"] = {k: sum(1 for c in allc if c["kind"] == k) for k in ("cfg", "mate", "pref")}
    ctx.extra["skipped"] = notes["skipped"][:10]
    ctx.extra["runs_where_the_optimiser_chose_nobody"] = notes["empty"]
    if ntop == 0 or ntwin == 0:
        raise tlc.TLCFailure("vacuous: no truncation / twin case was produced")
    ctx.exhaustive = True
