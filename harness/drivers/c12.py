"""C12 predicted progeny variances (spec/ProgenyVar*.tla)."""
import itertools, json, math, os, random, tempfile, shutil
from fractions import Fraction
import numpy as np
from .. import tlc, cases
from ..core import time_limit, Unchanged

D = 8
LIM = 200000
SCHEME = {"2w": 2, "3w": 3, "4w": 4}


def umisc(rng, T):
    """miscellaneous random effects the model may carry next to the marker effects (no part of any progeny variance)"""
    return None if rng.random() < 0.5 else np.array([[rng.randrange(-9, 10) for _ in range(T)] for _ in range(rng.randrange(1, 4))], dtype=float)


def tables(ctx, thorough):
    """TLC pushes the genotype distribution through the pedigree and emits the joint-origin tables"""
    tabs = []
    for K, cfg in ((2, "ProgenyVar_MC2.cfg"), (3, "ProgenyVar_MC3.cfg"), (4, "ProgenyVar_MC4T.cfg" if thorough else "ProgenyVar_MC4.cfg")):
        r = tlc.run("ProgenyVar_MC", cfg, coverage=True, timeout=3000)
        tlc.must_pass(r, cfg); ctx.add_tlc(r, cfg)
        if r.violated:
            ctx.violation("spec:ProgenyVar:" + r.violated, "TLC: %s violated (design-level)" % r.violated, r.error)
        for a in ("First", "SelfStep") + (("Second",) if K > 2 else ()):
            if r.coverage.get(a, (0, 0))[1] == 0:
                raise tlc.TLCFailure("vacuous: %s never taken in %s" % (a, cfg))
        seen = set()
        for t in r.json:
            key = (t["scheme"], t["s"], t["rho"])
            if key not in seen:
                seen.add(key); tabs.append(t)
    return tabs


def delta_for(rho):
    r = rho / D
    return -0.5 * math.log(1.0 - 2.0 * r) if r < 0.5 else None


def layout(rng, multi=False):
    """chromosomes of 1-3 loci whose pairwise Haldane recombination fractions are all multiples of 1/8"""
    chroms = []
    for q in range(rng.randrange(1, 4)):
        kind = rng.choice(["one", "two", "two", "three", "tied"])
        if multi and q == 0:
            kind = rng.choice(["three", "tied"])        # a chromosome longer than the chunk sizes 1 and 2
        if kind == "one":
            chroms.append([0.0])
        elif kind == "two":
            chroms.append([0.0, delta_for(rng.choice([1, 2, 3]))])
        elif kind == "tied":
            chroms.append([0.0, 0.0, delta_for(2)])
        else:
            d = delta_for(2)
            chroms.append([0.0, d, 2 * d])         # r12 = r23 = 1/4, r13 = 3/8
    return chroms


def rho_matrix(chroms):
    pos = [(c, x) for c, ch in enumerate(chroms) for x in ch]
    L = len(pos)
    M = [[0] * L for _ in range(L)]
    for i in range(L):
        for j in range(L):
            if pos[i][0] != pos[j][0]:
                M[i][j] = D // 2
            else:
                r = 0.5 * (1.0 - math.exp(-2.0 * abs(pos[i][1] - pos[j][1])))
                k = round(r * D)
                assert abs(r * D - k) < 1e-9
                M[i][j] = int(k)
    return M


_UC_ENC = itertools.count()
_MEM_CYCLE = {(sc_, cv_): itertools.count() for sc_ in ("2w", "3w", "4w") for cv_ in (False, True)}
_TABLE_MODE = {"2w": itertools.count(1), "3w": itertools.count(2)}


def one_case(cid, rng, scheme, s, genic, cov, thorough):
    import importlib
    from pybrops.popgen.gmat.DensePhasedGenotypeMatrix import DensePhasedGenotypeMatrix
    from pybrops.model.gmod.DenseAdditiveLinearGenomicModel import DenseAdditiveLinearGenomicModel
    from pybrops.popgen.gmap.HaldaneMapFunction import HaldaneMapFunction
    K = SCHEME[scheme]
    # chunk size: cycled deterministically so that every class meets 1 and 2 (chunking active) in each tier
    k_ = next(_MEM_CYCLE[(scheme, bool(cov))])       # per scheme, so that skipped plan entries cannot starve a scheme of small chunk sizes
    mem = [1, 2, None, 1024][k_ % 4] if not cov else [1, 1, 2][k_ % 3]
    chroms = layout(rng, multi=mem in (1, 2))
    lone = cid % 3 == 0
    if lone:
        chroms.append([0.0])                     # systematically: a chromosome of exactly ONE marker, at which the parents differ
    L = sum(len(c) for c in chroms)
    n = rng.randrange(2, 5) if K < 4 else rng.randrange(2, 4)
    T = rng.choice([2, 3]) if cov else rng.randrange(1, 3)
    A = np.array([[rng.randrange(2) for _ in range(L)] for _ in range(n)], dtype="int8")
    if rng.random() < 0.3 and n > 1:
        A[1] = A[0]                              # genetically identical parents
    u = np.array([[rng.choice([-2, -1, 0, 1, 2]) for _ in range(T)] for _ in range(L)], dtype=float)
    if lone:
        A[:, -1] = [i % 2 for i in range(n)]; u[-1, :] = rng.choice([-2, -1, 1, 2])
    if mem in (1, 2) and n >= 2 and len(chroms[0]) >= 3:
        # chunking active on the first chromosome: two parents that differ at its first and its last marker in opposite directions, both
        # markers with an effect (the cross-chunk terms of the two orders of a marker pair then differ)
        A[0, :3] = [1, 0, 0]; A[1, :3] = [0, 0, 1]
        for l_ in (0, 2):
            if not u[l_].all():
                u[l_, :] = rng.choice([-2, -1, 1, 2])
    chrgrp = np.array([k + 1 for k, ch in enumerate(chroms) for _ in ch], dtype="int64")
    genpos = np.array([x for ch in chroms for x in ch], dtype=float)
    pg = DensePhasedGenotypeMatrix(np.stack([A, A]), taxa=np.array(["p%d" % i for i in range(n)], dtype=object),
                                   taxa_grp=np.arange(n, dtype="int64"), vrnt_chrgrp=chrgrp,
                                   vrnt_phypos=np.arange(1, L + 1, dtype="int64"), vrnt_genpos=genpos, vrnt_xoprob=np.full(L, 0.1))
    pg.group_vrnt()
    gm = DenseAdditiveLinearGenomicModel(beta=np.zeros((1, T)), u_misc=umisc(rng, T), u_a=u, trait=np.array(["t%d" % t for t in range(T)], dtype=object))
    way = {"2w": "TwoWay", "3w": "ThreeWay", "4w": "FourWay"}[scheme]
    if cov:
        name = "Dense%sDHAdditiveProgeny%sCovarianceMatrix" % (way, "Genic" if genic else "Genetic"); pkg = "pybrops.model.pcvmat."
    else:
        name = "Dense%sDHAdditive%sVarianceMatrix" % (way, "Genic" if genic else "Genetic"); pkg = "pybrops.model.vmat."
    cls = getattr(importlib.import_module(pkg + name), name)
    c = {"id": cid, "scheme": scheme, "K": K, "D": D, "s": s, "genic": genic, "A": A.astype(int).tolist(), "u": u.astype(int).tolist(),
         "rhoM": rho_matrix(chroms), "err": None, "cls": name, "mem": repr(mem), "cov": cov}
    guard = Unchanged(genotypes=pg, model=gm)
    try:
        with time_limit(120), np.errstate(all="ignore"):
            nself = math.inf if s == -1 else s
            if genic:
                obj = cls.from_algmod(gm, pg, 10, mem if mem else 1000)
            else:
                obj = cls.from_algmod(gm, pg, 1, 10, nself, HaldaneMapFunction(), mem)
            pm = list(range(n))
            if n >= 2 and rng.random() < 0.4:
                # the matrix is reordered / sorted / grouped IN PLACE along its taxa axes before it is read: the entry for a
                # tuple of positions is then the value of the cross of the taxa now standing at these positions
                how = rng.choice(["reorder_taxa", "reorder_taxa", "sort_taxa", "group_taxa"])
                if how == "reorder_taxa":
                    q = list(range(n)); rng.shuffle(q); obj.reorder_taxa(np.array(q))
                else:
                    getattr(obj, how)()
                pm = [int(str(x)[1:]) for x in obj.taxa]       # taxa are named p<i>
                c["inplace"] = how
            M = np.asarray(obj.mat, dtype=float)
            tmode = next(_TABLE_MODE[scheme]) % 4 if (not cov and scheme in ("2w", "3w")) else 0   # 0 matrix, 1 exported table, 2 / 3 partial table loaded
            if tmode:
                # the variances are read through the EXPORTED table (to_pandas): the row naming a cross by its parents' names holds
                # the variance of that cross, whatever happened to the matrix in place before
                try:
                    df = obj.to_pandas()
                    cols = ["recurrent", "female", "male"] if scheme == "3w" else ["female", "male"]
                    names = [str(x) for x in obj.taxa]
                    # (from_algmod does not hand the model's trait names on; the table then numbers the traits in order)
                    tn = [str(x) for x in obj.trait] if obj.trait is not None else list(dict.fromkeys(str(x) for x in df["trait"]))
                    M2 = np.full(M.shape, np.nan)
                    for _, r_ in df.iterrows():
                        M2[tuple(names.index(str(r_[cc])) for cc in cols) + (tn.index(str(r_["trait"])),)] = float(r_["variance"])
                    M = M2; c["via_table"] = True
                    if tmode >= 2:
                        # ... and the table is LOADED again (from_pandas) after rows were dropped from it: one row per unordered cross, or a
                        # hand-picked subset of crosses, so that some parents stand in one parent column only.  The loaded matrix holds, for
                        # every cross the table lists, the variance the table gives for it
                        pos_of = lambda r_: tuple(names.index(str(r_[cc])) for cc in cols)
                        if tmode == 2:
                            keep = [pos_of(r_)[-2] <= pos_of(r_)[-1] for _, r_ in df.iterrows()]
                        else:
                            chosen = set(rng.sample(list(itertools.product(range(n), repeat=K)), max(1, (n ** K) // 3)))
                            keep = [pos_of(r_) in chosen for _, r_ in df.iterrows()]
                        part = df[np.array(keep, dtype=bool)].reset_index(drop=True)
                        if len(part):
                            obj2 = type(obj).from_pandas(part)
                            names2 = [str(x) for x in obj2.taxa]
                            tn2 = [str(x) for x in obj2.trait] if obj2.trait is not None else tn
                            M3 = np.full(M.shape, np.nan); listed = set()
                            for _, r_ in part.iterrows():
                                ps = pos_of(r_); listed.add(ps)
                                M3[ps + (tn.index(str(r_["trait"])),)] = float(np.asarray(obj2.mat)[tuple(names2.index(str(r_[cc])) for cc in cols) + (tn2.index(str(r_["trait"])),)])
                            M = M3; c["via_table"] = "partial table loaded"; c["listed"] = listed
                except (AttributeError, NotImplementedError):
                    pass
            ok = True
            ents = []
            tuples = list(itertools.product(range(n), repeat=K))
            if c.get("listed"):
                tuples = sorted(c.pop("listed"))
            if len(tuples) > 40:
                tuples = rng.sample(tuples, 40)
            for pos in tuples:
                par = tuple(pm[i] for i in pos)
                for t1 in range(T):
                    t2s = range(T) if cov else [t1]
                    for t2 in t2s:
                        x = M[pos + ((t1, t2) if cov else (t1,))]
                        if not np.isfinite(x):
                            ok = False; f = Fraction(0)
                        else:
                            f = Fraction(float(x)).limit_denominator(LIM)
                            if abs(float(f) - x) > 1e-9 * max(1.0, abs(x)):
                                ok = False
                        ents.append([list(par), t1 + 1, t2 + 1, f.numerator, f.denominator])
            c["entries"] = ents; c["lat"] = ok
            c["labels"] = list(obj.taxa) == [pg.taxa[i] for i in pm] and sorted(pm) == list(range(n)) and not guard.changed()
    except Exception as e:
        c["err"] = "%s: %s" % (type(e).__name__, str(e)[:200])
    c.setdefault("entries", []); c.setdefault("lat", False); c.setdefault("labels", True)
    return c


def dihybrid_case(cid, rng, s, genic, cov=False):
    """DH progeny of a cross between two NON-inbred individuals: the four parental haplotypes play the roles of the four
    inbred grandparents of the four-way scheme after its first hybridisation, so the four-way tables apply with the
    haplotypes as origins: entry [i, j] <-> four-way tuple [j.0, j.1, i.0, i.1]"""
    import importlib
    from pybrops.popgen.gmat.DensePhasedGenotypeMatrix import DensePhasedGenotypeMatrix
    from pybrops.model.gmod.DenseAdditiveLinearGenomicModel import DenseAdditiveLinearGenomicModel
    from pybrops.popgen.gmap.HaldaneMapFunction import HaldaneMapFunction
    mem = [1, 2, None, 1024][cid % 4]
    chroms = layout(rng, multi=mem in (1, 2))
    L = sum(len(c) for c in chroms)
    n = rng.randrange(2, 4); T = rng.choice([2, 3]) if cov else rng.randrange(1, 3)
    H = np.array([[rng.randrange(2) for _ in range(L)] for _ in range(2 * n)], dtype="int8")      # haplotype rows 2i, 2i+1
    if rng.random() < 0.3:
        H[1] = H[0]                                  # a homozygous individual among heterozygous ones
    ph = np.stack([H[0::2], H[1::2]])
    u = np.array([[rng.choice([-2, -1, 0, 1, 2]) for _ in range(T)] for _ in range(L)], dtype=float)
    chrgrp = np.array([k + 1 for k, ch in enumerate(chroms) for _ in ch], dtype="int64")
    genpos = np.array([x for ch in chroms for x in ch], dtype=float)
    pg = DensePhasedGenotypeMatrix(ph, taxa=np.array(["h%d" % i for i in range(n)], dtype=object), taxa_grp=np.arange(n, dtype="int64"),
                                   vrnt_chrgrp=chrgrp, vrnt_phypos=np.arange(1, L + 1, dtype="int64"), vrnt_genpos=genpos, vrnt_xoprob=np.full(L, 0.1))
    pg.group_vrnt()
    gm = DenseAdditiveLinearGenomicModel(beta=np.zeros((1, T)), u_misc=umisc(rng, T), u_a=u, trait=np.array(["t%d" % t for t in range(T)], dtype=object))
    if cov:
        name = "DenseDihybridDHAdditiveProgenyGeneticCovarianceMatrix"; pkg = "pybrops.model.pcvmat."
    else:
        name = "DenseDihybridDHAdditive%sVarianceMatrix" % ("Genic" if genic else "Genetic"); pkg = "pybrops.model.vmat."
    cls = getattr(importlib.import_module(pkg + name), name)
    c = {"id": cid, "scheme": "4w", "K": 4, "D": D, "s": s, "genic": genic, "A": H.astype(int).tolist(), "u": u.astype(int).tolist(),
         "rhoM": rho_matrix(chroms), "err": None, "cls": name, "mem": repr(mem), "cov": cov}
    try:
        with time_limit(120), np.errstate(all="ignore"):
            if genic:
                obj = cls.from_algmod(gm, pg, 10, mem if mem else 1000)
            else:
                obj = cls.from_algmod(gm, pg, 1, 10, math.inf if s == -1 else s, HaldaneMapFunction(), mem)
            M = np.asarray(obj.mat, dtype=float)
            ok = True; ents = []
            for i in range(n):
                for j in range(n):
                    for t, t2 in ([(a_, b_) for a_ in range(T) for b_ in range(T)] if cov else [(a_, a_) for a_ in range(T)]):
                        x = M[i, j, t, t2] if cov else M[i, j, t]
                        if not np.isfinite(x):
                            ok = False; f = Fraction(0)
                        else:
                            f = Fraction(float(x)).limit_denominator(LIM)
                            if abs(float(f) - x) > 1e-9 * max(1.0, abs(x)):
                                ok = False
                        ents.append([[2 * j, 2 * j + 1, 2 * i, 2 * i + 1], t + 1, t2 + 1, f.numerator, f.denominator])
            c["entries"] = ents; c["lat"] = ok
            c["labels"] = list(obj.taxa) == list(pg.taxa)
    except Exception as e:
        c["err"] = "%s: %s" % (type(e).__name__, str(e)[:200])
    c.setdefault("entries", []); c.setdefault("lat", False); c.setdefault("labels", True)
    return c


def uc_case(cid, rng, s, scheme="2w"):
    """usefulness criterion = expected progeny mean + intensity * sqrt(progeny variance): the implied variance is validated. The
    expected progeny mean weights the parents by their Mendelian shares (the MarginalShares invariant of ProgenyVar: 1/2, 1/2 --
    1/2, 1/4, 1/4 with the recurrent parent first -- 1/4 each)"""
    import importlib
    from pybrops.popgen.gmat.DensePhasedGenotypeMatrix import DensePhasedGenotypeMatrix
    from pybrops.model.gmod.DenseAdditiveLinearGenomicModel import DenseAdditiveLinearGenomicModel
    from pybrops.popgen.gmap.HaldaneMapFunction import HaldaneMapFunction
    from pybrops.breed.prot.sel.prob.UsefulnessCriterionSelectionProblem import UsefulnessCriterionSelectionProblemMixin as UC
    way = {"2w": "TwoWay", "3w": "ThreeWay", "4w": "FourWay"}[scheme]; K = SCHEME[scheme]
    fname = "Dense%sDHAdditiveGeneticVarianceMatrixFactory" % way
    F = getattr(importlib.import_module("pybrops.model.vmat.fcty." + fname), fname)
    shares = {"2w": [0.5, 0.5], "3w": [0.5, 0.25, 0.25], "4w": [0.25] * 4}[scheme]
    chroms = layout(rng, multi=True)          # a chromosome of three linked markers: the variance then depends on the selfing depth
    L = sum(len(c) for c in chroms); n = rng.randrange(2, 5) if K == 2 else rng.randrange(2, 4); T = rng.randrange(1, 3)
    A = np.array([[rng.randrange(2) for _ in range(L)] for _ in range(n)], dtype="int8")
    u = np.array([[rng.choice([-2, -1, 1, 2]) for _ in range(T)] for _ in range(L)], dtype=float)
    A[0, :3] = [1, 0, 1]; A[1, :3] = [0, 1, 0]    # two parents in repulsion at the linked markers
    chrgrp = np.array([k + 1 for k, ch in enumerate(chroms) for _ in ch], dtype="int64")
    pg = DensePhasedGenotypeMatrix(np.stack([A, A]), taxa=np.array(["p%d" % i for i in range(n)], dtype=object),
                                   taxa_grp=np.arange(n, dtype="int64"), vrnt_chrgrp=chrgrp, vrnt_phypos=np.arange(1, L + 1, dtype="int64"),
                                   vrnt_genpos=np.array([x for ch in chroms for x in ch], dtype=float), vrnt_xoprob=np.full(L, 0.1))
    pg.group_vrnt()
    gm = DenseAdditiveLinearGenomicModel(beta=np.array([[3.0] * T]), u_misc=umisc(rng, T), u_a=u, trait=np.array(["t%d" % t for t in range(T)], dtype=object))
    c = {"id": cid, "scheme": scheme, "K": K, "D": D, "s": s, "genic": False, "A": A.astype(int).tolist(), "u": u.astype(int).tolist(),
         "rhoM": rho_matrix(chroms), "err": None, "cls": "UsefulnessCriterionSelectionProblem._calc_uc[%s]" % scheme, "mem": "-", "cov": False, "labels": True}
    try:
        with time_limit(120), np.errstate(all="ignore"):
            inten = rng.choice([1.0, 2.0, 0.5])
            xmap = UC._calc_xmap(n, K, rng.random() < 0.5 and n >= K)
            if len(xmap) > 24:
                xmap = np.asarray(xmap)[sorted(rng.sample(range(len(xmap)), 24))]
            enc = ["Real", "helper", "Subset", "Integer", "Binary", "Real"][next(_UC_ENC) % 6]
            if enc == "helper":
                uc = np.asarray(UC._calc_uc(F(), 1, 10, s, HaldaneMapFunction(), inten, pg, gm, xmap), dtype=float)
            else:
                # the usefulness criteria HELD BY A PROBLEM built through the factory of each decision encoding (each class hands the
                # progeny number and the selfing depth on by itself); intensity from the upper percentile
                import scipy.stats
                pct = rng.choice([0.1, 0.25, 0.5]); inten = float(scipy.stats.norm.pdf(scipy.stats.norm.ppf(1.0 - pct)) / pct)
                uniq = rng.random() < 0.5 and n >= K
                nx = len(UC._calc_xmap(n, K, uniq))
                Pcls = getattr(importlib.import_module("pybrops.breed.prot.sel.prob.UsefulnessCriterionSelectionProblem"),
                               "UsefulnessCriterion%sMateSelectionProblem" % enc)
                if enc == "Subset":
                    sp = dict(ndecn=1, decn_space=np.arange(nx), decn_space_lower=np.repeat(0, 1), decn_space_upper=np.repeat(nx - 1, 1))
                else:
                    lo = np.repeat(0.0 if enc == "Real" else 0, nx); up = np.repeat({"Real": 1.0, "Integer": 3, "Binary": 1}[enc], nx)
                    sp = dict(ndecn=nx, decn_space=np.stack([lo, up]), decn_space_lower=lo, decn_space_upper=up)
                pr = Pcls.from_pgmat_gpmod(K, 1, 10, s, pct, F(), HaldaneMapFunction(), uniq, pg, gm, nobj=T, **sp)
                uc = np.asarray(pr.ucmat, dtype=float); xmap = np.asarray(pr.decn_space_xmap)
                if len(xmap) > 24:
                    keep_ = sorted(rng.sample(range(len(xmap)), 24)); xmap = xmap[keep_]; uc = uc[keep_]
                c["cls"] = "UsefulnessCriterion%sMateSelectionProblem.from_pgmat_gpmod[%s]" % (enc, scheme)
            bv = np.asarray(gm.gebv(pg).unscale(), dtype=float)
            ok = True; ents = []
            for k, par in enumerate(np.asarray(xmap).tolist()):
                pmean = np.asarray(shares) @ bv[par, :]
                for t in range(T):
                    dv = (uc[k, t] - pmean[t]) / inten
                    if dv < -1e-9:
                        ok = False
                    f = Fraction(float(dv * dv)).limit_denominator(LIM)
                    if not np.isfinite(dv) or abs(float(f) - dv * dv) > 1e-8 * max(1.0, dv * dv):
                        ok = False
                    ents.append([list(par), t + 1, t + 1, f.numerator, f.denominator])
            c["entries"] = ents; c["lat"] = ok
    except Exception as e:
        c["err"] = "%s: %s" % (type(e).__name__, str(e)[:200])
    c.setdefault("entries", []); c.setdefault("lat", False)
    return c


def classify(c, e):
    """which kind of parent tuple failed (input classification for the finding key, not a verdict)"""
    par = e[0]
    k = len(par)
    if len(set(par)) == k:
        return "distinct-parents"
    if c["scheme"] == "2w":
        return "diagonal(f=m)"
    if c["scheme"] == "3w":
        if par[1] == par[2]:
            return "female=male"
        return "recurrent-repeats-a-hybrid-parent"
    if par[2] == par[3] or par[0] == par[1]:
        return "a-hybrid-pair-repeats-one-parent"
    return "parents-shared-between-the-two-hybrids"


def run(ctx):
    rng = random.Random(ctx.seed)
    thorough = ctx.tier == "thorough"
    ctx.rule = ("TLC pushes the exact distribution over origin-labelled two-locus genotypes through hybridisation, backcross / "
                "second hybridisation and selfing generations for every recombination fraction k/8 (two-, three-, four-way schemes), "
                "checks it against the closed recurrence, Mendelian shares and symmetry, and emits the joint-origin tables; entries "
                "of the real variance / covariance matrices (all parent tuples incl. repeated parents, chunk sizes 1/2/None, selfing "
                "depth 0..3 and infinite) are validated by TLC against the enumeration; distinct by full input")
    ctx.assume("inbred parents, Haldane map positions chosen so that every pairwise recombination fraction is a multiple of 1/8",
               "infinite selfing: TLC's limit stage (recombinant share 2r/(1+2r) of completely inbred lines, checked by TLC to be invariant under one more enumerated selfing generation)",
               "observed entries converted with Fraction.limit_denominator(200000), residual 1e-9")
    tabs = tables(ctx, thorough)
    have = {(t["scheme"], t["s"]) for t in tabs}
    tmp = tempfile.mkdtemp(prefix="c12_")
    try:
        tf = os.path.join(tmp, "tables.json")
        with open(tf, "w") as f:
            json.dump(tabs, f)
        plan = []
        reps = 3 if thorough else 1
        for _ in range(reps):
            for s in (0, 1, 2, 3, -1):
                plan.append(("2w", s, False, False)); plan.append(("2w", s, False, False))
            plan.append(("2w", 0, True, False)); plan.append(("2w", 0, True, False))
            for s in (0, 1, 2, -1):
                plan.append(("3w", s, False, False)); plan.append(("3w", s, False, False))
            for s in (0, 1, 2, -1):
                plan.append(("4w", s, False, False))
            for s in (0, 1, 2, -1):
                plan.append(("2w", s, False, True)); plan.append(("2w", s, False, True))
            plan.append(("3w", -1, False, True)); plan.append(("4w", -1, False, True))
            plan.append(("3w", 0, True, False)); plan.append(("4w", 0, True, False))
            plan.append(("3w", 1, False, True)); plan.append(("4w", 0, False, True))
            plan.append(("3w", 0, False, True)); plan.append(("4w", 1, False, True))   # the genic covariance classes are abstract (not instantiable)
        allc = []
        for scheme, s, genic, cov in plan:
            if (scheme, s) not in have:
                continue
            try:
                allc.append(one_case(len(allc) + 1, rng, scheme, s, genic, cov, thorough))
            except (ImportError, AttributeError) as e:
                ctx.extra.setdefault("skipped_classes", []).append(str(e)[:80])
        for s in (0, 1, 2):
            for _ in range(3 if thorough else 1):
                allc.append(uc_case(len(allc) + 1, rng, s))
        for scheme, s in (("3w", 0), ("3w", 1), ("4w", 0)):
            if (scheme, s) in have:
                allc.append(uc_case(len(allc) + 1, rng, s, scheme))
        for s, genic, cov in ((0, False, False), (1, False, False), (0, True, False), (1, False, False), (0, False, True), (1, False, True),
                              (-1, False, False), (-1, False, True)):
            if ("4w", s) in have:
                for _ in range(2 if thorough else 1):
                    allc.append(dihybrid_case(len(allc) + 1, rng, s, genic, cov))
        verd = cases.validate(ctx, "ProgenyVar_Trace", "ProgenyVar_Trace.cfg",
                              [{k: v for k, v in c.items() if k not in ("cls", "mem", "cov", "labels", "inplace", "via_table")} for c in allc],
                              "ProgenyVar_Trace", chunk=3, procs=14, env={"TABLE_FILE": tf}, timeout=3000)
    finally:
        shutil.rmtree(tmp, ignore_errors=True)
    ctx.traces += len(allc)
    for c in allc:
        v, k = verd[c["id"]]
        ctx.count(len(c["entries"]) or 1, repr((c["cls"], c["s"], c["A"], c["u"], c["rhoM"])))
        if not c["labels"]:
            ctx.violation("%s.from_algmod:labels" % c["cls"], "taxa labels differ from the population's, or the call modified the genotype matrix / model it was given", None)
        if v != "ok":
            key = "%s.from_algmod:%s" % (c["cls"], v)
            det = {kk: c[kk] for kk in c if kk != "entries"}
            if k:
                e = c["entries"][k - 1]
                key += ":" + classify(c, e)
                det["entry"] = e
            ctx.violation(key, "TLC verdict %s (nself=%s, mem=%s)%s" % (v, c["s"], c["mem"], " -- " + c["err"] if c["err"] else ""), det)
    s0 = allc[0]
    ctx.sample({k: s0[k] for k in ("cls", "scheme", "s", "A", "u", "rhoM")} | {"entries_head": s0["entries"][:4], "verdict": verd[s0["id"]]})
    ctx.extra["tables"] = len(tabs)
