"""C04 genomic-model predictions (spec/LinModel*.tla)."""
import random
from fractions import Fraction
import numpy as np
from .. import tlc, cases
from ..core import time_limit


def ints(x, ok, scale=1.0):
    v = np.asarray(x, dtype=float) * scale
    r = np.rint(np.where(np.isfinite(v), v, 0.0))
    if not np.all(np.isfinite(v)) or not np.all(np.abs(v - r) <= 1e-6 * np.maximum(1.0, np.abs(r))):
        ok[0] = False
    return r.astype(np.int64).tolist()


def predict_case(cid, rng, big, edited=False, nfix=None):
    from pybrops.model.gmod.DenseAdditiveLinearGenomicModel import DenseAdditiveLinearGenomicModel as ADD
    from pybrops.model.gmod.DenseAdditiveDominanceLinearGenomicModel import DenseAdditiveDominanceLinearGenomicModel as DOM
    from pybrops.popgen.gmat.DensePhasedGenotypeMatrix import DensePhasedGenotypeMatrix
    from pybrops.popgen.gmat.DenseGenotypeMatrix import DenseGenotypeMatrix
    from pybrops.breed.prot.bv.TrueBreedingValue import TrueBreedingValue
    n = rng.randrange(4, 61) if big else rng.randrange(1, 4)
    p = rng.randrange(2, 13) if big else rng.randrange(1, 3)
    T = rng.randrange(1, 3)
    dom = rng.random() < 0.4
    # ploidy = number of phase planes of the phased matrix; heterozygosity indicators (dominance) are defined for diploids
    P = 2 if (dom or rng.random() < 0.7) else rng.choice([1, 3, 4, 4, 6])
    if nfix:                                    # population sizes at which (1/m)*m is not 1.0 in floating point
        n, P = nfix; p = rng.randrange(3, 6); dom = dom and P == 2
    ph = np.array([[[rng.randrange(2) for _ in range(p)] for _ in range(n)] for _ in range(P)], dtype="int8")
    if rng.random() < 0.3 or nfix:
        ph[:, :, 0] = rng.randrange(2)          # a monomorphic marker
    if nfix:
        ph[:, :, 1] = 1; ph[:, :, 2] = rng.randrange(2)
    if P > 2 and rng.random() < 0.5:
        ph[:2, :, :] = 0                        # the allele is carried on the later chromosome copies only
    Z = ph.sum(0).astype(int)
    u = np.array([[rng.choice([-2, -1, 0, 0, 1, 2]) for _ in range(T)] for _ in range(p)], dtype=float)
    d = np.array([[rng.choice([-1, 0, 1, 2]) for _ in range(T)] for _ in range(p)], dtype=float) if dom else np.zeros((p, T))
    q = rng.choice([1, 1, 2])
    beta = np.array([[rng.choice([-4, 0, 2, 10]) for _ in range(T)] for _ in range(q)], dtype=float)
    bstar = beta[0] + (beta[1:].sum(0) / q if q > 1 else 0.0)
    taxa = np.array(["tx%d" % rng.randrange(100) for _ in range(n)], dtype=object)
    grp = np.array([rng.randrange(3) for _ in range(n)], dtype="int64")
    trait = np.array(["tr%d" % t for t in range(T)], dtype=object)
    c = {"id": cid, "kind": "predict", "Z": Z.tolist(), "u": u.astype(int).tolist(), "d": d.astype(int).tolist(),
         "b": [int(x) for x in bstar], "dom": dom, "q": q, "err": None, "ploidy": P}
    try:
        with time_limit(60), np.errstate(all="ignore"):
            pg = DensePhasedGenotypeMatrix(ph, taxa=taxa, taxa_grp=grp)
            ug = DenseGenotypeMatrix(Z.astype("int8"), taxa=taxa, taxa_grp=grp, ploidy=P)
            if edited:
                # the model is first built with other effects and USED (anything it memoises is now filled), then its
                # effect arrays are overwritten in place with the values the case is about
                u0 = u + 1.0; d0 = d - 1.0; b0 = beta + 3.0
                model = DOM(beta=b0, u_misc=None, u_a=u0, u_d=d0, trait=trait) if dom else ADD(beta=b0, u_misc=None, u_a=u0, trait=trait)
                X0 = np.tile(np.array([[1.0] + [1.0 / q] * (q - 1)]), (n, 1))
                model.predict(X0, pg); model.gebv(pg); model.gegv(ug); model.score(np.zeros((n, T)), X0, pg); model.u; model.var_A(pg); model.usl(pg); model.facount(ug)
                model.u_a[...] = u; model.beta[...] = beta
                if dom:
                    model.u_d[...] = d
                c["edited"] = True
            else:
                model = DOM(beta=beta, u_misc=None, u_a=u, u_d=d, trait=trait) if dom else ADD(beta=beta, u_misc=None, u_a=u, trait=trait)
            ok = [True]
            outs = []
            for src in (pg, ug):
                bv = model.gebv(src); gv = model.gegv(src)
                outs.append((ints(bv.unscale(), ok), ints(gv.unscale(), ok)))
                if list(bv.taxa) != list(taxa) or list(bv.taxa_grp) != list(grp) or list(gv.taxa) != list(taxa) or list(bv.trait) != list(trait):
                    c["labelsok"] = False
            braw = model.gebv(Z.astype(float)); graw = model.gegv(Z.astype(float))
            outs.append((ints(braw.unscale(), ok), ints(graw.unscale(), ok)))
            tb = TrueBreedingValue(model).estimate(ptobj=None, gtobj=pg) if not dom else None
            if tb is not None:
                outs.append((ints(tb.unscale(), ok), outs[0][1]))
                if list(tb.taxa) != list(taxa):
                    c["labelsok"] = False
            c.setdefault("labelsok", True)
            c["gebv"] = outs[0][0]; c["gegv"] = outs[0][1]
            # predict(): with covariate rows [1, 1/q, ...] the prediction is the genotypic value
            Xs = np.tile(np.array([[1.0] + [1.0 / q] * (q - 1)]), (n, 1))
            preds = [ints(model.predict(Xs, src).unscale(), ok) for src in (pg, ug, Z.astype(float))]
            c["pred"] = preds[0] if all(pp == preds[0] for pp in preds) else [[-999996] * T] * n
            # responses as float64 or in an integer dtype (counts / scores), with ranges whose squares exceed the dtype
            ydt, yr = rng.choice([(float, 6), (float, 6), ("int8", 100), ("int16", 200 if n <= 4 else 100), ("int32", 6), ("int64", 200 if n <= 4 else 100)])
            Y = np.array([[rng.randrange(-yr, yr + 1) for _ in range(T)] for _ in range(n)], dtype=ydt)
            c["Y"] = Y.astype(int).tolist(); c["ydtype"] = str(np.dtype(ydt))
            r2 = np.asarray(model.score(Y, Xs, pg), dtype=float)
            c["r2"] = []; c["r2nan"] = []; c["r2on"] = n <= 8
            for x in r2:
                if not np.isfinite(x):
                    c["r2"].append([0, 1]); c["r2nan"].append(True)
                else:
                    f = Fraction(float(x)).limit_denominator(10 ** 6)      # n * SST <= 8 * 8 * 100^2 (4 * 4 * 200^2)
                    if n <= 8 and abs(float(f) - x) > 1e-9 * max(1.0, abs(x)):
                        ok[0] = False
                    c["r2"].append([f.numerator, f.denominator]); c["r2nan"].append(False)
            if any(o != outs[0] for o in outs[1:]):
                c["gebv"] = [[-999999] * T] * n        # the input forms disagree: cannot all equal the definition
            # a taxon permutation and a marker split must give the same values per taxon
            perm = list(range(n)); rng.shuffle(perm)
            pgp = DensePhasedGenotypeMatrix(ph[:, perm, :].copy(), taxa=taxa[perm], taxa_grp=grp[perm])
            bp = ints(model.gebv(pgp).unscale(), ok)
            if [bp[perm.index(i)] for i in range(n)] != c["gebv"]:
                c["gebv"] = [[-999998] * T] * n
            if not dom and p >= 2:
                s = rng.randrange(1, p)
                m1 = ADD(beta=beta, u_misc=None, u_a=u[:s], trait=trait); m2 = ADD(beta=np.zeros_like(beta), u_misc=None, u_a=u[s:], trait=trait)
                part = np.asarray(m1.gebv(Z[:, :s].astype(float)).unscale()) + np.asarray(m2.gebv(Z[:, s:].astype(float)).unscale())
                if ints(part, ok) != c["gebv"]:
                    c["gebv"] = [[-999997] * T] * n
            nn = float(n * n)
            c["varA"] = ints(model.var_A(pg), ok, nn); c["varG"] = ints(model.var_G(pg), ok, nn)
            c["vara"] = ints(model.var_a(pg), ok, nn)
            bul = np.asarray(model.bulmer(pg), dtype=float)
            c["bulnan"] = [bool(np.isnan(x)) for x in bul]
            c["bul"] = []; c["bulon"] = n <= 10
            for x in bul:
                if np.isnan(x):
                    c["bul"].append([0, 1])
                else:
                    f = Fraction(float(x)).limit_denominator(5000)
                    if n <= 10 and abs(float(f) - x) > 1e-9 * max(1.0, abs(x)):
                        ok[0] = False
                    c["bul"].append([f.numerator, f.denominator])
            for key, fn in (("fa", model.facount), ("da", model.dacount)):
                c[key] = np.asarray(fn(ug)).astype(int).tolist()
            c["fafreq2n"] = ints(model.fafreq(pg), ok, float(P * n)); c["dafreq2n"] = ints(model.dafreq(pg), ok, float(P * n))
            for key in ("faavail", "fafixed", "fapoly", "daavail", "dafixed", "dapoly", "nafixed", "napoly"):
                c[key] = np.asarray(getattr(model, key)(pg if key[0] != "n" else ug)).astype(bool).tolist()
            c["lat"] = ok[0]
    except Exception as e:
        c["err"] = "%s: %s" % (type(e).__name__, str(e)[:200])
    zT = [[0] * T] * n; zL = [[0] * T] * p; fL = [[False] * T] * p
    for k, dflt in (("bulon", False), ("r2on", False), ("pred", zT), ("Y", zT), ("r2", [[0, 1]] * T), ("r2nan", [True] * T), ("gebv", zT), ("gegv", zT), ("varA", [0] * T), ("varG", [0] * T), ("vara", [0] * T), ("bulnan", [True] * T), ("bul", [[0, 1]] * T),
                    ("fa", zL), ("da", zL), ("fafreq2n", zL), ("dafreq2n", zL), ("lat", False), ("labelsok", False)):
        c.setdefault(k, dflt)
    for k in ("faavail", "fafixed", "fapoly", "daavail", "dafixed", "dapoly", "nafixed", "napoly"):
        c.setdefault(k, fL)
    return c


def ridge_case(cid, rng, via="fit_numpy"):
    """via: fit_numpy | fit_ndarray | fit_bvmat_centred (from_numpy: location = column mean) | fit_bvmat_raw (stored values
    with location 0 / scale 1) | fit_bvmat_ref (stored values relative to a user-supplied reference location and scale);
    in every form the training data are the UNSCALED values y and the intercept must be their mean"""
    from pybrops.model.gmod.rrBLUPModel0 import rrBLUPModel0
    n = rng.randrange(3, 9); p = rng.randrange(1, 4) if rng.random() < 0.7 else rng.randrange(4, 12)
    Z = np.array([[rng.randrange(3) for _ in range(p)] for _ in range(n)])
    if rng.random() < 0.5:
        Z[:, rng.randrange(p)] = rng.randrange(3)       # monomorphic marker
    if np.all(Z == Z[0]):
        Z[0, 0] = (Z[0, 0] + 1) % 3
    y = np.array([rng.randrange(-5, 15) for _ in range(n)])
    if np.all(y == y[0]):
        y[0] += 3
    c = {"id": cid, "kind": "ridge", "Z": Z.tolist(), "y": y.tolist(), "err": None, "float_checks": [], "via": via}
    try:
        with time_limit(120), np.errstate(all="ignore"):
            if via in ("fit_numpy", "fit_ndarray"):
                # the caller keeps its training arrays and uses them again (a second fit, a score on the training data): fitting
                # must not modify them
                Yarr = np.ascontiguousarray(y.astype(float)[:, None]); Zarr = Z.astype(float); Y0 = Yarr.copy(); Z0 = Zarr.copy()
                fitfn = rrBLUPModel0.fit_numpy if via == "fit_numpy" else rrBLUPModel0.fit
                m = fitfn(Yarr, np.ones((n, 1)), Zarr)
                if not (np.array_equal(Yarr, Y0) and np.array_equal(Zarr, Z0)):
                    c["float_checks"].append("training-arrays-modified-by-fit: the caller's response / genotype array changed during fit")
                m = fitfn(Yarr, np.ones((n, 1)), Zarr)          # the recorded model is the one fitted to the arrays as they are now
            else:
                from pybrops.popgen.bvmat.DenseBreedingValueMatrix import DenseBreedingValueMatrix
                taxa = np.array(["t%d" % k for k in range(n)], dtype=object)
                if via == "fit_bvmat_centred":
                    bv = DenseBreedingValueMatrix.from_numpy(y.astype(float)[:, None], taxa=taxa, trait=np.array(["y"], dtype=object))
                elif via == "fit_bvmat_raw":
                    bv = DenseBreedingValueMatrix(mat=y.astype(float)[:, None], location=0.0, scale=1.0, taxa=taxa,
                                                  trait=np.array(["y"], dtype=object))
                else:
                    loc = float(rng.randrange(-6, 7)); sc = float(rng.choice([1, 2, 4]))      # exact in binary
                    bv = DenseBreedingValueMatrix(mat=(y.astype(float)[:, None] - loc) / sc, location=np.array([loc]),
                                                  scale=np.array([sc]), taxa=taxa, trait=np.array(["y"], dtype=object))
                    c["ref"] = [loc, sc]
                if not np.allclose(np.asarray(bv.unscale(), float)[:, 0], y.astype(float), rtol=0, atol=1e-9):
                    raise RuntimeError("harness: unscale() of the constructed matrix is not y")
                m = rrBLUPModel0.fit(bv, np.ones((n, 1)), Z.astype(float))
            ua = np.asarray(m.u_a, dtype=float)[:, 0]; beta = float(np.asarray(m.beta).ravel()[0])
            bn = beta * n
            c["ymeanN"] = int(round(bn)) if abs(bn - round(bn)) < 1e-6 else -10 ** 9
            c["uzero"] = [bool(x == 0.0) for x in ua]
            ZtZ = Z.T @ Z; yc_n = n * y - y.sum()
            c["ZtZ"] = ZtZ.tolist(); c["ZtyN"] = (Z.T @ yc_n).tolist()
            poly = ~np.all(Z == Z[0], axis=0)
            Zp = Z[:, poly].astype(float); up = ua[poly]; yc = y - y.mean()
            # the fitted effects never do worse on the penalised criterion than the all-zero solution (for SOME ridge >= 0:
            # the reported one if available, otherwise the one implied by the normal equations)
            lam = None
            hp = getattr(m, "hyperparams", None)
            for attr in ("varE", "var_E"):
                pass
            rss = float(np.sum((yc - Zp @ up) ** 2)); tss = float(np.sum(yc ** 2))
            if rss > tss + 1e-7 * max(1.0, tss):
                c["float_checks"].append("worse-than-zero-solution: rss=%r tss=%r" % (rss, tss))
            # penalised normal equations for well-determined sets: (Z'Z + lam I) u = Z'y for one lam >= 0
            if n > Zp.shape[1] and Zp.shape[1] >= 1 and np.linalg.matrix_rank(Zp) == Zp.shape[1]:
                A = Zp.T @ Zp; b = Zp.T @ yc
                res = b - A @ up                      # must equal lam * u for a single lam >= 0
                if np.linalg.norm(up) > 1e-9:
                    lam = float(res @ up / (up @ up))
                    if lam < -1e-6 or np.max(np.abs(res - lam * up)) > 1e-4 * (1.0 + np.max(np.abs(b))):
                        c["float_checks"].append("normal-equations: residual %r not proportional to u (lam=%r)" % (res.tolist(), lam))
    except Exception as e:
        c["err"] = "%s: %s" % (type(e).__name__, str(e)[:200])
    for k, dflt in (("ymeanN", 0), ("uzero", [True] * p), ("ZtZ", [[0] * p] * p), ("ZtyN", [0] * p)):
        c.setdefault(k, dflt)
    return c


def run(ctx):
    rng = random.Random(ctx.seed)
    thorough = ctx.tier == "thorough"
    ctx.rule = ("TLC checks permutation equivariance, marker-split additivity, flag consistency and variance signs for all models "
                "with <=3 taxa, <=2 markers and effects in -2..2; predictions and statistics of the additive and additive-dominance "
                "models (phased, unphased and raw inputs, taxon permutations, marker splits, TrueBreedingValue) on small and "
                "larger random inputs are validated by TLC in exact integers/rationals; rrBLUP fits are checked for the discrete "
                "clauses by TLC and for the two inequalities in floating point; distinct by full input")
    ctx.assume("integer effects and intercepts; variances compared times n^2; bulmer as a rational (limit_denominator 2e5)",
               "rrBLUP: the penalised criterion / normal equations are evaluated in floating point on TLC-verified integer coefficient "
               "matrices, for the ridge implied by the solution (TLC has no reals)")
    r = tlc.run("LinModel_MC", "LinModel_MC.cfg", timeout=2000)
    tlc.must_pass(r, "LinModel_MC"); ctx.add_tlc(r, "LinModel_MC.cfg")
    if r.violated:
        ctx.violation("spec:LinModel:" + r.violated, "TLC: %s violated" % r.violated, r.error)
    allc = []
    for _ in range(300 if thorough else 120):
        allc.append(predict_case(len(allc) + 1, rng, big=False))
    for _ in range(200 if thorough else 60):
        allc.append(predict_case(len(allc) + 1, rng, big=True))
    for _ in range(60 if thorough else 24):
        allc.append(predict_case(len(allc) + 1, rng, big=rng.random() < 0.5, edited=True))
    for nfix in ((49, 1), (49, 2), (49, 4), (98, 1), (103, 1), (103, 2), (107, 2), (161, 1)) + (((187, 1), (197, 1), (98, 2)) if thorough else ()):
        allc.append(predict_case(len(allc) + 1, rng, big=True, nfix=nfix))
    for _ in range(60 if thorough else 20):
        allc.append(ridge_case(len(allc) + 1, rng))
    vias = ("fit_ndarray", "fit_bvmat_centred", "fit_bvmat_raw", "fit_bvmat_ref")
    for k in range(48 if thorough else 16):
        allc.append(ridge_case(len(allc) + 1, rng, via=vias[k % 4]))
    verd = cases.validate(ctx, "LinModel_Trace", "LinModel_Trace.cfg",
                          [{k: v for k, v in c.items() if k not in ("float_checks", "dom", "q", "edited", "via", "ref", "ydtype")} for c in allc],
                          "LinModel_Trace", chunk=20, procs=14)
    ctx.traces += len(allc)
    for c in allc:
        v = verd[c["id"]]
        ctx.count(1, repr((c["kind"], c["Z"], c.get("u"), c.get("y"))) if len(c["Z"]) >= 2 else None)
        site = ("DenseAdditiveDominanceLinearGenomicModel" if c.get("dom") else "DenseAdditiveLinearGenomicModel") if c["kind"] == "predict" else "rrBLUPModel0." + c.get("via", "fit_numpy")
        if v != "ok":
            ctx.violation("%s:%s%s" % (site, v, ":after-in-place-edit-of-effects" if c.get("edited") else ""),
                          "TLC verdict %s%s%s" % (v, " (model used, then beta/u_a/u_d overwritten in place)" if c.get("edited") else "", " -- " + c["err"] if c["err"] else ""),
                          {k: c[k] for k in c if k in ("Z", "u", "d", "b", "q", "y", "gebv", "gegv", "varA", "vara", "err", "uzero", "ymeanN", "via", "ref")})
        for fc in c.get("float_checks", []):
            ctx.violation("%s:%s" % (site, fc.split(":")[0]), fc, {"Z": c["Z"], "y": c["y"]})
    ctx.sample({k: allc[0][k] for k in ("Z", "u", "d", "b", "gebv", "gegv", "varA", "vara", "fa")} | {"verdict": verd[allc[0]["id"]]})
