"""C14 phenotyping and breeding-value estimation (spec/Phenotyping*.tla)."""
import copy as _copy, math, random
import numpy as np
from .. import tlc, cases
from ..core import time_limit
from ..scripted_rng import Scripted


def ints(x, ok, scale=1.0):
    v = np.asarray(x, dtype=float) * scale
    fin = np.isfinite(v)
    r = np.rint(np.where(fin, v, 0.0))
    if not np.all(np.abs(np.where(fin, v, 0.0) - r) <= 1e-6 * np.maximum(1.0, np.abs(r))):
        ok[0] = False
    return r.astype(np.int64)


def make_pop(n, p, T, rng, names=None):
    from pybrops.popgen.gmat.DensePhasedGenotypeMatrix import DensePhasedGenotypeMatrix
    from pybrops.model.gmod.DenseAdditiveLinearGenomicModel import DenseAdditiveLinearGenomicModel
    ph = np.array([[[rng.randrange(2) for _ in range(p)] for _ in range(n)] for _ in range(2)], dtype="int8")
    u = np.array([[rng.choice([-2, -1, 1, 2, 3]) for _ in range(T)] for _ in range(p)], dtype=float)
    beta = np.array([[rng.choice([0, 10, -3]) for _ in range(T)]], dtype=float)
    if names is None:
        names = ["z%02d" % k for k in rng.sample(range(60), n)]       # unsorted names
    grp = np.array([rng.randrange(1, 4) for _ in range(n)], dtype="int64")
    pg = DensePhasedGenotypeMatrix(ph, taxa=np.array(names, dtype=object), taxa_grp=grp)
    gm = DenseAdditiveLinearGenomicModel(beta=beta, u_misc=None, u_a=u, trait=np.array(["y%d" % t for t in range(T)], dtype=object))
    g = (ph[0] + ph[1]).astype(float) @ u + beta
    return pg, gm, g.astype(int), names, grp


def trial_case(cid, rng, true_pt=False, zero_var=False):
    from pybrops.breed.prot.pt.G_E_Phenotyping import G_E_Phenotyping
    from pybrops.breed.prot.pt.TruePhenotyping import TruePhenotyping
    n = rng.randrange(1, 5); p = rng.randrange(1, 5); T = rng.randrange(1, 3)
    pg, gm, g, names, grp = make_pop(n, p, T, rng)
    nenv = rng.randrange(1, 4)
    nrepv = [rng.randrange(1, 4) for _ in range(nenv)]
    if true_pt:
        nenv = 1; nrepv = [1]
    uniq = sorted(set(names))
    c = {"id": cid, "kind": "trial", "n": n, "nrep": nrepv if not true_pt else [1], "g": g.tolist(),
         "name": [uniq.index(x) for x in names], "grp": [int(x) for x in grp], "err": None, "true": true_pt}
    # per-trait variance vectors with exact zeros among positive entries: a zero-variance component contributes 0 for
    # that trait only
    mixed = (not true_pt) and (not zero_var) and T >= 2 and rng.random() < 0.5
    zsets = {"env": set(), "rep": set(), "err": set()}
    if mixed:
        for key in zsets:
            if rng.random() < 0.6:
                zsets[key] = set(rng.sample(range(T), rng.randrange(1, T)))
    E = [[0 if (true_pt or zero_var) else rng.randrange(-9, 10) for _ in range(T)] for _ in range(nenv)]
    R = [[[0 if (true_pt or zero_var) else rng.randrange(-4, 5) for _ in range(T)] for _ in range(nrepv[e])] for e in range(nenv)]
    eps = [[[[0 if (true_pt or zero_var) else rng.randrange(-3, 4) for _ in range(T)] for _ in range(n)] for _ in range(nrepv[e])] for e in range(nenv)]
    if true_pt:
        E = [[0] * T]; R = [[[0] * T]]; eps = [[[[0] * T for _ in range(n)]]]
    for t in zsets["env"]:
        for e in range(nenv):
            E[e][t] = 0
    for t in zsets["rep"]:
        for e in range(nenv):
            for k in range(nrepv[e]):
                R[e][k][t] = 0
    for t in zsets["err"]:
        for e in range(nenv):
            for k in range(nrepv[e]):
                for i_ in range(n):
                    eps[e][k][i_][t] = 0
    c["E"] = E; c["R"] = R; c["eps"] = eps
    plan = []
    for e in range(nenv):
        plan.append(("env", np.array(E[e], float)))
        for k in range(nrepv[e]):
            plan.append(("rep", np.array(R[e][k], float)))
            plan.append(("err", np.array(eps[e][k], float)))
    state = {"i": 0, "bad": False, "warm": False}
    def mvn(mean, cov, size):
        if state["warm"]:          # an earlier trial of the same protocol object on another population: not part of the case
            return np.ones(len(mean)) if size is None else np.ones((int(np.prod(size)), len(mean)))
        if state["i"] >= len(plan):
            state["bad"] = True
            return np.zeros(len(mean)) if size is None else np.zeros((size, len(mean)))
        kind, val = plan[state["i"]]; state["i"] += 1
        want_size = n if kind == "err" else None
        if (size if size is None else int(np.prod(size))) != want_size or len(mean) != T or np.any(np.asarray(mean) != 0):
            state["bad"] = True
            return np.zeros(len(mean)) if size is None else np.zeros((int(np.prod(size)), len(mean)))
        return val
    try:
        with time_limit(30):
            if true_pt:
                df = TruePhenotyping(gm).phenotype(pg)
                df = df.assign(env=1, rep=1) if "env" not in df.columns else df
            else:
                srng = Scripted(1, mvn=mvn)
                var = 0.0 if zero_var else 1.0
                vv = {key: (np.array([0.0 if t in zsets[key] else 1.0 + t for t in range(T)]) if mixed else var) for key in zsets}
                c["mixed"] = mixed
                prot = G_E_Phenotyping(gm, nenv=nenv, nrep=np.array(nrepv), var_env=vv["env"], var_rep=vv["rep"], var_err=vv["err"],
                                       rng=srng if not zero_var else np.random.default_rng(rng.randrange(2 ** 32)))
                if rng.random() < 0.4:
                    # the trial is run by a COPY of the configured protocol (shallow or deep; a copy carries the settings of
                    # its original and draws from the same generator)
                    how = rng.choice(["deepcopy", "deepcopy()", "copy", "copy()"])
                    prot = {"deepcopy": _copy.deepcopy, "copy": _copy.copy, "deepcopy()": lambda o: o.deepcopy(), "copy()": lambda o: o.copy()}[how](prot)
                    c["copied"] = how
                if rng.random() < 0.35:
                    # the protocol object has already been used on a population of another size
                    pg2 = make_pop(n + rng.randrange(1, 4), p, T, rng)[0]
                    state["warm"] = True
                    try:
                        prot.phenotype(pg2)
                    finally:
                        state["warm"] = False
                    c["warm"] = True
                df = prot.phenotype(pg)
            ok = [True]
            rows = []
            tcols = ["y%d" % t for t in range(T)]
            for _, r in df.iterrows():
                vals = ints([r[col] for col in tcols], ok).tolist()
                rows.append([uniq.index(r["taxa"]) if r["taxa"] in uniq else -1, int(r["taxa_grp"]), int(r["env"]), int(r["rep"]), vals])
            c["rows"] = rows; c["lat"] = ok[0]
            c["reqok"] = True if (true_pt or zero_var) else (not state["bad"] and state["i"] == len(plan))
    except Exception as ex:
        c["err"] = "%s: %s" % (type(ex).__name__, str(ex)[:160])
    c.setdefault("rows", []); c.setdefault("lat", False); c.setdefault("reqok", False)
    return c


def struct_case(cid, rng):
    """a trial drawn with a REAL generator: whatever the order / grouping of the draws, the residuals must have the
    additive environment + replicate + plot structure the requested variance components allow"""
    from pybrops.breed.prot.pt.G_E_Phenotyping import G_E_Phenotyping
    n = rng.randrange(2, 5); p = rng.randrange(1, 5); T = rng.randrange(1, 4)
    pg, gm, g, names, grp = make_pop(n, p, T, rng)
    nenv = rng.randrange(1, 4); nrepv = [rng.randrange(1, 4) for _ in range(nenv)]
    uniq = sorted(set(names))
    z = {key: [rng.random() < 0.45 for _ in range(T)] for key in ("env", "rep", "err")}
    if rng.random() < 0.3:                      # scalar variances
        for key in z:
            z[key] = [z[key][0]] * T
    c = {"id": cid, "kind": "struct", "n": n, "nrep": nrepv, "name": [uniq.index(x) for x in names], "grp": [int(x) for x in grp],
         "zenv": z["env"], "zrep": z["rep"], "zerr": z["err"], "err": None}
    try:
        with time_limit(30):
            def vv(key):
                arr = np.array([0.0 if zz else rng.choice([0.5, 1.0, 4.0]) for zz in z[key]])
                return float(arr[0]) if len(set(z[key])) == 1 and rng.random() < 0.5 else arr
            g_ = np.random.default_rng(rng.randrange(2 ** 32)) if cid % 2 else np.random.RandomState(rng.randrange(2 ** 32))
            prot = G_E_Phenotyping(gm, nenv=nenv, nrep=np.array(nrepv), var_env=vv("env"), var_rep=vv("rep"), var_err=vv("err"), rng=g_)
            def saved_and_restored(o, grp):
                # the configured protocol is written to an HDF5 file (at the root or under a group) and the trial is run by the
                # protocol READ BACK from it (the genomic model is handed over again, as the reader asks)
                import tempfile, os as _os, shutil as _sh
                d_ = tempfile.mkdtemp(prefix="c14_")
                try:
                    fn_ = _os.path.join(d_, "prot.h5")
                    o.to_hdf5(fn_, grp)
                    return type(o).from_hdf5(fn_, grp, gpmod=gm)
                finally:
                    _sh.rmtree(d_, ignore_errors=True)
            if cid % 3 != 0:
                how = ["deepcopy", "deepcopy()", "copy", "copy()", "hdf5", "hdf5:sim/ptprot"][(cid // 3) % 6]
                prot = {"deepcopy": _copy.deepcopy, "copy": _copy.copy, "deepcopy()": lambda o: o.deepcopy(), "copy()": lambda o: o.copy(),
                        "hdf5": lambda o: saved_and_restored(o, None), "hdf5:sim/ptprot": lambda o: saved_and_restored(o, "sim/ptprot")}[how](prot)
                c["copied"] = how
            df = prot.phenotype(pg)
            tcols = ["y%d" % t for t in range(T)]
            gof = {nm: g[i] for i, nm in enumerate(names)}
            ids = [{} for _ in range(T)]
            rows = []
            for _, r in df.iterrows():
                cls_ = []
                for t, col in enumerate(tcols):
                    res = round(float(r[col]) - float(gof[r["taxa"]][t]), 9) if r["taxa"] in gof else 1e9
                    cls_.append(0 if res == 0 else ids[t].setdefault(res, len(ids[t]) + 1))
                rows.append([uniq.index(r["taxa"]) if r["taxa"] in uniq else -1, int(r["taxa_grp"]), int(r["env"]), int(r["rep"]), cls_])
            c["rows"] = rows
    except Exception as ex:
        c["err"] = "%s: %s" % (type(ex).__name__, str(ex)[:160])
    c.setdefault("rows", [])
    return c


def meanbv_case(cid, rng):
    import pandas
    from pybrops.breed.prot.bv.MeanPhenotypicBreedingValue import MeanPhenotypicBreedingValue
    from pybrops.popgen.gmat.DenseGenotypeMatrix import DenseGenotypeMatrix
    T = rng.randrange(1, 3)
    ids = rng.sample(range(12), rng.randrange(1, 6))
    names = {i: "tx%02d" % ((i * 7) % 12) for i in range(12)}     # name order differs from id order
    grp = {i: 1 + i % 3 for i in range(12)}
    obs = []
    for i in ids:
        for _ in range(rng.randrange(1, 5)):
            obs.append([i, [rng.randrange(-20, 21) for _ in range(T)]])
    rng.shuffle(obs)
    gt = list(ids)
    rng.shuffle(gt)
    if rng.random() < 0.6:
        gt = gt[:max(1, len(gt) - 1)] + rng.sample([i for i in range(12) if i not in ids], rng.randrange(0, 3))   # missing / extra taxa
        rng.shuffle(gt)
    use_grp = rng.random() < 0.7
    c = {"id": cid, "kind": "meanbv", "obs": obs, "gt": gt, "err": None}
    try:
        with time_limit(30), np.errstate(all="ignore"):
            df = pandas.DataFrame({"taxa": [names[o[0]] for o in obs], "taxa_grp": [grp[o[0]] for o in obs]})
            for t in range(T):
                df["y%d" % t] = [float(o[1][t]) for o in obs]
            # the table is what a user's data handling leaves behind: rows shuffled or filtered WITH their original row labels
            # (no reset_index), or labelled by something else than 0..n-1
            how = rng.choice(["default", "shuffled-labels", "offset-labels", "string-labels"])
            if how == "shuffled-labels" and len(df) > 1:
                df = df.sample(frac=1.0, random_state=rng.randrange(2 ** 31))     # rows permuted, index labels travel with the rows
            elif how == "offset-labels":
                df.index = range(1000, 1000 + len(df))
            elif how == "string-labels":
                df.index = ["row%d" % (len(df) - k) for k in range(len(df))]
            c["index"] = how
            gm = DenseGenotypeMatrix(np.zeros((len(gt), 2), dtype="int8"), taxa=np.array([names[i] for i in gt], dtype=object),
                                     taxa_grp=np.array([grp[i] for i in gt], dtype="int64"))
            est = MeanPhenotypicBreedingValue("taxa", "taxa_grp" if use_grp else None, ["y%d" % t for t in range(T)]).estimate(df, gm)
            un = np.asarray(est.unscale(), dtype=float)
            cnt = np.array([sum(1 for o in obs if o[0] == i) for i in gt], dtype=float)
            ok = [True]
            c["miss"] = [bool(np.all(np.isnan(un[j]))) for j in range(len(gt))]
            c["est"] = ints(np.where(np.isnan(un), 0.0, un) * np.maximum(cnt, 1.0)[:, None], ok).tolist(); c["lat"] = ok[0]
            c["taxaok"] = list(est.taxa) == [names[i] for i in gt] and list(est.taxa_grp) == [grp[i] for i in gt] \
                and list(est.trait) == ["y%d" % t for t in range(T)]
    except Exception as ex:
        c["err"] = "%s: %s" % (type(ex).__name__, str(ex)[:160])
    c.setdefault("miss", [False] * len(gt)); c.setdefault("est", [[0] * T] * len(gt)); c.setdefault("lat", False); c.setdefault("taxaok", False)
    return c


def h2_case(cid, rng):
    from pybrops.breed.prot.pt.G_E_Phenotyping import G_E_Phenotyping
    n = rng.randrange(2, 9); p = rng.randrange(1, 5); T = rng.randrange(1, 3)
    pg, gm, g, names, grp = make_pop(n, p, T, rng)
    hn, hd = rng.choice([(1, 4), (1, 2), (1, 1), (3, 4), (1, 5)])
    which = rng.choice(["h2", "H2"])
    c = {"id": cid, "kind": "h2", "hn": hn, "hd": hd, "err": None, "which": which}
    try:
        dom = rng.random() < 0.5
        if dom:
            # a model with dominance: the narrow-sense target refers to the variance of the breeding values, the broad-sense
            # target to the variance of the genotypic values (what the trial records carry)
            from pybrops.model.gmod.DenseAdditiveDominanceLinearGenomicModel import DenseAdditiveDominanceLinearGenomicModel
            P = rng.choice([2, 2, 4, 3])
            if P != 2:
                # a polyploid population: a locus is heterozygous when the individual carries both alleles (dosage neither 0 nor
                # the ploidy) -- the indicator the model's genotypic values use
                from pybrops.popgen.gmat.DensePhasedGenotypeMatrix import DensePhasedGenotypeMatrix
                php = np.array([[[rng.randrange(2) for _ in range(p)] for _ in range(n)] for _ in range(P)], dtype="int8")
                pg = DensePhasedGenotypeMatrix(php, taxa=np.asarray(pg.taxa), taxa_grp=np.asarray(pg.taxa_grp))
                c["ploidy"] = P
            ph = np.asarray(pg.mat).astype(int)
            Z = ph.sum(0); H = ((Z != 0) & (Z != P)).astype(int)
            ud = np.array([[rng.choice([-2, -1, 1, 2, 3]) for _ in range(T)] for _ in range(p)], dtype=float)
            gm = DenseAdditiveDominanceLinearGenomicModel(beta=np.asarray(gm.beta, float), u_misc=None, u_a=np.asarray(gm.u_a, float), u_d=ud,
                                                         trait=np.asarray(gm.trait))
            gebv = Z @ np.asarray(gm.u_a, float) + np.asarray(gm.beta, float)
            g = (gebv + H @ ud) if which == "H2" else gebv
            c["dom"] = True
        # variance components as scalars, as separate arrays, or as ONE array object the caller uses for several components
        form = rng.choice(["scalar", "scalar", "arrays", "shared", "shared-all"])
        T_ = int(np.asarray(gm.beta).shape[1])
        if form == "scalar":
            kept = []; prot = G_E_Phenotyping(gm, nenv=1, nrep=1, var_env=0.0, var_rep=0.0, var_err=1.0)
        else:
            a_err = np.full(T_, float(rng.choice([0.5, 1.0, 2.0])))
            a_env = a_err if form.startswith("shared") else np.full(T_, float(rng.choice([0.0, 0.25, 1.5])))
            a_rep = a_err if form == "shared-all" else np.full(T_, float(rng.choice([0.0, 0.125])))
            kept = [a_env, a_rep]
            prot = G_E_Phenotyping(gm, nenv=1, nrep=1, var_env=a_env, var_rep=a_rep, var_err=a_err)
        snap = lambda: [[int(round(float(x) * 8)) for x in np.asarray(v, dtype=float).ravel()] for v in [prot.var_env, prot.var_rep] + kept]
        c["others"] = {"before": snap()}
        getattr(prot, "set_" + which)(hn / hd, pg)
        c["others"]["after"] = snap(); c["form"] = form
        ok = [True]
        varA = np.asarray(g, dtype=float).var(0)      # variance of the breeding (h2) / genotypic (H2) values; equal without dominance
        c["varAnn"] = ints(varA * n * n, ok).tolist()
        c["errq"] = ints(np.asarray(prot.var_err, dtype=float) * n * n * hn, ok).tolist(); c["lat"] = ok[0]
    except Exception as ex:
        c["err"] = "%s: %s" % (type(ex).__name__, str(ex)[:160])
    c.setdefault("varAnn", [0] * T); c.setdefault("errq", [0] * T); c.setdefault("lat", False)
    c.setdefault("others", {"before": [], "after": []}); c["others"].setdefault("after", c["others"]["before"])
    return c


def variance_sanity(ctx, rng):
    """realised environment / replicate / error variances against the requested ones (z-test, one re-test)"""
    from pybrops.breed.prot.pt.G_E_Phenotyping import G_E_Phenotyping
    n, p, T = 40, 6, 1
    pg, gm, g, names, grp = make_pop(n, p, T, rng)
    ve, vr, vz = 2.0, 0.5, 1.0
    def run_once(nenv, seed):
        nrepc = 3
        prot = G_E_Phenotyping(gm, nenv=nenv, nrep=nrepc, var_env=ve, var_rep=vr, var_err=vz, rng=np.random.default_rng(seed))
        df = prot.phenotype(pg)
        v = df["y0"].to_numpy(dtype=float).reshape(nenv, nrepc, n) - g[:, 0][None, None, :]
        blk = v.mean(2)                                   # (env, rep)
        s_err = ((v - blk[:, :, None]) ** 2).sum() / (nenv * nrepc * (n - 1))
        envm = blk.mean(1)
        s_rep = ((blk - envm[:, None]) ** 2).sum() / (nenv * (nrepc - 1))        # E = vr + vz/n
        s_env = envm.var(ddof=1)                                                  # E = ve + vr/nrep + vz/(n nrep)
        out = []
        for name, s, expv, df_ in (("error-variance", s_err, vz, nenv * nrepc * (n - 1)), ("replicate-variance", s_rep, vr + vz / n, nenv * (nrepc - 1)),
                                   ("environment-variance", s_env, ve + vr / nrepc + vz / (n * nrepc), nenv - 1)):
            z = (s - expv) / (expv * math.sqrt(2.0 / df_))
            out.append((name, s, expv, z))
        return out
    res = run_once(400, rng.randrange(2 ** 32))
    bad = [r for r in res if abs(r[3]) > 5.5]
    if bad:
        res2 = run_once(1600, rng.randrange(2 ** 32))
        bad = [r for r in res2 if abs(r[3]) > 5.5 and r[0] in {b[0] for b in bad}]
    for name, s, expv, z in bad:
        ctx.violation("G_E_Phenotyping.phenotype:%s" % name, "realised %s %.4f, requested structure implies %.4f (z=%.1f, twice)" % (name, s, expv, z), None)
    ctx.extra["variance_statistics"] = [[r[0], round(r[1], 4), round(r[2], 4), round(r[3], 2)] for r in res]


def run(ctx):
    rng = random.Random(ctx.seed)
    thorough = ctx.tier == "thorough"
    ctx.rule = ("TLC builds the trial table block by block and checks count, uniqueness and layout for all designs with <=3 taxa, "
                "<=3 environments, <=2 replicates; trials simulated by the real G_E_Phenotyping with a scripted multivariate_normal "
                "returning integer effects (request log must show the effect structure), zero-variance trials, TruePhenotyping, "
                "MeanPhenotypicBreedingValue on shuffled tables with permuted/extra/missing genotype taxa and set_h2/set_H2 are "
                "validated by TLC; realised variance components are z-tested; distinct by full input")
    ctx.assume("effects are scripted integers so every record value is an exact integer; heritabilities rational",
               "variance sanity: |z| <= 5.5 with one independent 4x re-test; numpy's normal generator trusted")
    r = tlc.run("Phenotyping", "Phenotyping_MC.cfg", coverage=True, timeout=900)
    tlc.must_pass(r, "Phenotyping_MC"); ctx.add_tlc(r, "Phenotyping_MC.cfg")
    if r.violated:
        ctx.violation("spec:Phenotyping:" + r.violated, "TLC: %s violated" % r.violated, r.error)
    if r.coverage.get("Block", (0, 0))[1] == 0:
        raise tlc.TLCFailure("vacuous: Block never taken")
    allc = []
    for k in range(240 if thorough else 90):
        allc.append(trial_case(len(allc) + 1, rng, true_pt=(k % 6 == 0), zero_var=(k % 6 == 1)))
    for _ in range(300 if thorough else 110):
        allc.append(meanbv_case(len(allc) + 1, rng))
    for k in range(240 if thorough else 80):
        allc.append(struct_case(len(allc) + 1, rng))
    for _ in range(80 if thorough else 30):
        allc.append(h2_case(len(allc) + 1, rng))
    # a scripted replay whose draw requests do not have the shape the plan predicts (the draws were regrouped or
    # reordered) says nothing about the property: it is inapplicable, and the shape-agnostic "struct" cases and the
    # variance tests carry the claim
    inapplicable = [c for c in allc if c["kind"] == "trial" and not c.get("err") and not c["reqok"]]
    allc = [c for c in allc if c not in inapplicable]
    ctx.extra["scripted_replays_inapplicable"] = len(inapplicable)
    verd = cases.validate(ctx, "Phenotyping_Trace", "Phenotyping_Trace.cfg",
                          [{k: v for k, v in c.items() if k not in ("true", "which")} for c in allc], "Phenotyping_Trace", chunk=30, procs=14)
    ctx.traces += len(allc)
    site = {"trial": "G_E_Phenotyping.phenotype", "meanbv": "MeanPhenotypicBreedingValue.estimate", "h2": "G_E_Phenotyping.set_h2",
            "struct": "G_E_Phenotyping.phenotype[real generator]"}
    for c in allc:
        v = verd[c["id"]]
        ctx.count(1, repr({k: c[k] for k in c if k not in ("id",)}) if (c["kind"] != "trial" or c["n"] > 1) else None)
        if v != "ok":
            s = site[c["kind"]] if not c.get("true") else "TruePhenotyping.phenotype"
            if c["kind"] == "h2":
                s = "G_E_Phenotyping.set_" + c["which"]
            ctx.violation("%s:%s" % (s, v), "TLC verdict %s%s" % (v, " -- " + c["err"] if c["err"] else ""),
                          {k: c[k] for k in c if k not in ("eps",)})
    variance_sanity(ctx, rng)
    for kind in ("trial", "meanbv", "h2", "struct"):
        s = [c for c in allc if c["kind"] == kind][1]
        ctx.sample({k: s[k] for k in s if k not in ("eps", "R")} | {"verdict": verd[s["id"]]})
