"""C19 Pareto filter, dominance predicate, distance transforms  (spec/Pareto*.tla)."""
import itertools, random
import numpy as np
from .. import tlc, cases


def _need_cov(r, actions, what):
    for a in actions:
        if r.coverage.get(a, (0, 0))[1] == 0:
            raise tlc.TLCFailure("vacuous model run %s: action %s never taken" % (what, a))


def model_check(ctx):
    cfgs = ["Pareto_MC.cfg", "Pareto_MC3.cfg", "Pareto_Laws.cfg", "Pareto_Live.cfg"]
    if ctx.tier == "thorough":
        cfgs += ["Pareto_LawsT.cfg", "Pareto_Laws3T.cfg"]
    for c in cfgs:
        r = tlc.run("Pareto_MC", c, coverage=True, timeout=3000)
        tlc.must_pass(r, c)
        ctx.add_tlc(r, c)
        if r.violated:
            ctx.violation("spec:Pareto:" + r.violated, "TLC: %s violated in %s (design-level)" % (r.violated, c),
                          {"cfg": c, "error": r.error})
        else:
            _need_cov(r, ["Step", "Finish"], c)


def _eff_case(cid, fn, pts, wt, dtype=float, wdiv=1, wshape=None, colscale=None, wscale=None):
    """the function receives the points in `dtype` and the weights wt / wdiv (a common positive factor, so the weighted
    order of every objective - all TLC needs - is that of the integer weights)"""
    f = np.array(pts, dtype=dtype).reshape(len(pts), len(wt))
    w = np.array(wt, dtype=float) / wdiv
    # objectives on very different scales: each column of the points (colscale) or each weight (wscale) multiplied by a positive power of
    # two -- exact in floating point, and without effect on which points are efficient (TLC is given the unscaled integers)
    if colscale is not None:
        f = f * np.array(colscale, dtype=float)[None, :]
    if wscale is not None:
        w = w * np.array(wscale, dtype=float)
    if wshape is not None:
        w = w.reshape(wshape)
    f0 = f.copy(); w0 = w.copy()
    try:
        mask = fn(f, w, True)
        idx = fn(f, w, False)
        ia = np.asarray(idx); ma = np.asarray(mask)
        if ia.ndim != 1 or ma.shape != (len(pts),):
            # documented: a (npt,) boolean mask / a (n_efficient,) integer array
            raise ValueError("index form has shape %s, mask form has shape %s" % (ia.shape, ma.shape))
        c = {"id": cid, "kind": "eff", "pts": pts, "wt": wt, "mask": [bool(x) for x in ma], "idx": [int(x) for x in ia]}
    except Exception as e:  # exception on valid input / malformed result
        return {"id": cid, "kind": "eff", "pts": pts, "wt": wt, "mask": [False] * len(pts), "idx": [],
                "exc": "%s: %s" % (type(e).__name__, e)}
    if not (np.array_equal(f, f0) and np.array_equal(w, w0)):
        c["mutated_input"] = True
    return c


def run(ctx):
    rng = random.Random(ctx.seed)
    thorough = ctx.tier == "thorough"
    ctx.rule = ("TLC exhaustively checks the pivot-loop state machine against the O(n^2) definition for all point "
                "sequences in the bound; every case executed on the real functions is validated by TLC "
                "(Pareto_Trace); a case is non-trivial if it has >= 2 points and at least one dominated or duplicated "
                "point (eff), mixed feasibility (dom) or a non-zero distance (dist); distinct by input.")
    ctx.assume("integer coordinates/weights only (TLC has no reals); float inputs are exactly representable",
               "distance compared as round(d^2*S) with S = (prod ranges)^2 * (L.L), residual <= 1e-6*max(1,|d^2 S|)",
               "preference vectors non-negative and non-zero; sign vectors in {-1,+1}")
    model_check(ctx)

    from pybrops.core.util.pareto import is_pareto_efficient
    from pybrops.opt.algo.pymoo_addon import dominates
    from pybrops.core.util.trans import trans_ndpt_pseudo_dist
    from pybrops.breed.prot.sel.prob.trans import trans_ndpt_to_vec_dist as prob_dist
    from pybrops.breed.prot.sel.transfn import trans_ndpt_to_vec_dist as transfn_dist

    allc = []
    cid = 0
    # (A) exhaustive small grid = the model's initial states (2 objectives 3x3, <=3 points quick / <=4 thorough)
    maxn = 4 if thorough else 3
    grid2 = list(itertools.product(range(3), repeat=2))
    for n in range(1, maxn + 1):
        for seq in itertools.product(grid2, repeat=n):
            for wt in ((1, 1), (1, -1), (-1, 1), (-1, -1)):
                cid += 1
                allc.append(_eff_case(cid, is_pareto_efficient, [list(p) for p in seq], list(wt)))
    grid3 = list(itertools.product(range(2), repeat=3))
    for n in range(1, 4):
        for seq in itertools.product(grid3, repeat=n):
            for wt in ((1, 1, 1), (-1, 1, -1)):
                cid += 1
                allc.append(_eff_case(cid, is_pareto_efficient, [list(p) for p in seq], list(wt)))
    n_exh = len(allc)
    # (B) random clouds with heavy ties and duplicates, sizes beyond the exhaustive bound
    nrand = 1500 if thorough else 400
    for _ in range(nrand):
        nobj = rng.choice([2, 2, 3, 4])
        npt = rng.choice([1, 2, 3, 5, 8, 13, 21, 34] + ([60, 100, 200] if thorough else []))
        g = rng.choice([2, 3, 4, 6])
        pts = [[rng.randrange(g) for _ in range(nobj)] for _ in range(npt)]
        if rng.random() < 0.3 and npt > 2:   # inject duplicates
            for _ in range(npt // 3):
                pts[rng.randrange(npt)] = list(pts[rng.randrange(npt)])
        wt = [rng.choice([-3, -2, -1, 1, 2, 3]) for _ in range(nobj)]
        cid += 1
        allc.append(_eff_case(cid, is_pareto_efficient, pts, wt))
        if _ % 4 == 0 and npt <= 13:
            sc = [2.0 ** rng.choice([0, 0, 57, 60, -57, -40, 30]) for _o in range(nobj)]
            cid += 1
            allc.append(_eff_case(cid, is_pareto_efficient, pts, wt, colscale=sc) if _ % 8 == 0 else
                        _eff_case(cid, is_pareto_efficient, pts, wt, wscale=sc))
    # (C) large clouds (beyond any block size an implementation may use) whose first objective takes few levels, so that
    # big groups tied in one objective are resolved only by the others; systematic sizes around powers of two
    sizes = [127, 128, 129, 130, 200, 255, 256, 257, 300, 400] + ([513, 640, 1025] if thorough else [])
    for rep in range(3 if thorough else 2):
        for k, npt in enumerate(sizes):
            nobj = 2 + (k + rep) % 2
            tiedcol = 0 if (k + rep) % 3 else rng.randrange(nobj)
            g = [2, 3, 5, 8][(k + rep) % 4]
            wt = [rng.choice([-2, -1, 1, 2]) for _ in range(nobj)]
            sg = [1 if w > 0 else -1 for w in wt]
            if rep == 0:
                # unstructured: the tied objective takes g levels, the others 40
                val = [[rng.randrange(g) if j == tiedcol else rng.randrange(40) for j in range(nobj)] for _ in range(npt)]
            else:
                # a trade-off between the tied objective and the rest: no level covers another, so membership of the front
                # is decided inside each group of points tied in that objective, wherever the group lies in the input
                val = []
                for _ in range(npt):
                    L = rng.randrange(g)
                    val.append([L if j == tiedcol else (g - 1 - L) * 50 + rng.randrange(40) for j in range(nobj)])
            pts = [[v[j] * sg[j] for j in range(nobj)] for v in val]
            cid += 1
            allc.append(_eff_case(cid, is_pareto_efficient, pts, wt))
    # (D) argument forms: integer / small-integer point matrices, fractional weights (wt / 2, / 4, / 8 are exact in binary),
    # weights as a column or row matrix
    for k in range(240 if thorough else 80):
        nobj = rng.choice([2, 2, 3])
        npt = rng.choice([2, 3, 5, 8, 13])
        pts = [[rng.randrange(6) for _ in range(nobj)] for _ in range(npt)]
        wt = [rng.choice([-5, -3, -2, -1, 1, 2, 3, 5]) for _ in range(nobj)]
        cid += 1
        allc.append(_eff_case(cid, is_pareto_efficient, pts, wt, dtype=[int, np.int8, np.int32, float, np.float32][k % 5],
                              wdiv=[8, 4, 2, 1][k % 4], wshape=[None, (nobj, 1), (1, nobj)][k % 3]))
    # dominance: exhaustive small + random
    vals = [-1, 0, 1]
    for o1 in itertools.product(vals, repeat=2):
        for o2 in itertools.product(vals, repeat=2):
            for c1 in (-1, 0, 1, 2):
                for c2 in (-1, 0, 1, 2):
                    cid += 1
                    try:
                        res = bool(dominates(np.array(o1, float), float(c1), np.array(o2, float), float(c2)))
                        allc.append({"id": cid, "kind": "dom", "o1": list(o1), "c1": c1, "o2": list(o2), "c2": c2,
                                     "res": res})
                    except Exception as e:
                        ctx.violation("dominates:exception", "dominates raised %r" % e, {"o1": o1, "o2": o2})
    for _ in range(300):
        k = rng.choice([1, 2, 3, 4])
        o1 = [rng.randrange(-2, 3) for _ in range(k)]; o2 = [rng.randrange(-2, 3) for _ in range(k)]
        if rng.random() < 0.3:
            o2 = list(o1)
        c1 = rng.randrange(-2, 4); c2 = rng.randrange(-2, 4)
        cid += 1
        res = bool(dominates(np.array(o1, float), float(c1), np.array(o2, float), float(c2)))
        allc.append({"id": cid, "kind": "dom", "o1": o1, "c1": c1, "o2": o2, "c2": c2, "res": res})
    # distance transforms
    fns = {"core.util.trans.trans_ndpt_pseudo_dist": lambda m, sg, L: trans_ndpt_pseudo_dist(m, sg, L),
           "sel.prob.trans.trans_ndpt_to_vec_dist": lambda m, sg, L: prob_dist(m, obj_wt=sg, vec_wt=L),
           "sel.transfn.trans_ndpt_to_vec_dist": lambda m, sg, L: transfn_dist(m, objfn_wt=sg, wt=L)}
    ndist = 600 if thorough else 200
    fnof = {}
    for fname, fn in fns.items():
        for t in range(ndist + ndist // 2):
            nobj = rng.choice([2, 2, 3])
            npt = rng.choice([1, 2, 3, 4, 6])
            g = rng.choice([2, 3, 4])
            pts = [[rng.randrange(g) for _ in range(nobj)] for _ in range(npt)]
            if t % 4 == 0 and npt > 1:       # a constant objective
                j = rng.randrange(nobj)
                for p in pts:
                    p[j] = pts[0][j]
            if t % 7 == 0:                   # translated far away
                sh = [rng.randrange(-50, 50) for _ in range(nobj)]
                pts = [[p[j] + sh[j] for j in range(nobj)] for p in pts]
            if t % 7 == 3:                   # translated VERY far away relative to the ranges (2^20: still exact in binary)
                sh = [rng.choice([-1, 1]) * 2 ** 20 for _ in range(nobj)]
                pts = [[p[j] + sh[j] for j in range(nobj)] for p in pts]
            sg = [rng.choice([-1, 1]) for _ in range(nobj)]
            L = [rng.randrange(0, 3) for _ in range(nobj)]
            if not any(L):
                L[rng.randrange(nobj)] = 1
            den = 1.0
            if t % 5 == 1 or t >= ndist:
                # all objectives improve together and the preference is equal: every scaled point lies ON the preference
                # line (distance exactly 0), at coordinates such as 1/3, 2/7 that are not representable
                npt = rng.choice([3, 4, 5, 7])
                ks = rng.sample(range(0, 8 if nobj == 3 else 10), npt)
                step = [rng.choice([1, 2] if nobj == 3 else [1, 2, 3]) for _ in range(nobj)]
                base = [rng.randrange(-20, 20) for _ in range(nobj)]
                pts = [[base[j] + sg[j] * k * step[j] for j in range(nobj)] for k in ks]
                L = [rng.choice([1, 2])] * nobj
                # min-max scaling makes the distance invariant under a common positive factor: the function receives the
                # points divided by den (coordinates such as 0.3 that are not representable), TLC the integer points
                den = float(rng.choice([1, 10, 100, 3, 7]))
            if t % 11 == 5:
                den = float(2 ** 30)          # objectives on a tiny absolute scale (exact power of two)
            m = np.array(pts, float) / den
            ranges = []
            for j in range(nobj):
                col = [sg[j] * p[j] for p in pts]
                ranges.append(max(col) - min(col) or 1)
            S = int(np.prod(ranges)) ** 2 * sum(x * x for x in L)
            cid += 1
            fnof[cid] = fname
            try:
                with np.errstate(all="ignore"):
                    marg = m.copy(); sarg = np.array(sg, float); larg = np.array(L, float)
                    d = np.asarray(fn(marg, sarg, larg), float)
                    if not (np.array_equal(marg, m) and np.array_equal(sarg, np.array(sg, float)) and np.array_equal(larg, np.array(L, float))):
                        ctx.violation(fname + ":mutates-input", "%s modified the front / sign / preference array it was given" % fname,
                                      {"pts": pts, "sg": sg, "L": L})
            except Exception as e:
                ctx.violation(fname + ":exception", "%s raised %r" % (fname, e), {"pts": pts, "sg": sg, "L": L})
                continue
            fin = [bool(np.isfinite(x)) for x in d]
            obs = []
            for x in d:
                if not np.isfinite(x):
                    obs.append(0); continue
                v = float(x) ** 2 * S
                rv = int(round(v))
                if abs(v - rv) > 1e-6 * max(1.0, abs(v)):
                    rv = -1 - abs(rv)      # off the lattice: cannot equal a non-negative expected value
                obs.append(rv)
            allc.append({"id": cid, "kind": "dist", "fn": fname, "pts": pts, "sg": sg, "L": L, "S": S,
                         "obs": obs, "finite": fin})
    # TLC decides
    verd = cases.validate(ctx, "Pareto_Trace", "Pareto_Trace.cfg", allc, "Pareto_Trace", chunk=1200,
                          procs=12)
    ctx.traces += len(allc)
    ctx.extra["exhaustive_grid_cases"] = n_exh
    for c in allc:
        v = verd[c["id"]]
        nontriv = (c["kind"] == "eff" and len(c["pts"]) >= 2 and not all(c["mask"])) or \
                  (c["kind"] == "dom" and (c["c1"] > 0) != (c["c2"] > 0)) or \
                  (c["kind"] == "dist" and any(x > 0 for x in c["obs"]))
        ctx.count(1, (c["kind"], repr({k: c[k] for k in c if k not in ("id",)})) if nontriv else None)
        if c["kind"] == "eff" and c.get("exc"):
            ctx.violation("is_pareto_efficient:exception", "raised %s on valid input" % c["exc"], c)
        if c.get("mutated_input"):
            ctx.violation("is_pareto_efficient:mutates-input", "input arrays modified", c)
        if v != "ok":
            site = {"eff": "is_pareto_efficient", "dom": "dominates"}.get(c["kind"]) or c["fn"]
            ctx.violation("%s:%s" % (site, v), "TLC verdict %s" % v, c)
    for k in ("eff", "dom", "dist"):
        for c in allc:
            if c["kind"] == k and len(c.get("pts", [0, 0])) > 1:
                ctx.sample({"case": c, "verdict": verd[c["id"]]}); break
    ctx.exhaustive = True
