"""C06 optimisers (spec/Optimizers*.tla)."""
import copy, importlib, random
import numpy as np
from .. import tlc, cases
from ..core import time_limit, Timeout


def model_check(ctx, thorough):
    for c in (("Optimizers_MC.cfg" if thorough else "Optimizers_MCq.cfg"), "Optimizers_live.cfg"):
        r = tlc.run("Optimizers_MC", c, coverage=True, timeout=2400)
        tlc.must_pass(r, c); ctx.add_tlc(r, c)
        if r.violated:
            ctx.violation("spec:Optimizers:" + r.violated, "TLC: %s violated in %s" % (r.violated, c), r.error)
        for a in ("Steepest", "Stop"):
            if r.coverage.get(a, (0, 0))[1] == 0:
                raise tlc.TLCFailure("vacuous: %s never taken in %s" % (a, c))


# ---------------------------------------------------------------- problems (integer data, so TLC re-evaluates exactly)
def _mk_subset_problem():
    from pybrops.opt.prob.SubsetProblem import SubsetProblem

    class QuadSubset(SubsetProblem):
        """score = sum a[i] + sum_{i<j} b[i][j] (+ second separable objective a2); cv = max(0, sum g - cap)"""
        def __init__(self, space, k, a, b, g, cap, a2=None, g2=None, cap2=None, objint=False, unit=1, signed=False, wt=1):
            # objint: the objective vector is returned with an integer dtype (scores are integer counts); unit: violations
            # are reported in units of 1/unit (unit = 2: halves, exact in binary) -- TLC sees the integer loads and caps
            self.objint = bool(objint); self.unit = int(unit)
            # signed: the constraint functions report the signed slack load - cap (negative when satisfied, as pymoo's convention
            # allows), so feasible members of one front carry DIFFERENT constraint values
            self.signed = bool(signed)
            # wt: the declared objective weight (obj_wt); by the library's contract evalfn returns obj_wt * F(x)
            self.wt = int(wt)
            self.pos = {int(v): p for p, v in enumerate(space)}
            self.a = np.array(a, float); self.b = np.array(b, float); self.g = np.array(g, float)
            self.cap = cap; self.a2 = None if a2 is None else np.array(a2, float)
            self.g2 = None if cap2 is None else np.array(g2, float); self.cap2 = cap2
            self.log = None
            super().__init__(ndecn=k, decn_space=np.array(space), decn_space_lower=np.repeat(min(space), k),
                             decn_space_upper=np.repeat(max(space), k), nobj=1 if a2 is None else 2,
                             nineqcv=0 if cap is None else (1 if cap2 is None else 2), **({} if wt == 1 else {"obj_wt": float(wt)}))

        def evalfn(self, x, *args, **kwargs):
            x = np.asarray(x)
            if self.log is not None:
                self.log.append([int(v) for v in x])
            ix = [self.pos[int(v)] for v in x]
            s = self.a[ix].sum() + sum(self.b[ix[p], ix[q]] for p in range(len(ix)) for q in range(p + 1, len(ix)))
            obj = [self.wt * s] if self.a2 is None else [self.wt * s, self.wt * self.a2[ix].sum()]
            lo_ = -np.inf if self.signed else 0.0
            cv = [] if self.cap is None else [max(lo_, self.g[ix].sum() - self.cap)]
            if self.cap2 is not None:
                cv.append(max(lo_, self.g2[ix].sum() - self.cap2))
            return np.array(obj, "int64" if self.objint else float), np.array(cv, float) / self.unit, np.array([], float)
    return QuadSubset


def _mk_vector_problem(vt):
    mod = {"int": "IntegerProblem", "bin": "BinaryProblem", "real": "RealProblem"}[vt]
    base = getattr(importlib.import_module("pybrops.opt.prob." + mod), mod)

    class LinVector(base):
        """objectives d.x (and d2.x); cv = max(0, gv.x - cap)"""
        def __init__(self, lower, upper, d, gv, cap, d2=None):
            dt = float if vt == "real" else int
            lo = np.array(lower, dt); up = np.array(upper, dt)
            self.d = np.array(d, float); self.gv = np.array(gv, float); self.cap = cap
            self.d2 = None if d2 is None else np.array(d2, float)
            super().__init__(ndecn=len(lower), decn_space=np.stack([lo, up]), decn_space_lower=lo, decn_space_upper=up,
                             nobj=1 if d2 is None else 2, nineqcv=0 if cap is None else 1)

        def evalfn(self, x, *args, **kwargs):
            x = np.asarray(x, float)
            obj = [self.d.dot(x)] if self.d2 is None else [self.d.dot(x), self.d2.dot(x)]
            cv = [] if self.cap is None else [max(0.0, self.gv.dot(x) - self.cap)]
            return np.array(obj, float), np.array(cv, float), np.array([], float)
    return LinVector


def snapshot(p):
    out = {}
    for k, v in sorted(vars(p).items()):
        if k in ("log",):
            continue
        if isinstance(v, np.ndarray):
            out[k] = (str(v.dtype), v.shape, v.tolist())
        elif isinstance(v, (int, float, str, bool, type(None), dict, list, tuple)):
            out[k] = copy.deepcopy(v)
    return out


def ranks(vals):
    u = sorted(set(vals))
    return [u.index(v) for v in vals]


BIG = 2 * 10 ** 6


def clamp(v):
    """TLC integers are 32-bit: values far outside every bound are logged as +-BIG (they fail the bound check first)"""
    return max(-BIG, min(BIG, int(v)))


def thousandths(v):
    f = float(v)
    if f != f:
        return BIG
    return clamp(round(max(-1e9, min(1e9, f)) * 1000))


def ifloor(v):
    f = float(v)
    return BIG if f != f else clamp(np.floor(max(-1e9, min(1e9, f))))


def iceil(v):
    f = float(v)
    return BIG if f != f else clamp(np.ceil(max(-1e9, min(1e9, f))))


ALGOS_SO = ["SortingSubsetOptimizationAlgorithm", "SteepestDescentSubsetHillClimber",
            "SortingSteepestDescentSubsetHillClimber", "SubsetGeneticAlgorithm"]
ALGOS_MO = [("NSGA2SubsetGeneticAlgorithm", "NSGA2SubsetGeneticAlgorithm"),
            ("NSGA3SubsetGeneticAlgorithm", "NSGA3SubsetGeneticAlgorithm"),
            ("NSGA2MemeticSubsetGeneticAlgorithm", "NSGA2SteepestDescentSubsetGeneticAlgorithm"),
            ("NSGA2MemeticSubsetGeneticAlgorithm", "NSGA2StochasticDescentSubsetGeneticAlgorithm"),
            ("NSGA2MemeticSubsetGeneticAlgorithm", "NSGA2MutatorASubsetGeneticAlgorithm"),
            ("NSGA2MemeticSubsetGeneticAlgorithm", "NSGA2MutatorBSubsetGeneticAlgorithm")]
ALGOS_VEC = {"int": ["IntegerGeneticAlgorithm", "NSGA2IntegerGeneticAlgorithm"],
             "bin": ["BinaryGeneticAlgorithm", "NSGA2BinaryGeneticAlgorithm"],
             "real": ["RealGeneticAlgorithm", "NSGA2RealGeneticAlgorithm"]}


def get_algo(mod, cls=None):
    return getattr(importlib.import_module("pybrops.opt.algo." + mod), cls or mod)


def make_algo(cls, rng, seed):
    g = np.random.default_rng(seed) if seed % 2 else np.random.RandomState(seed)
    import inspect
    kw = {}
    if "nhcstep" in inspect.signature(cls.__init__).parameters and rng.random() < 0.6:
        # the optional number of hill-climbing steps of the memetic optimisers, from fewer to many more than there are candidates
        kw["nhcstep"] = rng.choice([1, 2, 5, 12, 24, 40])
    try:
        return cls(ngen=rng.choice([1, 2, 3, 6]), pop_size=rng.choice([4, 6, 10, 16]), rng=g, **kw)
    except TypeError:
        return cls(rng=g)


def rand_subset_data(rng, n, k, separable, constrained, tight=False):
    a = [rng.randrange(-4, 5) for _ in range(n)]
    b = [[0] * n for _ in range(n)]
    if not separable:
        for p in range(n):
            for q in range(p + 1, n):
                b[p][q] = b[q][p] = rng.choice([0, 0, 1, 3, -2])
    g = [rng.choice([0, 1, 1, 2, 3]) for _ in range(n)]
    cap = None; g2 = [0] * n; cap2 = None
    if constrained:
        lo = sum(sorted(g)[:k])                 # satisfiable alone
        cap = lo + rng.choice([0, 1, 2, 4, 6])
        if tight:                               # possibly infeasible: searches end on plateaus of equal total violation
            cap = max(0, lo - rng.choice([0, 1, 2]))
        if rng.random() < 0.5:
            g2 = [rng.choice([0, 1, 2, 3]) for _ in range(n)]
            lo2 = sum(sorted(g2)[:k])
            cap2 = max(0, lo2 - rng.choice([0, 1, 2])) if tight else lo2 + rng.choice([0, 1, 2, 4, 6])
    space = rng.sample(range(0, 40), n)
    if rng.random() < 0.5:
        space.sort()
    return space, a, b, g, cap, g2, cap2


def subset_fields(c, space, n, k, a, b, g, cap, g2, cap2):
    c.update(n=n, k=k, a=a, b=b, g=g, ncon=0 if cap is None else (1 if cap2 is None else 2), cap=cap if cap is not None else 0,
             g2=g2, cap2=cap2 if cap2 is not None else 0)


def cvlist(arr, ncon, unit=1):
    """reported violation components (times the problem's reporting unit) as integers (10**6 where not an integer)"""
    v = np.asarray(arr, dtype=float).ravel() * unit
    if v.size != ncon:
        return [10 ** 6] * max(ncon, 1)
    return [toint(x) if toint(x) is not None else 10 ** 6 for x in v]


PROBE = {"x_none": None, "installed": False}


def install_pymoo_probe():
    """pymoo reports X=None when its final population has no feasible member. Whether that happened is OBSERVED (a wrapper around
    pymoo.optimize.minimize in every optimiser module), not inferred from the text of the exception that follows."""
    import sys
    import pymoo.optimize as po
    if PROBE["installed"]:
        return
    orig = po.minimize

    def wrapped(*a, **k):
        res = orig(*a, **k)
        PROBE["x_none"] = res.X is None
        return res
    for name, mod in list(sys.modules.items()):
        if name.startswith("pybrops.opt.algo") and getattr(mod, "minimize", None) is orig:
            mod.minimize = wrapped
    po.minimize = wrapped
    PROBE["installed"] = True


def classify_exc(e, constrained):
    """The genetic optimisers fail while assembling the Solution when pymoo ended without a feasible member. No solution is
    returned then, so the property (about returned solutions) is not engaged."""
    msg = "%s: %s" % (type(e).__name__, str(e)[:200])
    if constrained and PROBE["x_none"] is True:
        return "noresult", msg
    return msg, msg


def toint(v):
    f = float(v)
    if f != f or abs(f) > 1e6:
        return None
    return int(f) if f == int(f) else None


def run(ctx):
    rng = random.Random(ctx.seed)
    thorough = ctx.tier == "thorough"
    ctx.rule = ("TLC checks the exchange hill climber as a state machine over all problems of 4 candidates, subsets of 2, "
                "a in {-1,(0,)2}, symmetric pair terms in {0,1}, loads in {0,1}, cap 1 (members distinct, strict descent, stops only "
                "at local optima, separable local = global, termination). Real executions: every single-objective subset "
                "optimiser, six multi-objective subset optimisers, integer/binary/real single- and multi-objective optimisers and "
                "the variation operators are run on random integer-data problems (3-9 candidates, labels not 0..n-1, with and "
                "without a load constraint, 1-6 generations, populations 4-16, both generator kinds) and each returned solution "
                "set, hill-climber trajectory (rebuilt from the evaluation log) and operator offspring is validated by TLC "
                "(Optimizers_Trace); non-trivial: >=2 candidates outside the subset and non-constant objective data; "
                "distinct by input")
    ctx.assume("objective data are integers so that TLC re-evaluates exactly; real-vector values are compared in thousandths "
               "with a rounding allowance and ordered by exact dense ranks",
               "constrained problems are satisfiable; a genetic run that returns no feasible solution is validated by "
               "constraint-domination like any other",
               "pymoo draws from numpy's global generator, which the driver seeds per case")
    model_check(ctx, thorough)
    QuadSubset = _mk_subset_problem()
    allc = []
    cid = 0
    info = {}
    noresult = []

    def finish_case(c, site):
        nonlocal cid
        cid += 1
        c["id"] = cid
        c.setdefault("err", "none")
        info[cid] = site
        allc.append(c)

    # ---------------------------------------------------------------- single-objective subset optimisers
    nso = 320 if thorough else 90
    plan = [(name, False) for t in range(nso) for name in ALGOS_SO]
    # plateau batch: two tight integer constraints, so that climbers accept exchanges of equal total violation
    plan += [(name, True) for t in range(300 if thorough else 80) for name in ALGOS_SO[1:3]]
    for name, plateau in plan:
        if True:
            n = rng.randrange(3, 10)
            k = rng.randrange(1, n)
            sorting = name == "SortingSubsetOptimizationAlgorithm"
            separable = sorting or rng.random() < 0.3
            constrained = (not sorting) and rng.random() < 0.6
            if sorting and rng.random() < 0.35:
                separable = False                     # non-separable: only well-formedness is required
            climber = "HillClimber" in name
            if plateau:
                n = rng.randrange(6, 11); k = rng.randrange(2, 5); constrained = True; separable = rng.random() < 0.5
            space, a, b, g, cap, g2, cap2 = rand_subset_data(rng, n, k, separable, constrained, tight=plateau or (climber and rng.random() < 0.5))
            if plateau and cap2 is None:
                g2 = [rng.choice([0, 1, 2, 3]) for _ in range(n)]; cap2 = max(0, sum(sorted(g2)[:k]) - rng.choice([0, 1, 2]))
            # a declared objective weight other than 1 (the problem applies it in evalfn, as the contract says); TLC is given the weighted scores
            wt = rng.choice([1, 1, 2, 3]); a0, b0 = a, b
            a = [wt * x for x in a0]; b = [[wt * x for x in r_] for r_ in b0]
            prob = QuadSubset(space, k, a0, b0, g, cap, g2=g2, cap2=cap2, objint=rng.random() < 0.4, unit=rng.choice([1, 1, 2, 4]), wt=wt)
            before = snapshot(prob)
            seed = rng.randrange(2 ** 31)
            np.random.seed(seed)
            alg = make_algo(get_algo(name), rng, seed)
            c = {"kind": "climb" if climber else "subset", "algo": name, "seed": seed}
            subset_fields(c, space, n, k, a, b, g, cap, g2, cap2)
            c["req"] = "global" if (sorting and separable) else "valid"
            prob.log = []
            try:
                install_pymoo_probe(); PROBE["x_none"] = None
                with time_limit(60):
                    soln = alg.minimize(prob)
            except Timeout:
                c.update(err="non-termination", decn=[], obj=0, cv=[], lat=False, unchanged=True, dtypeok=True, states=[])
                finish_case(c, name); continue
            except Exception as e:
                err, msg = classify_exc(e, cap is not None and "Genetic" in name)
                if err == "noresult":
                    noresult.append((name, seed)); continue
                c.update(err=err, decn=[], obj=0, cv=[], lat=False, unchanged=True, dtypeok=True, states=[])
                finish_case(c, name); continue
            log = prob.log; prob.log = None
            dec = np.asarray(soln.soln_decn)
            ok_shape = dec.ndim == 2 and dec.shape[0] == 1 and soln.nsoln == 1
            d0 = dec[0] if dec.ndim == 2 and dec.shape[0] >= 1 else np.array([], int)
            pos = {v: p for p, v in enumerate(space)}
            c["decn"] = [pos.get(toint(v), -1) for v in d0]
            c["dtypeok"] = bool(ok_shape and np.issubdtype(dec.dtype, np.integer))
            # fresh evaluation by the real problem at the returned decision
            try:
                fo, fi, fe = prob.evalfn(d0)
                lat = (np.array_equal(np.asarray(soln.soln_obj)[0], fo) and np.array_equal(np.asarray(soln.soln_ineqcv)[0], fi)
                       and np.asarray(soln.soln_eqcv).size == 0)
            except Exception:
                lat = False
            c["lat"] = bool(lat)
            ro = toint(np.asarray(soln.soln_obj).ravel()[0]) if np.asarray(soln.soln_obj).size else None
            c["obj"] = ro if ro is not None else 10 ** 6
            c["cv"] = cvlist(np.asarray(soln.soln_ineqcv)[0] if np.asarray(soln.soln_ineqcv).ndim == 2 else soln.soln_ineqcv, c["ncon"], prob.unit) if c["ncon"] else \
                ([] if np.asarray(soln.soln_ineqcv).size == 0 else [10 ** 6])
            c["unchanged"] = snapshot(prob) == before
            if climber:
                # trajectory from the evaluation log, independent of the order in which a round scans the neighbourhood:
                # the single-candidate evaluations of the sorting variants and the evaluation of the start are followed by
                # rounds of k*(n-k) proposals; the solution of a round is the k-subset whose complete exchange neighbourhood
                # is exactly that round's set of proposals (if two subsets qualify: the one reachable from the previous round)
                import itertools as _it
                per = k * (n - k)
                full = [sorted(x) for x in log if len(x) == k and len(set(x)) == k]
                singles = n if name.startswith("Sorting") and k != 1 else 0
                evs_ = [x for x in log]
                start_eval = (n + 1) if name.startswith("Sorting") else 1
                body = [frozenset(x) for x in log[start_eval:]]
                states = [list(log[start_eval - 1])]
                okr = per > 0 and len(body) % per == 0 and len(body) >= per and all(len(x) == k for x in body)
                if okr:
                    allk = [frozenset(cmb) for cmb in _it.combinations(space, k)] if n <= 10 else []
                    def nbh(S):
                        return {frozenset((S - {i_}) | {j_}) for i_ in S for j_ in set(space) - S}
                    prev_props = set()
                    for r in range(len(body) // per):
                        rd = set(body[r * per:(r + 1) * per])
                        cands = [S for S in allk if nbh(S) == rd]
                        cur_prev = frozenset(states[-1])
                        pick = [S for S in cands if S == cur_prev or S in prev_props]
                        if len(rd) != per or len(pick) != 1:
                            okr = False; break
                        if pick[0] != cur_prev:
                            states.append(sorted(pick[0]))
                        prev_props = rd
                if okr:
                    c["states"] = [[pos.get(v, -1) for v in s] for s in states]
                else:
                    c["states"] = [c["decn"]]            # trajectory not reconstructible: the end point is still validated
                    c["norounds"] = True
                c["rounds"] = len(body) // per if per else 0
            finish_case(c, name)

    # ---------------------------------------------------------------- multi-objective subset optimisers
    nmo = 60 if thorough else 14
    for t in range(nmo):
        for mod, cls in ALGOS_MO:
            n = rng.randrange(4, 10)
            k = rng.randrange(1, n - 1)
            space, a, b, g, cap, g2, cap2 = rand_subset_data(rng, n, k, rng.random() < 0.5, rng.random() < 0.5)
            a2 = [rng.randrange(-4, 5) for _ in range(n)]
            wt = rng.choice([1, 1, 2, 3]); a0, b0, a20 = a, b, a2
            a = [wt * x for x in a0]; b = [[wt * x for x in r_] for r_ in b0]; a2 = [wt * x for x in a20]
            prob = QuadSubset(space, k, a0, b0, g, cap, a2=a20, g2=g2, cap2=cap2, objint=rng.random() < 0.4, unit=rng.choice([1, 1, 2, 4]),
                              signed=rng.random() < 0.5, wt=wt)
            before = snapshot(prob)
            seed = rng.randrange(2 ** 31)
            np.random.seed(seed)
            alg = make_algo(get_algo(mod, cls), rng, seed)
            c = {"kind": "front", "algo": cls, "seed": seed, "a2": a2}
            subset_fields(c, space, n, k, a, b, g, cap, g2, cap2)
            try:
                install_pymoo_probe(); PROBE["x_none"] = None
                with time_limit(120):
                    soln = alg.minimize(prob)
            except Exception as e:
                err, msg = classify_exc(e, cap is not None)
                if err == "noresult":
                    noresult.append((cls, seed)); continue
                c.update(err=err, sols=[], lat=False, unchanged=True, dtypeok=True)
                finish_case(c, cls); continue
            dec = np.asarray(soln.soln_decn); so = np.asarray(soln.soln_obj); sc = np.asarray(soln.soln_ineqcv)
            pos = {v: p for p, v in enumerate(space)}
            sols = []; lat = dec.ndim == 2 and so.shape == (dec.shape[0], 2) and soln.nsoln == dec.shape[0]
            for s in range(dec.shape[0] if dec.ndim == 2 else 0):
                try:
                    fo, fi, fe = prob.evalfn(dec[s])
                    lat = lat and np.array_equal(so[s], fo) and (cap is None or np.array_equal(sc[s], fi))
                except Exception:
                    lat = False
                o = [toint(v) for v in so[s]] if so.ndim == 2 else [None, None]
                sols.append({"decn": [pos.get(toint(v), -1) for v in dec[s]],
                             "o1": o[0] if o[0] is not None else 10 ** 6, "o2": o[1] if o[1] is not None else 10 ** 6,
                             "cv": cvlist(np.maximum(np.asarray(sc[s], float), 0.0), c["ncon"], prob.unit) if (c["ncon"] and sc.ndim == 2) else []})
            c.update(sols=sols, lat=bool(lat), dtypeok=bool(dec.ndim == 2 and np.issubdtype(dec.dtype, np.integer)),
                     unchanged=snapshot(prob) == before)
            finish_case(c, cls)

    # ---------------------------------------------------------------- integer / binary / real vector optimisers
    nvec = 50 if thorough else 12
    for t in range(nvec):
        for vt in ("int", "bin", "real"):
            for name in ALGOS_VEC[vt]:
                multi = name.startswith("NSGA2")
                m = rng.randrange(1, 7)
                if vt == "bin":
                    lower = [0] * m; upper = [1] * m
                else:
                    lower = [rng.randrange(-3, 3) for _ in range(m)]
                    upper = [lo + rng.randrange(1, 8) for lo in lower]
                d = [rng.randrange(-5, 6) for _ in range(m)]
                d2 = [rng.randrange(-5, 6) for _ in range(m)] if multi else None
                gv = [rng.randrange(0, 4) for _ in range(m)]
                cap = None
                if rng.random() < 0.5:
                    base = sum(gq * lo for gq, lo in zip(gv, lower))
                    cap = base + rng.choice([0, 1, 3, 6])
                if rng.random() < 0.35:
                    # the decision space is REVISED after construction through the public setters (the problem was built for a
                    # wider box): the optimiser must respect the box the problem now declares
                    dt = float if vt == "real" else int
                    wl = [lo - rng.randrange(1, 4) for lo in lower]; wu = [up + rng.randrange(1, 7) for up in upper]
                    if vt == "bin":
                        wl, wu = lower, upper
                    prob = _mk_vector_problem(vt)(wl, wu, d, gv, cap, d2=d2)
                    lo_a = np.array(lower, dt); up_a = np.array(upper, dt)
                    prob.decn_space = np.stack([lo_a, up_a]); prob.decn_space_lower = lo_a; prob.decn_space_upper = up_a
                    revised = True
                else:
                    prob = _mk_vector_problem(vt)(lower, upper, d, gv, cap, d2=d2)
                    revised = False
                before = snapshot(prob)
                seed = rng.randrange(2 ** 31)
                np.random.seed(seed)
                alg = make_algo(get_algo(name), rng, seed)
                c = {"kind": "vector", "algo": name, "seed": seed, "vt": vt, "k": m, "lower": lower, "upper": upper, "d": d,
                     "d2": d2 or [0] * m, "gv": gv, "con": cap is not None, "cap": cap if cap is not None else 0, "nobj": 2 if multi else 1,
                     "revised": revised}
                try:
                    install_pymoo_probe(); PROBE["x_none"] = None
                    with time_limit(120):
                        soln = alg.minimize(prob)
                except Exception as e:
                    err, msg = classify_exc(e, cap is not None)
                    if err == "noresult":
                        noresult.append((name, seed)); continue
                    c.update(err=err, sols=[], lat=False, unchanged=True, dtypeok=True)
                    finish_case(c, name); continue
                dec = np.asarray(soln.soln_decn); so = np.asarray(soln.soln_obj); sc = np.asarray(soln.soln_ineqcv)
                lat = dec.ndim == 2 and so.ndim == 2 and so.shape == (dec.shape[0], c["nobj"]) and soln.nsoln == dec.shape[0]
                sols = []
                nn = dec.shape[0] if dec.ndim == 2 else 0
                cvals = []
                for s in range(nn):
                    try:
                        fo, fi, fe = prob.evalfn(dec[s])
                        lat = lat and np.array_equal(so[s], fo) and (cap is None or np.array_equal(sc[s], fi))
                    except Exception:
                        lat = False
                    cvals.append(float(sc[s][0]) if cap is not None and sc.ndim == 2 and sc.shape[1] == 1 else 0.0)
                if lat:
                    r1 = ranks([float(v) for v in so[:, 0]]); r2 = ranks([float(v) for v in so[:, 1]]) if multi else [0] * nn
                    rc = ranks(cvals)
                    for s in range(nn):
                        x = [float(v) for v in dec[s]]
                        sols.append({"fl": [ifloor(v) for v in x], "ce": [iceil(v) for v in x],
                                     "xs": [thousandths(v) for v in x], "o1": thousandths(so[s][0]),
                                     "o2": thousandths(so[s][1]) if multi else 0, "cv": thousandths(cvals[s]),
                                     "r1": r1[s], "r2": r2[s], "rc": rc[s]})
                want_dt = {"int": np.integer, "bin": np.integer, "real": np.floating}[vt]
                dtok = dec.ndim == 2 and (np.issubdtype(dec.dtype, want_dt) or (vt == "bin" and dec.dtype == bool))
                c.update(sols=sols if lat else [{"fl": [0] * m, "ce": [0] * m, "xs": [0] * m, "o1": 0, "o2": 0, "cv": 0, "r1": 0, "r2": 0, "rc": 0}],
                         lat=bool(lat), dtypeok=bool(dtok), unchanged=snapshot(prob) == before)
                finish_case(c, name)

    # ---------------------------------------------------------------- variation operators
    from pybrops.opt.algo import pymoo_addon as PA
    nop = 400 if thorough else 120
    for t in range(nop):
        n = rng.randrange(2, 11); k = rng.randrange(1, n + 1)
        space = np.array(rng.sample(range(0, 60), n))
        pos = {int(v): p for p, v in enumerate(space)}
        prob = QuadSubset([int(v) for v in space], k, [0] * n, [[0] * n for _ in range(n)], [0] * n, None)
        seed = rng.randrange(2 ** 31); np.random.seed(seed)
        op = ("sampling", "crossover", "mutation")[t % 3]
        c = {"kind": "op", "op": op, "n": n, "k": k, "seed": seed, "algo": op}
        try:
            if op == "sampling":
                X = PA.SubsetRandomSampling(setspace=space)._do(prob, rng.randrange(1, 6))
                par = []; ch = X; punch = True
            else:
                nm = rng.randrange(1, 5)
                P = np.array([[np.random.choice(space, k, replace=False) for _ in range(nm)] for _ in range(2)])
                if op == "crossover":
                    P0 = P.copy()
                    X = PA.ReducedExchangeCrossover()._do(prob, P)
                    punch = np.array_equal(P, P0)
                    # per mating: two parents -> two children
                    par = P[:, 0, :]; ch = np.asarray(X)[:, 0, :]
                else:
                    P1 = P[0]; P0 = P1.copy()
                    X = PA.ReducedExchangeMutation(setspace=space)._do(prob, P1)
                    punch = np.array_equal(P1, P0)
                    par = P1; ch = np.asarray(X)
            ch = np.asarray(ch)
            c.update(parents=[[pos.get(toint(v), -1) for v in r] for r in par],
                     children=[[pos.get(toint(v), -1) for v in r] for r in ch],
                     dtypeok=bool(np.issubdtype(ch.dtype, np.integer)), parentsunchanged=bool(punch))
        except Exception as e:
            c.update(err="%s: %s" % (type(e).__name__, str(e)[:200]), parents=[], children=[], dtypeok=True, parentsunchanged=True)
        finish_case(c, "pymoo_addon." + op)
    for t in range(nop // 2):
        m = rng.randrange(1, 7)
        lower = [rng.randrange(-3, 3) for _ in range(m)]; upper = [lo + rng.randrange(1, 8) for lo in lower]
        prob = _mk_vector_problem("int")(lower, upper, [1] * m, [0] * m, None)
        seed = rng.randrange(2 ** 31); np.random.seed(seed)
        op = ("isbx", "ipm")[t % 2]
        c = {"kind": "vecop", "op": op, "k": m, "lower": lower, "upper": upper, "vt": "int", "seed": seed, "algo": op}
        try:
            nm = rng.randrange(1, 6)
            P = np.array([[[np.random.randint(lower[q], upper[q] + 1) for q in range(m)] for _ in range(nm)] for _ in range(2)])
            if op == "isbx":
                X = np.asarray(PA.IntegerSimulatedBinaryCrossover()._do(prob, P, random_state=np.random.default_rng(seed)))
                X = X.reshape(-1, m)
            else:
                X = np.asarray(PA.IntegerPolynomialMutation()._do(prob, P[0], random_state=np.random.default_rng(seed)))
            c.update(children=[{"fl": [ifloor(v) for v in r], "ce": [iceil(v) for v in r]} for r in X],
                     dtypeok=bool(np.issubdtype(X.dtype, np.integer)))
        except Exception as e:
            c.update(err="%s: %s" % (type(e).__name__, str(e)[:200]), children=[], dtypeok=True)
        finish_case(c, "pymoo_addon." + op)

    verd = cases.validate(ctx, "Optimizers_Trace", "Optimizers_Trace.cfg", allc, "Optimizers_Trace", chunk=120, procs=14)
    ctx.traces += len(allc)
    seen_kind = set()
    steps = 0
    for c in allc:
        v = verd[c["id"]]
        site = info[c["id"]]
        nt = None
        if c["kind"] in ("subset", "climb", "front"):
            if c["n"] - c["k"] >= 2 and len(set(c["a"])) > 1:
                nt = repr({k: c[k] for k in c if k not in ("id", "seed")})
        elif c["kind"] == "vector":
            if len(set(c["d"])) > 1 or c["k"] == 1:
                nt = repr({k: c[k] for k in c if k not in ("id", "seed")})
        else:
            nt = repr({k: c[k] for k in c if k not in ("id", "seed")})
        ctx.count(1, nt)
        if c["kind"] == "climb":
            steps += max(0, len(c.get("states", [])) - 1)
        if v != "ok":
            what = "%s: TLC verdict %s" % (site, v)
            if c["err"] != "none":
                what += " (%s)" % c["err"]
            ctx.violation("%s:%s" % (site, v), what, c)
        if c["kind"] not in seen_kind:
            seen_kind.add(c["kind"]); ctx.sample({"case": c, "verdict": v})
    ctx.extra["hill_climber_steps_validated"] = steps
    ctx.extra["constrained_genetic_runs_without_feasible_result"] = len(noresult)
    ctx.extra["trajectories_not_reconstructed"] = sum(1 for c in allc if c.get("norounds"))
    ctx.extra["cases_by_kind"] = {k: sum(1 for c in allc if c["kind"] == k) for k in ("subset", "climb", "front", "vector", "op", "vecop")}
    if steps == 0:
        raise tlc.TLCFailure("vacuous: no hill-climber trajectory contained a step")
    ctx.exhaustive = True
