"""C15 breeding-value matrices round-trip through scaling (spec/ScaledBV*.tla)."""
import copy, importlib, random
import numpy as np
from .. import tlc, cases, lm
from ..core import time_limit
from .c03 import pick_args

Q = 840
PERM0 = [0, 5, 2, 7, 1, 6, 3, 4]
PERM1 = [4, 0, 6, 1, 7, 3, 5, 2]
PERM3 = [2, 7, 0, 5, 3, 1, 6, 4]
TABLE = {
    "off": [5, 1000000, 7, 0],
    "y": [[3 * PERM0[i], 2 * PERM1[i] + 1, 0, PERM3[i]] for i in range(8)],
    "miss": [[False, False, False, i in (3, 6)] for i in range(8)],
    "name": lm.TAB["taxa"]["name"], "grp": lm.TAB["taxa"]["grp"],
}
CLASSES = {
    "DenseBreedingValueMatrix": "pybrops.popgen.bvmat.DenseBreedingValueMatrix",
    "DenseEstimatedBreedingValueMatrix": "pybrops.popgen.bvmat.DenseEstimatedBreedingValueMatrix",
    "DenseGenomicEstimatedBreedingValueMatrix": "pybrops.popgen.bvmat.DenseGenomicEstimatedBreedingValueMatrix",
}
NT = 4


def raw_rows(ids):
    m = np.empty((len(ids), NT), dtype=float)
    for k, i in enumerate(ids):
        for r in range(NT):
            m[k, r] = np.nan if TABLE["miss"][i][r] else TABLE["off"][r] + TABLE["y"][i][r]
    return m


def build(cls, ids, with_grp=True):
    return cls.from_numpy(raw_rows(ids), taxa=np.array([TABLE["name"][i] for i in ids], dtype=object),
                          taxa_grp=np.array([TABLE["grp"][i] for i in ids], dtype="int64") if with_grp else None,
                          trait=np.array(["t0", "t1", "t2", "t3"], dtype=object))


def rnd(x, ok):
    v = np.asarray(x, dtype=float)
    r = np.rint(v)
    fin = np.isfinite(v)
    if not np.all(np.abs(v[fin] - r[fin]) <= 1e-6 * np.maximum(1.0, np.abs(v[fin]))):
        ok[0] = False
    return [int(t) if f else 0 for t, f in zip(r.ravel().tolist() if r.ndim else [float(r)], fin.ravel().tolist() if fin.ndim else [bool(fin)])]


class ByName:
    """view of a breeding-value matrix with its traits put in the order t0..t3 BY NAME (a matrix built from a data frame lists the
    traits in the order of the frame's columns; every value must still stand under its own trait name)"""
    def __init__(self, o):
        names = [str(x) for x in o.trait] if o.trait is not None else ["t%d" % r for r in range(NT)]
        self.o = o; self.ix = [names.index("t%d" % r) if ("t%d" % r) in names else r for r in range(NT)]

    def __getattr__(self, k):
        v = getattr(self.o, k)
        if k in ("location", "scale"):
            return np.asarray(v)[self.ix]
        if k in ("unscale",):
            return lambda *a, **kw: np.asarray(v(*a, **kw))[:, self.ix]
        if k in ("tmax", "tmin", "trange", "tmean", "tvar", "tstd", "targmax", "targmin"):
            return lambda *a, **kw: np.asarray(v(*a, **kw))[self.ix]
        return v


def project(obj):
    if obj.trait is not None and [str(x) for x in obj.trait] != ["t%d" % r for r in range(NT)]:
        obj = ByName(obj)
    with np.errstate(all="ignore"):
        un = np.asarray(obj.unscale(), dtype=float)
        n = un.shape[0]
        ok = [True]; sok = [True]
        first = np.rint(un[:, 0]).astype(int)
        dec = {TABLE["off"][0] + TABLE["y"][i][0]: i for i in range(8)}
        ids = [dec.get(int(v), -1) for v in first]
        unr = [rnd(un[k], ok) for k in range(n)]
        nan = [[bool(np.isnan(un[k, r])) for r in range(NT)] for k in range(n)]
        loc = np.asarray(obj.location, float); sc = np.asarray(obj.scale, float)
        mcnt = np.sum(~np.isnan(un), axis=0).astype(float)          # present values per trait
        eok = [True]      # lattice flag of the extrema (independent of how the stored values are centred)
        p = {"ids": ids, "un": unr, "nan": nan, "unlat": ok[0],
             "nameon": obj.taxa is not None, "grpon": obj.taxa_grp is not None,
             "name": [str(x) for x in obj.taxa] if obj.taxa is not None else [],
             "grp": [int(x) for x in obj.taxa_grp] if obj.taxa_grp is not None else [],
             "locm": rnd(loc * mcnt, sok), "varmm": rnd(sc * sc * mcnt * mcnt, sok),
             "tmaxu": rnd(obj.tmax(unscale=True), eok), "tminu": rnd(obj.tmin(unscale=True), eok),
             "trngu": rnd(obj.trange(unscale=True), eok), "tmeanm": rnd(np.asarray(obj.tmean(unscale=True)) * mcnt, sok),
             "tvarmm": rnd(np.asarray(obj.tvar(unscale=True)) * mcnt * mcnt, sok),
             "tstdmm": rnd(np.asarray(obj.tstd(unscale=True)) ** 2 * mcnt * mcnt, sok),
             "smax": rnd(np.asarray(obj.tmax(unscale=False)) * sc + loc, eok),
             "smin": rnd(np.asarray(obj.tmin(unscale=False)) * sc + loc, eok),
             "amax": [int(x) for x in np.asarray(obj.targmax())], "amin": [int(x) for x in np.asarray(obj.targmin())]}
        p["statlat"] = sok[0]; p["extlat"] = eok[0]
    return p


def execute(obj, cls, op, args, form, mutating, with_grp):
    name = lm.MUT.get(op, op) if mutating else op
    spec = form == "specific"
    meth = getattr(obj, name + "_taxa") if spec else getattr(obj, name)
    axi = obj.taxa_axis if form != "generic-" else obj.taxa_axis - obj.mat.ndim
    axkw = {} if spec else {"axis": axi}
    if op in ("select", "reorder"):
        res = meth(np.array(args["ix"], dtype=int), **axkw)
    elif op == "delete":
        res = meth(args["obj"], **axkw)
    elif op in ("insert", "adjoin"):
        blk = build(cls, args["blk"], with_grp)
        if args.get("raw"):
            vals = raw_rows(args["blk"]); kw = {"taxa": blk.taxa}
            if not np.isnan(vals).any() and args.get("rawdtype"):
                vals = vals.astype(args["rawdtype"])       # whole-number raw values handed over in an integer / float32 array
            if with_grp:
                kw["taxa_grp"] = blk.taxa_grp
        else:
            vals = blk; kw = {}
        res = meth(np.array(args["pos"], dtype=int), vals, **axkw, **kw) if op == "insert" else meth(vals, **axkw, **kw)
    elif op == "concat":
        mats = [obj] + [build(cls, b, with_grp) for b in args["blks"]]
        res = cls.concat_taxa(mats) if spec else cls.concat(mats, **axkw)
    elif op == "sort":
        res = meth() if spec else meth(keys=None, **axkw)
    elif op == "group":
        res = meth(**axkw)
    else:
        raise KeyError(op)
    return obj if (mutating or op in ("reorder", "sort", "group")) else res


def run(ctx):
    rng = random.Random(ctx.seed)
    thorough = ctx.tier == "thorough"
    ctx.rule = ("TLC checks the algebra of the summaries over all taxa axes of <=4 entities; histories of taxa-axis operations are "
                "run on the three breeding-value classes (specific/generic, mutating/non-mutating, matrix and raw-array "
                "operands, constant trait, 10^6 offset, NaN entries) and every step is validated by TLC: raw values of retained "
                "taxa, NaN positions, labels, location/scale and all summaries on the original scale; distinct by "
                "(class, op, args, pre-axis); non-trivial: the axis content changes")
    ctx.assume("raw values are integers so unscale must reproduce them to 1e-6; means compared as mean*m, variances as var*m^2 (m = present values)",
               "extrema/range/arg-extrema are checked on traits without a missing value on the axis (numpy's max of a NaN column is NaN)",
               "axes on which every value of the NaN trait is missing are skipped")
    r = tlc.run("ScaledBV_MC", "ScaledBV_MC.cfg", timeout=1500)
    tlc.must_pass(r, "ScaledBV_MC"); ctx.add_tlc(r, "ScaledBV_MC.cfg")
    if r.violated:
        ctx.violation("spec:ScaledBV:" + r.violated, "TLC: %s violated" % r.violated, r.error)
    out = []
    ops = ["select", "delete", "insert", "adjoin", "concat", "reorder", "sort", "group"]
    nh = 30 if thorough else 8
    for clsname, mod in CLASSES.items():
        cls = getattr(importlib.import_module(mod), clsname)
        for h in range(nh):
            with_grp = rng.random() < 0.8
            ids0 = [rng.randrange(8) for _ in range(rng.randrange(1, 6))]
            try:
                cur = build(cls, ids0, with_grp)
            except Exception as e:
                ctx.violation("%s.from_numpy:exception" % clsname, "%s: %s" % (type(e).__name__, e), {"ids": ids0}); continue
            out.append({"id": len(out) + 1, "cls": clsname, "qual": cls.from_numpy.__qualname__, "op": "construct", "form": "classmethod",
                        "mut": False, "ix": [], "del": [], "pos": [], "blk": [], "pre": ids0, "post": project(cur), "err": None,
                        "tab": TABLE})
            if h < 4:
                # the same raw values handed over as a DATA FRAME whose columns stand in another order, with the trait columns
                # inferred or named explicitly (in the frame's order or in another one): every value under its own trait name
                import pandas
                raw = raw_rows(ids0)
                cols = {"taxa": [TABLE["name"][i] for i in ids0], "taxa_grp": [TABLE["grp"][i] for i in ids0]}
                for r in range(NT):
                    cols["t%d" % r] = raw[:, r]
                order = list(cols); rng.shuffle(order)
                df = pandas.DataFrame({k: cols[k] for k in order})
                tnames = [k for k in order if k.startswith("t") and k[1:].isdigit()]
                req = ["infer", list(tnames), sorted(tnames), sorted(tnames, reverse=True)][h % 4]
                c0 = {"id": len(out) + 1, "cls": clsname, "qual": cls.from_pandas.__qualname__, "op": "construct", "form": "classmethod:trait_cols=%s" % ("infer" if req == "infer" else "explicit"),
                      "mut": False, "ix": [], "del": [], "pos": [], "blk": [], "pre": ids0, "err": None, "tab": TABLE}
                try:
                    c0["post"] = project(cls.from_pandas(df, trait_cols=req))
                except Exception as e:
                    c0["err"] = "%s: %s" % (type(e).__name__, str(e)[:200]); c0["post"] = project(cur)
                out.append(c0)
            if h < 6:
                # export in the ORIGINAL scale (unscale=True) with every combination of the optional label columns, the label columns put
                # back by hand where they were left out, and the frame read again: the matrix read back holds the raw values
                import pandas
                tc, gc = [("taxa", "taxa_grp"), (None, None), ("taxa", None), (None, "taxa_grp"), ("taxa", "taxa_grp"), (None, None)][h]
                c2 = {"id": len(out) + 1, "cls": clsname, "qual": cls.to_pandas.__qualname__, "op": "construct",
                      "form": "to_pandas(unscale=True,taxa_col=%s,taxa_grp_col=%s)->from_pandas" % (tc, gc),
                      "mut": False, "ix": [], "del": [], "pos": [], "blk": [], "pre": ids0, "err": None, "tab": TABLE}
                try:
                    df2 = cur.to_pandas(taxa_col=tc, taxa_grp_col=gc, unscale=True)
                    if tc is None:
                        df2.insert(0, "taxa", list(cur.taxa))
                    if gc is None and cur.taxa_grp is not None:
                        df2.insert(1, "taxa_grp", list(cur.taxa_grp))
                    c2["post"] = project(cls.from_pandas(df2, taxa_grp_col="taxa_grp" if cur.taxa_grp is not None else None))
                except Exception as e:
                    c2["err"] = "%s: %s" % (type(e).__name__, str(e)[:200]); c2["post"] = project(cur)
                out.append(c2)
            # truncation in place: the worst (or best) taxa for the first trait are removed from the matrix itself, down to one half
            # and down to a single taxon (all retained values then lie on one side of the former mean)
            pre_t = project(cur)
            if len(pre_t["ids"]) >= 2 and -1 not in pre_t["ids"]:
                order = sorted(range(len(pre_t["ids"])), key=lambda k_: TABLE["y"][pre_t["ids"][k_]][0])
                for keep in (1, max(1, len(order) // 2)):
                    for dele in (order[:len(order) - keep], order[keep:]):
                        if not dele or len(dele) == len(order):
                            continue
                        for form in ("specific", "generic+"):
                            work = copy.deepcopy(cur); work.unscale(); project(work)
                            c1 = {"id": len(out) + 1, "cls": clsname, "qual": getattr(cls, "remove_taxa" if form == "specific" else "remove").__qualname__,
                                  "op": "delete", "form": form, "mut": True, "ix": [], "del": sorted(dele), "pos": [], "blk": [], "raw": False,
                                  "pre": pre_t["ids"], "err": None, "tab": TABLE, "objrepr": "truncation"}
                            try:
                                res = execute(work, cls, "delete", {"obj": np.array(sorted(dele)), "del": sorted(dele)}, form, True, with_grp)
                                c1["post"] = project(res)
                            except Exception as e:
                                c1["err"] = "%s: %s" % (type(e).__name__, str(e)[:200]); c1["post"] = pre_t
                            pi = c1["post"]["ids"]
                            if not (pi and all(i == -1 or TABLE["miss"][i][3] for i in pi)):
                                out.append(c1)
            for step in range(12 if thorough else 9):
                pre = project(cur)
                if -1 in pre["ids"] or not pre["ids"]:
                    break
                n = len(pre["ids"])
                op = rng.choice(ops)
                if op in ("sort", "group") and not with_grp and op == "group":
                    continue
                if n > 7 and op in ("insert", "adjoin", "concat"):
                    op = "delete"
                args = pick_args(op, n, rng)
                if args is None:
                    continue
                if args.get("raw"):
                    args["rawdtype"] = rng.choice([None, "int64", "int32", "float32"])
                results = []
                for form in ("specific", rng.choice(["generic+", "generic-"])):
                    for mut in ([False, True] if op in lm.MUT else [op in ("reorder", "sort", "group")]):
                        work = copy.deepcopy(cur)
                        mname = (lm.MUT.get(op, op) if mut else op) + ("_taxa" if form == "specific" else "")
                        c = {"id": len(out) + 1, "cls": clsname, "qual": getattr(cls, mname).__qualname__, "op": op, "form": form,
                             "mut": bool(mut), "ix": args.get("ix", []), "del": args.get("del", []), "pos": args.get("pos", []),
                             "blk": args.get("blk", [x for b in args.get("blks", []) for x in b]), "raw": bool(args.get("raw", False)),
                             "pre": pre["ids"], "err": None, "tab": TABLE, "objrepr": args.get("objrepr", "")}
                        try:
                            with time_limit(20):
                                if rng.random() < 0.75:
                                    # the object has been QUERIED before it is edited (raw values, summaries): whatever it
                                    # memoised then must not survive an in-place edit
                                    work.unscale(); project(work)
                                res = execute(work, cls, op, args, form, mut, with_grp)
                            c["post"] = project(res)
                            if not (mut and op in lm.MUT):     # results of append/remove/incorp are validated but not continued from
                                results.append(res)
                        except Exception as e:
                            c["err"] = "%s: %s" % (type(e).__name__, str(e)[:200]); c["post"] = pre
                        # skip axes where the NaN trait has no value at all
                        pi = c["post"]["ids"]
                        if pi and all(i == -1 or TABLE["miss"][i][3] for i in pi):
                            continue
                        out.append(c)
                good = [x for x in results if -1 not in project(x)["ids"] and not all(TABLE["miss"][i][3] for i in project(x)["ids"])]
                if good:
                    cur = good[rng.randrange(len(good))]
    verd = cases.validate(ctx, "ScaledBV_Trace", "ScaledBV_Trace.cfg", out, "ScaledBV_Trace", chunk=150, procs=14)
    ctx.traces += len(out)
    for c in out:
        v, tr = verd[c["id"]]
        ctx.count(1, (c["cls"], c["op"], repr(c["ix"]), repr(c["del"]), repr(c["pos"]), repr(c["blk"]), repr(c["pre"]))
                  if c["pre"] != c["post"]["ids"] else None)
        if v != "ok":
            key = "%s:%s" % (c["qual"], v)
            if v == "exception-on-valid-arguments":
                key += ":" + (c["err"] or "").split(":")[0]
            ctx.violation(key, "TLC verdict %s on %s (form=%s mut=%s trait=%s)%s" % (
                v, c["cls"], c["form"], c["mut"], tr, " -- " + c["err"] if c["err"] else ""),
                {k: c[k] for k in c if k != "tab"})
    for c in out:
        if c["op"] == "adjoin" and verd[c["id"]][0] == "ok":
            ctx.sample({k: c[k] for k in ("cls", "op", "form", "mut", "blk", "pre")} | {"post_ids": c["post"]["ids"],
                       "post_unscale": c["post"]["un"], "locm": c["post"]["locm"], "varmm": c["post"]["varmm"]}); break
