"""C10 selection limits along closed breeding histories (spec/SelLimits*.tla)."""
import importlib, random
import numpy as np
from .. import tlc, cases
from .c01 import PROTOS
from ..core import Unchanged

TOL = 1e-6


def ints(x):
    v = np.asarray(x, dtype=float).ravel()
    r = np.rint(v)
    ok = bool(np.all(np.isfinite(v)) and np.all(np.abs(v - r) <= TOL * np.maximum(1.0, np.abs(v))))
    return [int(t) for t in np.where(np.isfinite(r), r, 0)], ok


def founder(n, L, rng, nrng):
    from pybrops.popgen.gmat.DensePhasedGenotypeMatrix import DensePhasedGenotypeMatrix
    freq = np.array([rng.choice([0.0, 1.0, 0.05, 0.5, 0.9, 0.3]) for _ in range(L)])
    mat = (nrng.random((2, n, L)) < freq[None, None, :]).astype("int8")
    # boundary loci: exactly one copy of an allele left (frequency 1/(2n) resp. 1 - 1/(2n))
    for j in range(L):
        r = rng.random()
        if r < 0.15:
            mat[:, :, j] = 0; mat[rng.randrange(2), rng.randrange(n), j] = 1
        elif r < 0.30:
            mat[:, :, j] = 1; mat[rng.randrange(2), rng.randrange(n), j] = 0
    # memory layout of the founders' matrix: as built, Fortran-ordered, or the transposed view a marker-major reader (VCF) produces
    lay = rng.randrange(3)
    if lay == 1:
        mat = np.asfortranarray(mat)
    elif lay == 2:
        mat = np.ascontiguousarray(mat.transpose(2, 1, 0)).transpose(2, 1, 0)
    nchr = 2 if L >= 4 else 1
    chrgrp = np.array([1 + (j * nchr) // L for j in range(L)], dtype="int64")
    xo = np.array([0.5 if (j == 0 or chrgrp[j] != chrgrp[j - 1]) else rng.choice([0.0, 0.1, 0.3, 0.5]) for j in range(L)])
    pg = DensePhasedGenotypeMatrix(
        mat=mat, taxa=np.array(["f%04d" % i for i in range(n)], dtype=object),
        taxa_grp=np.zeros(n, dtype="int64"), vrnt_chrgrp=chrgrp,
        vrnt_phypos=np.arange(1, L + 1, dtype="int64"), vrnt_name=np.array(["m%d" % j for j in range(L)], dtype=object),
        vrnt_genpos=np.linspace(0, 1, L), vrnt_xoprob=xo)
    pg.group_vrnt()
    return pg


def observe(model, pop, src):
    n = pop.ntaxa
    mat = np.asarray(pop.mat)
    a = (mat[0].astype(int) + mat[1].astype(int)).sum(0)
    if src == "unphased":
        # the unphased projection of the population, as a genotyping protocol hands it on
        from pybrops.breed.prot.gt.DenseUnphasedGenotyping import DenseUnphasedGenotyping
        arg = DenseUnphasedGenotyping().genotype(pop)
        # the matrix has been QUERIED before (codings, frequencies): queries leave it as it was
        arg.mat_asformat("{-1,0,1}"); arg.mat_asformat("{0,1,2}"); arg.afreq(); arg.maf()
    else:
        arg = pop if src == "matrix" else (mat[0] + mat[1]).astype("int8")
    lat = True
    out = {"n": int(n), "a": [int(x) for x in a], "src": src}
    guard = Unchanged(model=model, population=pop)
    for key, fn, un in (("usl0", model.usl, False), ("lsl0", model.lsl, False), ("usl1", model.usl, True), ("lsl1", model.lsl, True)):
        v, ok = ints(fn(arg, unscale=un) if src != "array" else fn(arg, ploidy=2, unscale=un))
        out[key] = v; lat = lat and ok
    g = np.asarray(model.gebv(pop).unscale(), dtype=float)
    gmin, ok1 = ints(g.min(0)); gmax, ok2 = ints(g.max(0))
    out["gmin"] = gmin; out["gmax"] = gmax; out["lat"] = bool(lat and ok1 and ok2)
    out["argsame"] = guard.changed()
    return out


def poly_history(hid, rng, large=None):
    """a closed history WITHOUT mating on an unphased matrix of another ploidy (dosages 0..P): the founder population and two
    nested sub-populations taken with select_taxa / select (selection only: limits tighten, lost alleles stay lost)"""
    from pybrops.model.gmod.DenseAdditiveLinearGenomicModel import DenseAdditiveLinearGenomicModel
    from pybrops.popgen.gmat.DenseGenotypeMatrix import DenseGenotypeMatrix
    L = rng.choice([3, 5, 8]); T = rng.choice([1, 2]); P = rng.choice([4, 4, 1, 3, 6])
    u = np.array([[rng.choice([-3, -2, -1, 0, 1, 2, 3]) for _ in range(T)] for _ in range(L)], dtype=float)
    beta = np.array([[rng.choice([0, 5, -7])] * T], dtype=float)
    model = DenseAdditiveLinearGenomicModel(beta=beta, u_misc=None, u_a=u, trait=np.array(["t%d" % t for t in range(T)], dtype=object))
    n = rng.choice([3, 5, 8, 40])
    Z = np.array([[rng.randrange(P + 1) for _ in range(L)] for _ in range(n)], dtype="int8")
    for l in range(L):
        r = rng.random()
        if r < 0.2:
            Z[:, l] = P
        elif r < 0.35:
            Z[:, l] = 0
        elif r < 0.5:
            Z[:, l] = P // 2 if P > 1 else rng.randrange(2)       # every individual carries half of its copies
    if large:
        # a very large population in which an allele survives in ONE individual (as one copy): the locus is not fixed, the carrier's
        # value lies inside the limits, and once the carrier and a few others are selected the limits do not widen
        n = large; P = 2; L = max(L, 4)
        if u.shape[0] < L:
            u = np.vstack([u, np.array([[rng.choice([-2, 1, 3]) for _ in range(T)] for _ in range(L - u.shape[0])], dtype=float)])
            model = DenseAdditiveLinearGenomicModel(beta=beta, u_misc=None, u_a=u, trait=np.array(["t%d" % t for t in range(T)], dtype=object))
        for l in range(L):
            if u[l].any() == False:
                u[l, 0] = rng.choice([-2, 2])
        nrs = np.random.RandomState(rng.randrange(2 ** 31))
        Z = nrs.randint(0, 3, size=(n, L)).astype("int8")
        Z[:, 0] = 2; Z[rng.randrange(n), 0] = 1           # the other allele survives as a single copy
        Z[:, 1] = 0; Z[rng.randrange(n), 1] = 1           # the allele itself is present as a single copy
        Z[:, 2] = rng.choice([0, 2])                       # fixed
    pop = DenseGenotypeMatrix(Z, taxa=np.array(["x%03d" % i for i in range(n)], dtype=object), taxa_grp=np.zeros(n, dtype="int64"), ploidy=P)
    gens = []
    for step in range(3):
        m = np.asarray(pop.mat).astype(int)
        out = {"n": int(pop.ntaxa), "a": [int(x) for x in m.sum(0)], "src": "unphased-ploidy-%d%s" % (P, "" if step == 0 else "-selected"), "pl": P}
        lat = True
        for key, fn, un in (("usl0", model.usl, False), ("lsl0", model.lsl, False), ("usl1", model.usl, True), ("lsl1", model.lsl, True)):
            v, ok = ints(fn(pop, unscale=un)); out[key] = v; lat = lat and ok
        g = np.asarray(model.gebv(pop).unscale(), dtype=float)
        gmin, ok1 = ints(g.min(0)); gmax, ok2 = ints(g.max(0))
        out["gmin"] = gmin; out["gmax"] = gmax; out["lat"] = bool(lat and ok1 and ok2)
        gens.append(out)
        if pop.ntaxa < 2:
            break
        k = rng.randrange(1, pop.ntaxa)
        ix = np.array(sorted(rng.sample(range(pop.ntaxa), k)))
        if large and step == 0:
            carriers = sorted(set(int(x) for x in np.flatnonzero((np.asarray(pop.mat)[:, 0] == 1) | (np.asarray(pop.mat)[:, 1] == 1))))
            ix = np.array(sorted(set(carriers + rng.sample(range(pop.ntaxa), 4))))
        pop = pop.select_taxa(ix) if step == 0 else pop.select(ix, axis=pop.taxa_axis)
    return {"id": hid, "u": u.astype(int).tolist(), "beta": [int(x) for x in beta[0]], "nfixed": 1, "gens": gens}


def history(hid, rng):
    from pybrops.model.gmod.DenseAdditiveLinearGenomicModel import DenseAdditiveLinearGenomicModel
    nrng = np.random.default_rng(rng.randrange(2 ** 32))
    L = rng.choice([3, 5, 8, 12]); T = rng.choice([1, 2, 3])
    u = np.array([[rng.choice([-3, -2, -1, 0, 0, 1, 2, 3]) for _ in range(T)] for _ in range(L)], dtype=float)
    # q fixed effects: the breeding value carries beta[0] + (beta[1] + ... + beta[q-1]) / q (covariates averaged); the other
    # rows are multiples of q so that this intercept bstar is an integer
    q = rng.choice([1, 1, 2, 3])
    beta = np.array([[rng.choice([0, 5, -7, 100]) for _ in range(T)]] +
                    [[q * rng.choice([-2, 0, 1, 3]) for _ in range(T)] for _ in range(q - 1)], dtype=float)
    bstar = beta[0] + (beta[1:].sum(0) / q if q > 1 else 0.0)
    um = None if rng.random() < 0.6 else np.array([[rng.randrange(-9, 10) for _ in range(T)] for _ in range(rng.randrange(1, 4))], dtype=float)
    model = DenseAdditiveLinearGenomicModel(beta=beta, u_misc=um, u_a=u,
                                            trait=np.array(["t%d" % t for t in range(T)], dtype=object))
    sizes = [2, 3, 4, 7, 12, 49, 98, 103, 107, 161, 250]
    n0 = rng.choice(sizes)
    pop = founder(n0, L, rng, nrng)
    gens = [observe(model, pop, rng.choice(["matrix", "array", "unphased"]))]
    ngen = rng.choice([4, 6, 8, 12])
    for g in range(ngen):
        pkey = rng.choice(list(PROTOS))
        cls_name, npar = PROTOS[pkey]
        cls = getattr(importlib.import_module("pybrops.breed.prot.mate." + cls_name), cls_name)
        n = pop.ntaxa
        # selection: truncation on trait 0 / random / very strong (drives fixation)
        k = max(1, min(n, rng.choice([1, 2, 2, 3, 5, n])))
        if rng.random() < 0.5:
            gv = np.asarray(model.gebv(pop).unscale())[:, 0]
            cand = list(np.argsort(-gv)[:k])
        else:
            cand = rng.sample(range(n), k)
        target = rng.choice(sizes)
        ncross = rng.choice([1, 2, 3])
        per = max(1, target // ncross)
        xconfig = np.array([[rng.choice(cand) for _ in range(npar)] for _ in range(ncross)], dtype="int64")
        nm, npg = (1, per) if rng.random() < 0.5 else (per, 1)
        prot = cls(rng=nrng if rng.random() < 0.5 else np.random.RandomState(rng.randrange(2 ** 32)))
        prog = prot.mate(pop, xconfig, nm, npg, nself=rng.choice([0, 0, 1, 2]))
        if rng.random() < 0.4 and pop.ntaxa + prog.ntaxa <= 300:
            # the programme keeps ONE population object and edits it in place: the cohort joins (overlapping
            # generations), the limits are queried, then the parents are culled
            nold = pop.ntaxa
            pop.append_taxa(prog.mat, taxa=prog.taxa, taxa_grp=prog.taxa_grp)
            gens.append(observe(model, pop, "matrix"))
            pop.remove_taxa(np.arange(nold))
            gens.append(observe(model, pop, "matrix"))
        else:
            pop = prog
            gens.append(observe(model, pop, rng.choice(["matrix", "array", "unphased"])))
    return {"id": hid, "u": u.astype(int).tolist(), "beta": [int(x) for x in bstar], "nfixed": q, "gens": gens}


def run(ctx):
    rng = random.Random(ctx.seed)
    thorough = ctx.tier == "thorough"
    ctx.rule = ("TLC explores every step between populations (<=2 resp. 3 individuals, 2 loci, effects in {-1,0,1}) reachable "
                "by Mendelian transmission and checks bracket, fixed-population equality and the three monotonicity action "
                "properties; closed breeding programmes run on the real code (all seven protocols, real generators, sizes "
                "incl. 49/98/103/107, selection driving loci to fixation, usl/lsl on matrices and raw arrays) are validated "
                "generation by generation by TLC; non-trivial history: some locus becomes fixed during it; distinct by content")
    ctx.assume("integer effects and intercepts so that every reported value is an integer; residual <= 1e-6",
               "allele counts are projected from the raw genotype arrays by the harness")
    cfg = "SelLimits_MCT.cfg" if thorough else "SelLimits_MC.cfg"
    r = tlc.run("SelLimits_MC", cfg, coverage=True, timeout=3000)
    tlc.must_pass(r, cfg); ctx.add_tlc(r, cfg)
    if r.violated:
        ctx.violation("spec:SelLimits:" + r.violated, "TLC: %s violated" % r.violated, r.error)
    if r.coverage.get("Step", (0, 0))[1] == 0:
        raise tlc.TLCFailure("vacuous: Step never taken")
    allc = []
    for h in range(160 if thorough else 45):
        try:
            allc.append(history(h + 1, rng))
        except Exception as e:
            import traceback
            ctx.violation("closed-programme:exception", "%s: %s" % (type(e).__name__, e), traceback.format_exc()[-1500:])
    for _ in range(36 if thorough else 12):
        try:
            allc.append(poly_history(len(allc) + 1, rng))
        except Exception as e:
            ctx.violation("polyploid-selection-history:exception", "%s: %s" % (type(e).__name__, e), {})
    for big in ((60000, 150000) if thorough else (rng.choice([60000, 120000]),)):
        try:
            allc.append(poly_history(len(allc) + 1, rng, large=big))
        except Exception as e:
            ctx.violation("large-population-selection-history:exception", "%s: %s" % (type(e).__name__, e), {})
    verd = cases.validate(ctx, "SelLimits_Trace", "SelLimits_Trace.cfg", allc, "SelLimits_Trace", chunk=4, procs=14)
    ctx.traces += len(allc)
    for c in allc:
        for k_, g_ in enumerate(c["gens"]):
            if g_.get("argsame"):
                ctx.violation("DenseAdditiveLinearGenomicModel.usl/lsl/gebv:arguments-modified:" + ",".join(g_["argsame"]),
                              "querying the limits / breeding values modified %s (generation %d)" % (g_["argsame"], k_), {"n": g_["n"], "src": g_["src"]})
        v, k = verd[c["id"]]
        fixed_during = any(any(x in (0, 2 * g["n"]) for x in g["a"]) for g in c["gens"][1:])
        ctx.count(1, repr(c["gens"]) if fixed_during else None)
        if v != "ok":
            g = c["gens"][k - 1]
            ctx.violation("DenseAdditiveLinearGenomicModel.usl/lsl:%s" % v,
                          "TLC verdict %s at generation %d (n=%d, src=%s)" % (v, k - 1, g["n"], g["src"]),
                          {"u": c["u"], "beta": c["beta"], "generation": g, "next": c["gens"][k] if k < len(c["gens"]) else None})
    ctx.sample({"u": allc[0]["u"], "beta": allc[0]["beta"], "gens_head": allc[0]["gens"][:3], "verdict": verd[allc[0]["id"]]})
