"""C05 selection objectives in every decision encoding (spec/SelObjective*.tla)."""
import importlib, random
from fractions import Fraction
import numpy as np
from .. import tlc, cases
from ..core import time_limit

LIM = 100000
P = "pybrops.breed.prot.sel.prob."
ENC = ["Subset", "Integer", "Binary", "Real"]


def rat(x, ok):
    x = float(x)
    if not np.isfinite(x):
        ok[0] = False
        return [0, 1]
    f = Fraction(x).limit_denominator(LIM)
    if abs(float(f) - x) > 1e-9 * max(1.0, abs(x)):
        ok[0] = False
    return [f.numerator, f.denominator]


def get(mod, name):
    return getattr(importlib.import_module(P + mod), name)


def space(enc, n, k):
    if enc == "Subset":
        return dict(ndecn=k, decn_space=np.arange(n), decn_space_lower=np.repeat(0, k), decn_space_upper=np.repeat(n - 1, k))
    lo = np.repeat(0.0 if enc == "Real" else 0, n)
    up = np.repeat({"Real": 10.0, "Integer": 10, "Binary": 1}[enc], n)
    return dict(ndecn=n, decn_space=np.stack([lo, up]), decn_space_lower=lo, decn_space_upper=up)


def decisions(c, rng):
    """the four views of the contribution vector c"""
    listing = [i for i, m in enumerate(c) for _ in range(m)]
    l2 = list(listing); rng.shuffle(l2)
    out = [("integer", "Integer", np.array(c, dtype=int))]
    if max(c) <= 1:        # a subset decision has distinct members: the subset and binary views exist for 0/1 contributions
        out += [("subset", "Subset", np.array(listing)), ("subset", "Subset", np.array(l2)), ("binary", "Binary", np.array(c, dtype=int))]
    out.append(("real", "Real", 0.5 * np.array(c, dtype=float))); out.append(("real", "Real", 3.0 * np.array(c, dtype=float)))
    return out


FAMILIES = {
    # name: (module, stem, suffix, data-kind)
    "ebv": ("EstimatedBreedingValueSelectionProblem", "EstimatedBreedingValue", "SelectionProblem", "lin"),
    "gebv": ("GenomicEstimatedBreedingValueSelectionProblem", "GenomicEstimatedBreedingValue", "SelectionProblem", "lin"),
    "wgebv": ("WeightedGenomicSelectionProblem", "WeightedGenomic", "SelectionProblem", "lin"),
    "gwgebv": ("GeneralizedWeightedGenomicEstimatedBreedingValueSelectionProblem", "GeneralizedWeightedGenomicEstimatedBreedingValue", "SelectionProblem", "lin"),
    "random": ("RandomSelectionProblem", "Random", "SelectionProblem", "lin"),
    "embv": ("ExpectedMaximumBreedingValueSelectionProblem", "ExpectedMaximumBreedingValue", "SelectionProblem", "lin"),
    "ohv": ("OptimalHaploidValueSelectionProblem", "OptimalHaploidValue", "SelectionProblem", "lin"),
    "uc": ("UsefulnessCriterionSelectionProblem", "UsefulnessCriterion", "MateSelectionProblem", "lin"),
    "family": ("FamilyEstimatedBreedingValueSelectionProblem", "FamilyEstimatedBreedingValue", "SelectionProblem", "family"),
    "ocs": ("OptimalContributionSelectionProblem", "OptimalContribution", "SelectionProblem", "ocs"),
    "mgr": ("MeanGenomicRelationshipSelectionProblem", "MeanGenomicRelationship", "SelectionProblem", "quad"),
    "meh": ("MeanExpectedHeterozygositySelectionProblem", "MeanExpectedHeterozygosity", "SelectionProblem", "quad"),
    "l2": ("L2NormGenomicSelectionProblem", "L2NormGenomic", "SelectionProblem", "l2"),
    "l1": ("L1NormGenomicSelectionProblem", "L1NormGenomic", "SelectionProblem", "l1"),
}
DATAKW = {"ebv": "ebv", "gebv": "gebv", "wgebv": "wgebv", "gwgebv": "gwgebv", "random": "rbv", "embv": "embv", "ohv": "ohvmat", "uc": "ucmat"}


def one_case(cid, fam, rng, ksel=None):
    mod, stem, suffix, kind = FAMILIES[fam]
    n = rng.randrange(2, 8); T = rng.randrange(1, 3)
    c = [rng.choice([0, 0, 1, 1, 2, 3]) for _ in range(n)]
    if rng.random() < 0.5:
        c = [1 if rng.random() < 0.65 else 0 for _ in range(n)]
    if sum(c) == 0:
        c[rng.randrange(n)] = 1
    if ksel is not None:              # systematic: exactly ksel selected candidates (every subset size is met by every family)
        n = max(n, ksel + rng.randrange(0, 2)); n = min(n, 7) if ksel <= 7 else ksel
        c = [1] * ksel + [0] * (n - ksel); rng.shuffle(c)
    k = sum(c)
    case = {"id": cid, "fam": kind, "family": fam, "c": c, "err": None, "obs": [], "dataok": True}
    d = np.array([[rng.randrange(-4, 6) for _ in range(T)] for _ in range(n)], dtype=float)
    kw = {}
    nlat = T
    if kind in ("lin",):
        case["d"] = d.astype(int).tolist(); kw[DATAKW[fam]] = d
        if fam in ("embv", "ohv", "uc"):
            kw["decn_space_xmap"] = np.array([[i, (i + 1) % n] for i in range(n)])
    elif kind == "family":
        famid = np.array([rng.randrange(3) for _ in range(n)])
        uniq = sorted(set(famid.tolist()))
        case["d"] = d.astype(int).tolist(); case["fam_of"] = [uniq.index(x) for x in famid.tolist()]; case["nf"] = len(uniq)
        kw["ebv"] = d; kw["familyid"] = famid * 10 + 7
        nlat = T + len(uniq)
    elif kind in ("quad", "ocs"):
        C = np.triu(np.array([[rng.randrange(-2, 4) for _ in range(n)] for _ in range(n)], dtype=float))
        case["K"] = (C.T @ C).astype(int).tolist(); kw["C"] = C
        nlat = 1
        if kind == "ocs":
            case["d"] = d.astype(int).tolist(); kw["ebv"] = d; nlat = 1 + T
    elif kind == "l2":
        C = np.array([np.triu(np.array([[rng.randrange(-2, 4) for _ in range(n)] for _ in range(n)], dtype=float)) for _ in range(T)])
        case["Ks"] = [(C[t].T @ C[t]).astype(int).tolist() for t in range(T)]; kw["C"] = C
    elif kind == "l1":
        L = rng.randrange(1, 4)
        V = np.array([[[rng.randrange(-3, 4) for _ in range(n)] for _ in range(L)] for _ in range(T)], dtype=float)
        case["Vs"] = V.astype(int).tolist(); kw["V"] = V
    ok = [True]

    def tr(vals):
        v = np.asarray(vals, dtype=float).ravel()
        if kind == "quad":
            v = np.array([(v[0] + (1.0 if fam == "meh" else 0.0)) ** 2])
            if fam == "meh" and vals[0] + 1.0 < -1e-12:
                ok[0] = False
        elif kind == "ocs":
            v = np.concatenate([[v[0] ** 2], v[1:]])
        elif kind == "l2":
            v = v ** 2
        return [rat(x, ok) for x in v]
    try:
        with time_limit(60), np.errstate(all="ignore"):
            for encname, enc, x in decisions(c, rng):
                cls = get(mod, stem + enc + suffix)
                fkeys = [key for key, v in kw.items() if isinstance(v, np.ndarray) and v.dtype.kind == "f" and key != "decn_space_xmap"]
                if rng.random() < 0.3 and fkeys and all(isinstance(getattr(cls, key, None), property) and getattr(cls, key).fset for key in fkeys):
                    # use-then-edit: the problem is built on OTHER data and evaluated (whatever it memoises is filled); its
                    # data arrays are then replaced through the public setters, or overwritten in place
                    kw0 = {key: ((np.triu(v + 1.0) if key == "C" else np.array(v, copy=True) + 1.0)
                                 if isinstance(v, np.ndarray) and v.dtype.kind == "f" and key != "decn_space_xmap" else v)
                           for key, v in kw.items()}
                    prob = cls(nobj=nlat, **kw0, **space(enc, n, k))
                    prob.latentfn(x); prob.evalfn(x)
                    for key, v in kw.items():
                        if isinstance(v, np.ndarray) and v.dtype.kind == "f" and key != "decn_space_xmap":
                            cur = getattr(prob, key)
                            if rng.random() < 0.5 and isinstance(cur, np.ndarray) and cur.shape == v.shape:
                                cur[...] = v
                            else:
                                setattr(prob, key, np.array(v, copy=True))
                    case["edited"] = True
                else:
                    prob = cls(nobj=nlat, **kw, **space(enc, n, k))
                case["obs"].append({"enc": encname, "vals": tr(prob.latentfn(x)), "trans": "identity", "wobj": [1] * nlat, "lw": [1] * nlat})
                # evaluate(): the reported objectives with default weights/transformations are the latent vector
                if kind == "lin" and encname in ("subset", "integer"):
                    from pybrops.breed.prot.sel.prob.trans import trans_sum, trans_dot, trans_identity
                    def trans_sq(decnvec, latentvec, **kwargs):        # a non-linear transformation
                        return (latentvec ** 2).sum(0, keepdims=True)
                    choice = rng.choice(["identity", "sum", "dot", "sq"])
                    wobj = [rng.choice([-1, 0, 1, 2]) for _ in range(nlat if choice == "identity" else 1)]
                    lw = [rng.randrange(-2, 3) for _ in range(nlat)]
                    # argument forms of the weights: an array, or one scalar for all components (a float, an int, zero included)
                    def form(ws):
                        if len(set(ws)) == 1 and rng.random() < 0.6:
                            return rng.choice([float(ws[0]), int(ws[0])])
                        return np.array(ws, dtype=float)
                    if rng.random() < 0.4:
                        wobj = [rng.choice([0, 0, 1, -2])] * len(wobj)
                    wi = [rng.choice([2, 2, 0, 1])]; we = [rng.choice([-1, -1, 0, 3])]
                    okw = dict(nobj=len(wobj), obj_wt=form(wobj),
                               obj_trans={"identity": trans_identity, "sum": trans_sum, "dot": trans_dot, "sq": trans_sq}[choice],
                               obj_trans_kwargs={"latentvec_wt": np.array(lw, dtype=float)} if choice == "dot" else None,
                               nineqcv=1, ineqcv_wt=form(wi), ineqcv_trans=trans_sum, ineqcv_trans_kwargs=None,
                               neqcv=1, eqcv_wt=form(we), eqcv_trans=trans_dot, eqcv_trans_kwargs={"latentvec_wt": np.array(lw, dtype=float)})
                    p2 = cls(**okw, **kw, **space(enc, n, k))
                    obj, ineq, eq = p2.evalfn(x)
                    case["obs"].append({"enc": "evalfn", "vals": [rat(v, ok) for v in np.asarray(obj).ravel()], "trans": choice, "wobj": wobj, "lw": lw})
                    case["obs"].append({"enc": "evalfn", "vals": [rat(v, ok) for v in np.asarray(ineq).ravel()], "trans": "sum", "wobj": wi, "lw": lw})
                    case["obs"].append({"enc": "evalfn", "vals": [rat(v, ok) for v in np.asarray(eq).ravel()], "trans": "dot", "wobj": we, "lw": lw})
        case["lat"] = ok[0]
    except Exception as e:
        case["err"] = "%s: %s" % (type(e).__name__, str(e)[:200])
    case.setdefault("lat", False)
    return case


FREQ_CLASSES = {
    "pafd": ("PopulationAlleleFrequencyDistanceSelectionProblem", "PopulationAlleleFrequencyDistanceSubsetSelectionProblem"),
    "pau": ("PopulationAlleleUnavailabilitySelectionProblem", "PopulationAlleleUnavailabilitySubsetSelectionProblem"),
    "mogs": ("MultiObjectiveGenomicSelectionProblem", "MultiObjectiveGenomicSubsetSelectionProblem"),
}


def pafd_case(cid, rng, kind="pafd", ksel=None):
    """allele-frequency criteria: distance to a target frequency, allele unavailability, and both (MOGS)."""
    cls = get(*FREQ_CLASSES[kind])
    pl = 2 if kind == "pafd" else rng.choice([2, 2, 4])
    n = rng.randrange(2, 6); L = rng.randrange(1, 5); T = rng.randrange(1, 3)
    c = [rng.choice([0, 1, 1]) for _ in range(n)]
    if sum(c) == 0:
        c[0] = 1
    if ksel:                     # a selection of many candidates out of a few more
        n = ksel + rng.randrange(0, 4); L = 3
        c = [1] * ksel + [0] * (n - ksel); rng.shuffle(c)
    k = sum(c)
    g = np.array([[rng.randrange(pl + 1) for _ in range(L)] for _ in range(n)], dtype="int8")
    if kind != "pafd":
        for l in range(L):       # loci fixed one way or the other in the whole population, or in the selected set only
            how = rng.randrange(5)
            if how == 0: g[:, l] = 0
            elif how == 1: g[:, l] = pl
            elif how == 2: g[[i for i in range(n) if c[i]], l] = rng.choice([0, pl])
    w = np.array([[rng.randrange(0, 3) for _ in range(T)] for _ in range(L)], dtype=float)
    tn = np.array([[rng.choice([0, 0, 1, 2, 3, 4, 4]) if kind != "pafd" else rng.randrange(0, 5) for _ in range(T)] for _ in range(L)])
    nlat = 2 * T if kind == "mogs" else T
    case = {"id": cid, "fam": kind, "family": kind, "c": c, "g": g.astype(int).tolist(), "pl": pl, "w": w.T.astype(int).tolist(),
            "tn": tn.T.tolist(), "td": 4, "err": None, "obs": [], "dataok": True}
    ok = [True]
    try:
        with np.errstate(all="ignore"):
            reconf = kind != "pafd" and rng.random() < 0.4
            first = np.full(tn.shape, 0.5) if reconf else tn / 4.0
            prob = cls(geno=g, ploidy=pl, mkrwt=w, tfreq=first, nobj=nlat, **space("Subset", n, k))
            if reconf:
                prob.tfreq = tn / 4.0            # the target revised through its setter
                case["edited"] = "tfreq"
            for _ in range(2):
                listing = [i for i, m in enumerate(c) for _ in range(m)]; rng.shuffle(listing)
                case["obs"].append({"enc": "subset", "vals": [rat(v, ok) for v in np.asarray(prob.latentfn(np.array(listing))).ravel()],
                                    "trans": "identity", "wobj": [1] * nlat, "lw": [1] * nlat})
        case["lat"] = ok[0]
    except Exception as e:
        case["err"] = "%s: %s" % (type(e).__name__, str(e)[:200])
    case.setdefault("lat", False)
    return case


def factory_case(cid, which, rng):
    """problems built from populations hold the population's data in taxon order"""
    from pybrops.popgen.gmat.DenseGenotypeMatrix import DenseGenotypeMatrix
    from pybrops.popgen.bvmat.DenseBreedingValueMatrix import DenseBreedingValueMatrix
    from pybrops.model.gmod.DenseAdditiveLinearGenomicModel import DenseAdditiveLinearGenomicModel
    from pybrops.popgen.cmat.fcty.DenseMolecularCoancestryMatrixFactory import DenseMolecularCoancestryMatrixFactory
    n = rng.randrange(3, 7); p = rng.randrange(6, 12); T = rng.randrange(1, 3)
    Z = np.array([[rng.randrange(3) for _ in range(p)] for _ in range(n)], dtype="int8")
    names = ["q%02d" % x for x in rng.sample(range(40), n)]           # unsorted names
    gm = DenseGenotypeMatrix(Z, taxa=np.array(names, dtype=object), taxa_grp=np.arange(n)[::-1].astype("int64").copy(), ploidy=2)
    u = np.array([[rng.choice([-2, -1, 1, 2]) for _ in range(T)] for _ in range(p)], dtype=float)
    model = DenseAdditiveLinearGenomicModel(beta=np.array([[1.0] * T]), u_misc=None, u_a=u, trait=np.array(["t%d" % t for t in range(T)], dtype=object))
    raw = np.array([[rng.randrange(-5, 9) for _ in range(T)] for _ in range(n)], dtype=float)
    bv = DenseBreedingValueMatrix.from_numpy(raw, taxa=np.array(names, dtype=object), taxa_grp=None, trait=np.array(["t%d" % t for t in range(T)], dtype=object))
    c = [1] * n
    case = {"id": cid, "fam": "lin", "family": "factory:" + which, "c": c, "d": raw.astype(int).tolist(), "err": None, "obs": [], "lat": True, "dataok": True}
    sp = space("Subset", n, n)
    try:
        with np.errstate(all="ignore"):
            if which == "ebv.from_bvmat":
                cls = get("EstimatedBreedingValueSelectionProblem", "EstimatedBreedingValueSubsetSelectionProblem")
                pr = cls.from_bvmat(bv, True, nobj=T, **sp)
                case["dataok"] = bool(np.allclose(pr.ebv, raw, atol=1e-9))
                pr2 = cls.from_bvmat(bv, False, nobj=T, **sp)
                case["dataok"] = case["dataok"] and bool(np.allclose(pr2.ebv, bv.mat, atol=1e-12))
            elif which == "gebv.from_gmat_gpmod":
                cls = get("GenomicEstimatedBreedingValueSelectionProblem", "GenomicEstimatedBreedingValueSubsetSelectionProblem")
                pr = cls.from_gmat_gpmod(gm, model, True, nobj=T, **sp)
                exp = Z.astype(float) @ u + 1.0
                case["d"] = exp.astype(int).tolist()
                case["dataok"] = bool(np.allclose(pr.gebv, exp, atol=1e-9))
                ok = [True]
                case["obs"].append({"enc": "subset", "vals": [rat(v, ok) for v in pr.latentfn(np.arange(n))], "trans": "identity", "wobj": [1] * T, "lw": [1] * T})
            elif which == "ocs.from_bvmat_gmat":
                cls = get("OptimalContributionSelectionProblem", "OptimalContributionSubsetSelectionProblem")
                pr = cls.from_bvmat_gmat(bv, gm, DenseMolecularCoancestryMatrixFactory(), True, nobj=1 + T, **sp)
                G = DenseMolecularCoancestryMatrixFactory().from_gmat(gm)
                K = 0.5 * np.asarray(G.mat)
                case["dataok"] = bool(np.allclose(pr.C.T @ pr.C, K, atol=1e-5)) and bool(np.allclose(pr.ebv, raw, atol=1e-9))
            elif which == "embv.from_pgmat_gpmod":
                # inbred lines, some of them identical: the simulated expected maximum of a cross lies between the worst and the
                # best doubled haploid the two parents can give, and equals the parental value where both parents are identical
                from pybrops.popgen.gmat.DensePhasedGenotypeMatrix import DensePhasedGenotypeMatrix
                from pybrops.breed.prot.mate.TwoWayDHCross import TwoWayDHCross
                cls = get("ExpectedMaximumBreedingValueSelectionProblem", "ExpectedMaximumBreedingValueSubsetSelectionProblem")
                H = np.array([[rng.randrange(2) for _ in range(p)] for _ in range(n)], dtype="int8")
                for k in range(1, n):
                    if rng.random() < 0.4:
                        H[k] = H[k - 1]
                pg = DensePhasedGenotypeMatrix(np.stack([H, H]), taxa=np.array(names, dtype=object), taxa_grp=np.zeros(n, dtype="int64"),
                                               vrnt_chrgrp=np.ones(p, dtype="int64"), vrnt_phypos=np.arange(1, p + 1, dtype="int64"),
                                               vrnt_genpos=np.linspace(0.0, 1.0, p), vrnt_xoprob=np.array([0.5] + [0.3] * (p - 1)))
                pg.group_vrnt()
                uniq = rng.random() < 0.5
                nx = len(cls._calc_xmap(n, 2, uniq))
                junk = [np.full((nx, T), 1e6 + k) for k in range(40)] + [np.full(sz, -7e5) for sz in (1, 2, 3, 4, 6, 8, 12, 16, 24, 32) for _ in range(8)]
                del junk                                     # uninitialised output rows would now show garbage, not zeros
                pr = cls.from_pgmat_gpmod(2, 1, rng.choice([2, 4]), rng.choice([1, 2, 3]), uniq, pg, model, TwoWayDHCross(rng=np.random.default_rng(rng.randrange(2 ** 31))),
                                          ndecn=2, decn_space=np.arange(nx), decn_space_lower=np.repeat(0, 2), decn_space_upper=np.repeat(nx - 1, 2), nobj=T)
                E = np.asarray(pr.embv, dtype=float); xm = np.asarray(pr.decn_space_xmap)
                okk = E.shape == (nx, T) and bool(np.all(np.isfinite(E)))
                for r_ in range(nx if okk else 0):
                    a, b = int(xm[r_][0]), int(xm[r_][1])
                    lo = 1.0 + 2.0 * np.minimum(H[a][:, None] * u, H[b][:, None] * u).sum(0)
                    hi = 1.0 + 2.0 * np.maximum(H[a][:, None] * u, H[b][:, None] * u).sum(0)
                    okk = okk and bool(np.all(E[r_] >= lo - 1e-9) and np.all(E[r_] <= hi + 1e-9))
                    if np.array_equal(H[a], H[b]):
                        okk = okk and bool(np.allclose(E[r_], 1.0 + 2.0 * (H[a][:, None] * u).sum(0), atol=1e-9))
                case["dataok"] = bool(okk)
            elif which == "embvmat.from_gmod":
                # the EMBV matrix of the candidates themselves (the data of the per-individual EMBV problems): for completely inbred
                # lines every doubled haploid is the line itself, so the expected maximum is the line's own breeding value -- for
                # any progeny and replicate numbers, scalar or given per taxon
                from pybrops.popgen.gmat.DensePhasedGenotypeMatrix import DensePhasedGenotypeMatrix
                from pybrops.model.embvmat.DenseExpectedMaximumBreedingValueMatrix import DenseExpectedMaximumBreedingValueMatrix as EMBV
                H = np.array([[rng.randrange(2) for _ in range(p)] for _ in range(n)], dtype="int8")
                pg = DensePhasedGenotypeMatrix(np.stack([H, H]), taxa=np.array(names, dtype=object), taxa_grp=np.zeros(n, dtype="int64"),
                                               vrnt_chrgrp=np.ones(p, dtype="int64"), vrnt_phypos=np.arange(1, p + 1, dtype="int64"),
                                               vrnt_genpos=np.linspace(0.0, 1.0, p), vrnt_xoprob=np.array([0.5] + [0.3] * (p - 1)))
                pg.group_vrnt()
                form = rng.randrange(3)
                nprog = rng.choice([1, 3]) if form == 0 else np.array([rng.randrange(1, 4) for _ in range(n)])
                nrp = rng.choice([1, 2]) if form < 2 else np.array([rng.choice([1, 2, 4, 5]) for _ in range(n)])
                junk = [np.full((5, T), 1e6 + k) for k in range(40)] + [np.full((k, T), -7e5) for k in (1, 2, 3, 4, 5) for _ in range(8)]
                del junk
                em = EMBV.from_gmod(model, pg, nprog, nrp)
                own = 1.0 + 2.0 * (H[:, :, None] * u[None, :, :]).sum(1)
                E = np.asarray(em.unscale() if hasattr(em, "unscale") else em.mat, dtype=float)
                case["dataok"] = E.shape == own.shape and bool(np.allclose(E, own, atol=1e-9)) and list(em.taxa) == list(names)
            elif which in ("uc2.from_pgmat_gpmod", "uc3.from_pgmat_gpmod"):
                # usefulness criterion of every candidate cross = expected progeny mean (parents weighted by their Mendelian shares:
                # 1/2, 1/2 for a two-way cross; 1/2 for the recurrent parent and 1/4, 1/4 for a three-way cross) + intensity * sqrt of
                # the progeny variance the variance-matrix factory reports for that cross (that matrix is the subject of C12)
                import importlib, scipy.stats
                from pybrops.popgen.gmat.DensePhasedGenotypeMatrix import DensePhasedGenotypeMatrix
                from pybrops.popgen.gmap.HaldaneMapFunction import HaldaneMapFunction
                K = 2 if which.startswith("uc2") else 3
                way = "TwoWay" if K == 2 else "ThreeWay"
                fname = "Dense%sDHAdditiveGeneticVarianceMatrixFactory" % way
                F = getattr(importlib.import_module("pybrops.model.vmat.fcty." + fname), fname)
                cls = get("UsefulnessCriterionSelectionProblem", "UsefulnessCriterionSubsetMateSelectionProblem")
                nn = min(n, 4)
                H = np.array([[rng.randrange(2) for _ in range(p)] for _ in range(nn)], dtype="int8")
                pg = DensePhasedGenotypeMatrix(np.stack([H, H]), taxa=np.array(names[:nn], dtype=object), taxa_grp=np.zeros(nn, dtype="int64"),
                                               vrnt_chrgrp=np.array([1] * (p // 2) + [2] * (p - p // 2), dtype="int64"),
                                               vrnt_phypos=np.arange(1, p + 1, dtype="int64"), vrnt_genpos=np.linspace(0.0, 1.0, p),
                                               vrnt_xoprob=np.full(p, 0.1))
                pg.group_vrnt()
                uniq = rng.random() < 0.5 and nn >= K
                pct = rng.choice([0.1, 0.25, 0.5]); ns = rng.choice([0, 1])
                nx = len(cls._calc_xmap(nn, K, uniq))
                pr = cls.from_pgmat_gpmod(K, 1, 10, ns, pct, F(), HaldaneMapFunction(), uniq, pg, model, ndecn=1, decn_space=np.arange(nx),
                                          decn_space_lower=np.repeat(0, 1), decn_space_upper=np.repeat(nx - 1, 1), nobj=T)
                xm = np.asarray(pr.decn_space_xmap); U = np.asarray(pr.ucmat, dtype=float)
                inten = scipy.stats.norm.pdf(scipy.stats.norm.ppf(1.0 - pct)) / pct
                V = np.asarray(F().from_gmod(gmod=model, pgmat=pg, ncross=1, nprogeny=10, nself=ns, gmapfn=HaldaneMapFunction()).mat, dtype=float)
                g = 1.0 + 2.0 * H.astype(float) @ u
                shares = np.array([0.5, 0.5] if K == 2 else [0.5, 0.25, 0.25])
                exp = np.array([shares @ g[list(r_), :] + inten * np.sqrt(V[tuple(r_) + (slice(None),)]) for r_ in xm])
                case["d"] = g.astype(int).tolist(); case["c"] = [1] * nn
                case["dataok"] = bool(U.shape == exp.shape and np.allclose(U, exp, atol=1e-9))
            elif which in ("ohv.from_pgmat_gpmod", "ohv.from_pgmat_gpmod[large]"):
                # identical inbred lines on a map with marker deserts (equal-width blocks stay empty): whatever the blocks
                # are, the optimal haploid value of any cross of clones is the clone's own value; with distinct lines it
                # lies between the better parent and the marker-wise optimum
                from pybrops.popgen.gmat.DensePhasedGenotypeMatrix import DensePhasedGenotypeMatrix
                cls = get("OptimalHaploidValueSelectionProblem", "OptimalHaploidValueSubsetSelectionProblem")
                pm = rng.randrange(5, 9)
                # [large]: enough candidates for more than 1024 cross configurations (the factory works through them in chunks)
                n_, names_ = (n, names) if not which.endswith("[large]") else (lambda k: (k, ["L%03d" % i for i in range(k)]))(rng.choice([46, 47, 50, 64]))
                clones = rng.random() < 0.5
                H = np.array([[rng.randrange(2) for _ in range(pm)] for _ in range(n_)], dtype="int8")
                if clones:
                    H[:] = H[0]
                gp = sorted(rng.choice([0.0, 0.0, 0.01, 0.02, 0.03, 0.5, 0.95, 1.0, 1.0]) for _ in range(pm))
                gp[0] = 0.0; gp[-1] = 1.0
                pg = DensePhasedGenotypeMatrix(np.stack([H, H]), taxa=np.array(names_, dtype=object), taxa_grp=np.zeros(n_, dtype="int64"),
                                               vrnt_chrgrp=np.ones(pm, dtype="int64"), vrnt_phypos=np.arange(1, pm + 1, dtype="int64"),
                                               vrnt_genpos=np.array(gp), vrnt_xoprob=np.array([0.5] + [0.1] * (pm - 1)))
                pg.group_vrnt()
                from pybrops.model.gmod.DenseAdditiveLinearGenomicModel import DenseAdditiveLinearGenomicModel as ADD_
                uu = np.array([[rng.choice([-2, -1, 1, 2, 3]) for _ in range(T)] for _ in range(pm)], dtype=float)
                md = ADD_(beta=np.zeros((1, T)), u_misc=None, u_a=uu, trait=np.array(["t%d" % t for t in range(T)], dtype=object))
                uniq = rng.random() < 0.5
                nblk = rng.randrange(2, pm + 1)
                try:
                    pr = cls.from_pgmat_gpmod(2, nblk, uniq, pg, md, ndecn=2, decn_space=np.arange(3), decn_space_lower=np.repeat(0, 2),
                                              decn_space_upper=np.repeat(2, 2), nobj=T)
                except (ValueError, RuntimeError):
                    pr = None                     # more blocks than markers on a chromosome: refused by the library
                if pr is not None:
                    O = np.asarray(pr.ohvmat, dtype=float); xm = np.asarray(pr.decn_space_xmap)
                    okk = O.shape == (len(xm), T) and bool(np.all(np.isfinite(O)))
                    val = 2.0 * (H[:, :, None] * uu[None, :, :]).sum(1)            # (n, T) value of each inbred line
                    for r_ in range(len(xm) if okk else 0):
                        a, b = int(xm[r_][0]), int(xm[r_][1])
                        best = 2.0 * np.maximum(H[a][:, None] * uu, H[b][:, None] * uu).sum(0)
                        okk = okk and bool(np.all(O[r_] >= np.maximum(val[a], val[b]) - 1e-9) and np.all(O[r_] <= best + 1e-9))
                    case["dataok"] = bool(okk)
            elif which == "mgr.from_gmat":
                cls = get("MeanGenomicRelationshipSelectionProblem", "MeanGenomicRelationshipSubsetSelectionProblem")
                fc = DenseMolecularCoancestryMatrixFactory()
                if rng.random() < 0.6:
                    # ONE factory object serves the whole programme: it was used on this population before, and the population
                    # was then reordered in place (the problem must describe the population as it is now)
                    cls.from_gmat(gm, fc, nobj=1, **sp)
                    pm_ = list(range(n)); rng.shuffle(pm_); gm.reorder_taxa(np.array(pm_))
                pr = cls.from_gmat(gm, fc, nobj=1, **sp)
                K = 0.5 * np.asarray(DenseMolecularCoancestryMatrixFactory().from_gmat(gm).mat)
                case["dataok"] = bool(np.allclose(pr.C.T @ pr.C, K, atol=1e-5))
    except Exception as e:
        case["err"] = "%s: %s" % (type(e).__name__, str(e)[:200])
    return case


def run(ctx):
    rng = random.Random(ctx.seed)
    thorough = ctx.tier == "thorough"
    ctx.rule = ("TLC checks scale invariance, non-negativity and betweenness of the criterion definitions for all contribution vectors "
                "of <=3 candidates; the latent vector of every criterion family (EBV, GEBV, wGEBV, gwGEBV, random, EMBV, OHV, UC, "
                "family EBV, OCS, MGR, MEH, L1, L2, allele-frequency distance, allele unavailability, MOGS) is computed by the real subset / integer / binary / real "
                "problem classes for the same contribution vector (two listings, two scalings) and validated by TLC against the "
                "definition; assembled objectives/constraints with weights and identity/sum/dot transformations and factory data are "
                "checked too; distinct by (family, data, contribution vector)")
    ctx.assume("integer data so that every latent value is a small rational; norm-valued components compared as squares",
               "kinship factors are integer upper-triangular matrices C with Gram matrix K = C'C handed to TLC")
    r = tlc.run("SelObjective_MC", "SelObjective_MC.cfg", timeout=900)
    tlc.must_pass(r, "SelObjective_MC"); ctx.add_tlc(r, "SelObjective_MC.cfg")
    if r.violated:
        ctx.violation("spec:SelObjective:" + r.violated, "TLC: %s violated" % r.violated, r.error)
    allc = []
    reps = 30 if thorough else 10
    for fam in FAMILIES:
        for _ in range(reps):
            allc.append(one_case(len(allc) + 1, fam, rng))
        for ksel in range(1, 7):
            allc.append(one_case(len(allc) + 1, fam, rng, ksel=ksel))
    for _ in range(reps * 2):
        allc.append(pafd_case(len(allc) + 1, rng))
    for kind in ("pau", "mogs"):
        for _ in range(reps * 2):
            allc.append(pafd_case(len(allc) + 1, rng, kind))
        for ksel in (24, 49, 53, 98, 103):
            for _ in range(2):
                allc.append(pafd_case(len(allc) + 1, rng, kind, ksel=ksel))
    for which in ("ebv.from_bvmat", "gebv.from_gmat_gpmod", "ocs.from_bvmat_gmat", "mgr.from_gmat", "embv.from_pgmat_gpmod", "embvmat.from_gmod", "ohv.from_pgmat_gpmod",
                  "uc2.from_pgmat_gpmod", "uc3.from_pgmat_gpmod", "ohv.from_pgmat_gpmod[large]"):
        for _ in range(reps):
            allc.append(factory_case(len(allc) + 1, which, rng))
    verd = cases.validate(ctx, "SelObjective_Trace", "SelObjective_Trace.cfg",
                          [{k: v for k, v in c.items() if k != "family"} for c in allc], "SelObjective_Trace", chunk=20, procs=14)
    ctx.extra["use_then_edit_cases"] = sum(1 for c in allc if c.get("edited"))
    if not ctx.extra["use_then_edit_cases"]:
        raise tlc.TLCFailure("vacuous: no use-then-edit case was produced")
    ctx.traces += len(allc)
    for c in allc:
        v, enc = verd[c["id"]]
        ctx.count(len(c["obs"]) or 1, repr((c["family"], c["c"], c.get("d"), c.get("K"))))
        if v != "ok":
            ctx.violation("%s:%s%s" % (c["family"], v, (":" + enc) if enc else ""),
                          "TLC verdict %s%s%s" % (v, " in the %s encoding" % enc if enc else "", " -- " + c["err"] if c["err"] else ""),
                          {k: c[k] for k in c if k not in ("Ks", "Vs")})
    s0 = allc[0]
    ctx.sample({k: s0[k] for k in ("family", "c", "d")} | {"obs": s0["obs"][:3], "verdict": verd[s0["id"]]})
