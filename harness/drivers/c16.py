"""C16 saving, loading and copying (spec/Store*.tla)."""
import copy, importlib, os, random, shutil, tempfile
from pathlib import Path
import numpy as np
from .. import tlc, cases, lm
from ..proj import proj, ATTRS
from ..core import time_limit
from . import c15

NONASCII = ["Zea-µ ", " 稻米", "Ñan dú", "ß-line  ", "Ωmega", "naïve\t", "Ærø", "çedilla"]      # non-ASCII labels, some with leading / inner / trailing blanks


def imp(path, name):
    return getattr(importlib.import_module(path), name)


def gmat_variants(clsname, rng):
    out = []
    for presence, grouped, nonascii in (("all", True, False), ("all", False, True), ("sparse", False, False), ("nogrp", False, False)):
        ax = {"taxa": [rng.randrange(8) for _ in range(rng.randrange(1, 5))],
              "vrnt": [rng.randrange(8) for _ in range(rng.randrange(1, 5))], "trait": []}
        o = lm.build(clsname, ax, presence)
        if nonascii and o.taxa is not None:
            o.taxa = np.array([NONASCII[i % 8] for i in ax["taxa"]], dtype=object)
            if o.vrnt_name is not None:
                o.vrnt_name = np.array([NONASCII[(i + 3) % 8] for i in ax["vrnt"]], dtype=object)
        if grouped:
            o.group_taxa(); o.group_vrnt()
        out.append(o)
    return out


def bv_variants(clsname, rng):
    cls = imp(c15.CLASSES[clsname], clsname)
    out = []
    for grp, grouped in ((True, True), (True, False), (False, False)):
        ids = [rng.choice([0, 1, 2, 4, 5, 7]) for _ in range(rng.randrange(2, 6))]
        o = c15.build(cls, ids, grp)
        if grouped:
            o.group_taxa()
        out.append(o)
    o = c15.build(cls, [0, 3, 5, 6], True)       # with missing values
    out.append(o)
    return out


def square_variants(path, clsname, rng):
    cls = imp(path, clsname)
    out = []
    for names, grp, grouped in ((True, True, True), (True, True, False), (True, False, False), (False, False, False)):
        n = rng.randrange(1, 5)
        ids = [rng.randrange(8) for _ in range(n)]
        a = np.array([[rng.randrange(1, 9) / 8.0 for _ in range(n)] for _ in range(n)])
        mat = (a + a.T) / 2.0 + np.eye(n)
        o = cls(mat=mat, taxa=np.array([(NONASCII if grouped else lm.TAB["taxa"]["name"])[i] for i in ids], dtype=object) if names else None,
                taxa_grp=np.array([lm.TAB["taxa"]["grp"][i] for i in ids], dtype="int64") if grp else None)
        if grouped:
            o.group_taxa()
        out.append(o)
    return out


def tensor_variants(path, clsname, rng):
    """variance / covariance matrices: find the tensor order the class accepts"""
    cls = imp(path, clsname)
    out = []
    for names, trait, grouped in ((True, True, True), (True, True, False), (True, False, False), (False, False, False)):
        n = rng.randrange(1, 4); t = rng.randrange(1, 3)
        made = None
        for ntax in (2, 3, 4):
            for ttail in ((t,), (t, t)):
                shape = (n,) * ntax + ttail
                mat = np.arange(int(np.prod(shape)), dtype=float).reshape(shape) / 4.0
                try:
                    made = cls(mat=mat, taxa=np.array([lm.TAB["taxa"]["name"][i % 8] for i in range(n)], dtype=object) if names else None,
                               taxa_grp=np.array([lm.TAB["taxa"]["grp"][i % 8] for i in range(n)], dtype="int64") if names else None,
                               trait=np.array(["tr%d" % k for k in range(t)], dtype=object) if trait else None)
                    break
                except Exception:
                    made = None
            if made is not None:
                break
        if made is None:
            raise RuntimeError("no accepted tensor shape for " + clsname)
        if grouped:
            try:
                made.group_taxa()
            except Exception:
                pass
        out.append(made)
    return out


def model_variants(path, clsname, rng):
    cls = imp(path, clsname)
    out = []
    # hyperparameter dicts with different key sets (a poorer dict written over a richer one must not keep the extra keys)
    hyps = [{"lam": 0.5, "k": 3, "burnin": 100, "S0": 2.5}, None, {"lam": 0.25}, {"k": 7, "nu": 4},
            {"lam": 0.5, "varcomp": np.array([0.5, 1.5, 2.0])}]      # a hyperparameter may be an array (mutable: a deep copy must own its copy)   # numeric values (a str value reads back as bytes: HDF5 strings, not asserted)
    for t, named, hyper in ((1, True, 0), (2, True, 1), (2, False, 1), (1, True, 2), (1, False, 3), (2, True, 4)):
        p = rng.randrange(1, 5)
        kw = dict(beta=np.array([[rng.randrange(-5, 6) / 2.0 for _ in range(t)]]),
                  u_misc=None if rng.random() < 0.5 else np.array([[rng.randrange(-3, 4) / 4.0 for _ in range(t)] for _ in range(2)]),
                  u_a=np.array([[rng.randrange(-8, 9) / 8.0 for _ in range(t)] for _ in range(p)]),
                  trait=np.array(["yld%d" % k for k in range(t)], dtype=object) if named else None,
                  model_name="mødel-α" if named else None,
                  hyperparams=hyps[hyper])
        if "Dominance" in clsname:
            kw["u_d"] = np.array([[rng.randrange(-8, 9) / 8.0 for _ in range(t)] for _ in range(p)])
        out.append(cls(**kw))
    return out


def pheno_variants(rng):
    """G_E_Phenotyping protocols: the genomic model is not stored (from_hdf5 takes it as an argument), the trial design is"""
    from pybrops.breed.prot.pt.G_E_Phenotyping import G_E_Phenotyping
    gms = model_variants("pybrops.model.gmod.DenseAdditiveLinearGenomicModel", "DenseAdditiveLinearGenomicModel", rng)
    out = []
    for k, (nenv, scalar) in enumerate(((1, True), (3, False), (2, False), (4, True), (2, True))):
        gm = gms[1] if k % 2 else gms[0]
        T = gm.ntrait
        def var(z):
            return (0.0 if z else rng.choice([0.5, 1.25, 3.0])) if scalar else np.array([0.0 if (z and t == 0) else rng.choice([0.5, 1.25, 3.0]) for t in range(T)])
        nrep = rng.randrange(1, 4) if scalar else np.array([rng.randrange(1, 4) for _ in range(nenv)])
        out.append(G_E_Phenotyping(gm, nenv=nenv, nrep=nrep, var_env=var(k == 0), var_rep=var(k == 1), var_err=var(False)))
    return out


def read_back(cls, fn, loc, like):
    """from_hdf5 of the class; protocols whose genomic model is not stored get the writer's model back as an argument"""
    if hasattr(like, "gpmod") and "gpmod" in cls.from_hdf5.__code__.co_varnames:
        return cls.from_hdf5(fn, loc, gpmod=like.gpmod)
    return cls.from_hdf5(fn, loc)


FAMILIES = []
for _c in ("DenseGenotypeMatrix", "DensePhasedGenotypeMatrix"):
    FAMILIES.append((_c, lambda rng, c=_c: gmat_variants(c, rng)))
for _c in c15.CLASSES:
    FAMILIES.append((_c, lambda rng, c=_c: bv_variants(c, rng)))
for _c in ("DenseMolecularCoancestryMatrix", "DenseVanRadenCoancestryMatrix", "DenseYangCoancestryMatrix",
           "DenseGeneralizedWeightedCoancestryMatrix"):
    FAMILIES.append((_c, lambda rng, c=_c: square_variants("pybrops.popgen.cmat." + c, c, rng)))
for _c in ("DenseTwoWayDHAdditiveGeneticVarianceMatrix", "DenseTwoWayDHAdditiveGenicVarianceMatrix",
           "DenseThreeWayDHAdditiveGeneticVarianceMatrix", "DenseFourWayDHAdditiveGeneticVarianceMatrix",
           "DenseDihybridDHAdditiveGeneticVarianceMatrix", "DenseDihybridDHAdditiveGenicVarianceMatrix"):
    FAMILIES.append((_c, lambda rng, c=_c: tensor_variants("pybrops.model.vmat." + c, c, rng)))
for _c in ("DenseTwoWayDHAdditiveProgenyGeneticCovarianceMatrix", "DenseDihybridDHAdditiveProgenyGeneticCovarianceMatrix"):
    FAMILIES.append((_c, lambda rng, c=_c: tensor_variants("pybrops.model.pcvmat." + c, c, rng)))
for _c in ("DenseAdditiveLinearGenomicModel", "DenseAdditiveDominanceLinearGenomicModel"):
    FAMILIES.append((_c, lambda rng, c=_c: model_variants("pybrops.model.gmod." + c, c, rng)))
FAMILIES.append(("G_E_Phenotyping", pheno_variants))


def hdf5_history(hid, clsname, variants, rng, tmpdir, order=None):
    cls = type(variants[0])
    fn = os.path.join(tmpdir, "h%d.h5" % hid)
    locs = [None, "grp", "grp/sub/", "π-grp/"]
    ev = []
    written = []
    last = {}
    oneloc = rng.choice(locs)
    for w in range(rng.randrange(2, 5) if order is None else len(order)):
        o = variants[rng.randrange(len(variants)) if order is None else order[w]]
        loc = rng.choice(locs[:3] if w < 3 else locs) if order is None else oneloc
        how = rng.choice(["str", "path", "handle"])
        e = {"op": "write", "loc": str(loc), "obj": proj(o), "how": how, "err": None}
        try:
            with time_limit(30):
                if how == "handle":
                    import h5py
                    with h5py.File(fn, "a") as h:
                        o.to_hdf5(h, loc)
                else:
                    o.to_hdf5(fn if how == "str" else Path(fn), loc)
        except Exception as ex:
            e["err"] = "%s: %s" % (type(ex).__name__, str(ex)[:150])
        ev.append(e)
        if e["err"]:
            # a failed write leaves the location undefined: record as its own violation, stop the history
            return {"id": hid, "cls": clsname, "ev": ev, "writefail": e["err"]}
        if loc not in written:
            written.append(loc)
        last[loc] = o
        for l2 in written:
            r = {"op": "read", "loc": str(l2), "err": None, "obj": {}}
            try:
                with time_limit(30):
                    back = read_back(cls, fn, l2, last[l2])
                r["obj"] = proj(back)
            except Exception as ex:
                r["err"] = "%s: %s" % (type(ex).__name__, str(ex)[:150])
            ev.append(r)
    return {"id": hid, "cls": clsname, "ev": ev}


def twins(o):
    """same-shape twins of o: (different values, same dtypes) and (other dtypes where the class accepts them)"""
    out = []
    for mode in ("values", "dtypes"):
        t = copy.deepcopy(o)
        changed = 0
        for a in ATTRS:
            x = getattr(t, a, None)
            if not isinstance(x, np.ndarray) or x.size == 0 or a.endswith(("_stix", "_spix", "_len")) or a in ("taxa_grp_name", "vrnt_chrgrp_name"):
                continue
            try:
                if mode == "values":
                    if x.dtype == object:
                        y = np.array([str(v) + "~" for v in x.ravel()], dtype=object).reshape(x.shape)
                    elif x.dtype == bool:
                        y = ~x
                    elif np.issubdtype(x.dtype, np.floating):
                        y = x + 0.5
                    elif a == "mat":
                        y = ((x + 1) % 2).astype(x.dtype)
                    else:
                        continue      # integer label arrays (groups, positions) keep their values
                else:
                    if np.issubdtype(x.dtype, np.floating):
                        y = np.rint(x).astype("int64") if a in ("location", "scale", "beta", "u_a", "u_d", "u_misc") else x.astype("float32")
                        if a == "scale":
                            y = np.where(y == 0, 1, y)
                    elif x.dtype == np.int64:
                        y = x.astype("int32")
                    else:
                        continue
                setattr(t, a, y)
                changed += 1
            except Exception:
                pass
        if changed:
            out.append((mode, t))
    return out


def twin_history(hid, clsname, o, tw, mode, rng, tmpdir):
    cls = type(o)
    fn = os.path.join(tmpdir, "t%d.h5" % hid)
    loc = rng.choice([None, "g", "g/h/"])
    ev = []
    for first, second in ((tw, o), (o, tw)):
        for obj in (first, second):
            e = {"op": "write", "loc": str(loc), "obj": proj(obj), "how": "str", "err": None}
            try:
                obj.to_hdf5(fn, loc)
            except Exception as ex:
                e["err"] = "%s: %s" % (type(ex).__name__, str(ex)[:150])
            ev.append(e)
            if e["err"]:
                return {"id": hid, "cls": clsname, "ev": ev, "writefail": e["err"], "twin": mode}
        r = {"op": "read", "loc": str(loc), "err": None, "obj": {}}
        try:
            r["obj"] = proj(read_back(cls, fn, loc, second))
        except Exception as ex:
            r["err"] = "%s: %s" % (type(ex).__name__, str(ex)[:150])
        ev.append(r)
    return {"id": hid, "cls": clsname, "ev": ev, "twin": mode}


def mutate_inplace(obj):
    n = 0
    for a in ATTRS:
        x = getattr(obj, a, None)
        if isinstance(x, np.ndarray) and x.size:
            try:
                if x.dtype == object:
                    x.flat[0] = "MUTATED"
                elif x.dtype == bool:
                    x[...] = ~x
                else:
                    x[...] = x + 1
                n += 1
            except Exception:
                pass
        elif isinstance(x, dict):
            # mutable VALUES inside the dictionary are state too: edit them in place, then add a key
            for k_, v_ in list(x.items()):
                if isinstance(v_, np.ndarray) and v_.size and v_.dtype != object:
                    v_[...] = v_ + 1
                elif isinstance(v_, list):
                    v_.append("MUTATED")
                elif isinstance(v_, dict):
                    v_["__mut__"] = 1
            x["__mut__"] = 1; n += 1
    return n


def copy_history(hid, clsname, o):
    ev = []
    for what, fn in (("copy.copy", lambda: copy.copy(o)), ("copy.deepcopy", lambda: copy.deepcopy(o)),
                     (".copy()", lambda: o.copy()), (".deepcopy()", lambda: o.deepcopy())):
        e = {"op": "same", "what": what, "a": proj(o), "b": {}, "err": None}
        try:
            c = fn()
            e["b"] = proj(c)
        except AttributeError as ex:
            if what.startswith("."):
                continue
            e["err"] = "%s: %s" % (type(ex).__name__, str(ex)[:150])
        except Exception as ex:
            e["err"] = "%s: %s" % (type(ex).__name__, str(ex)[:150])
        ev.append(e)
        if "deepcopy" in what and not e["err"]:
            before = proj(o)
            mutate_inplace(c)
            ev.append({"op": "same", "what": "source-after-mutating-its-" + what, "a": before, "b": proj(o), "err": None})
            # a SECOND deep copy taken after the first one was edited is again a copy of the source (not the first copy again)
            e2 = {"op": "same", "what": "second-" + what + "-after-the-first-copy-was-edited", "a": proj(o), "b": {}, "err": None}
            try:
                c2 = fn()
                e2["b"] = proj(c2)
                if c2 is c:
                    e2["err"] = "the second deep copy IS the first copy (same object)"
            except Exception as ex:
                e2["err"] = "%s: %s" % (type(ex).__name__, str(ex)[:150])
            ev.append(e2)
    return {"id": hid, "cls": clsname, "ev": ev}


def same(what, a, fn):
    e = {"op": "same", "what": what, "a": a, "b": {}, "err": None}
    try:
        with time_limit(30):
            e["b"] = fn()
    except Exception as ex:
        e["err"] = "%s: %s" % (type(ex).__name__, str(ex)[:150])
    return e


def restrict(p, fields):
    return {k: v for k, v in p.items() if k in fields}


def roundtrip_histories(hid0, rng, tmpdir, thorough):
    """data-frame / CSV round trips with matching options, VCF import"""
    import pandas
    from ..proj import val
    out = []
    hid = hid0
    # ---- breeding values: scaled values in the frame + the object's location/scale handed back
    for clsname in c15.CLASSES:
        cls = imp(c15.CLASSES[clsname], clsname)
        for o in bv_variants(clsname, rng)[:3]:
            hid += 1
            ev = []
            kw = {} if o.taxa_grp is not None else {"taxa_grp_col": None}
            # matching option: raw values in the frame (unscale=True); from_pandas re-standardises them, so the
            # stored values agree to rounding error (compared at 9 significant digits)
            ev.append(same("from_pandas(to_pandas(unscale=True))", proj(o, digits=9),
                           lambda: proj(cls.from_pandas(o.to_pandas(unscale=True, **kw), **kw), digits=9)))
            fn = os.path.join(tmpdir, "bv%d.csv" % hid)
            def csv_rt():
                o.to_csv(fn, unscale=True, **kw)
                return proj(cls.from_csv(fn, **kw), digits=9)
            ev.append(same("from_csv(to_csv(unscale=True))", proj(o, digits=9), csv_rt))
            out.append({"id": hid, "cls": clsname, "ev": ev})
    # ---- coancestry
    for clsname in ("DenseMolecularCoancestryMatrix", "DenseVanRadenCoancestryMatrix"):
        cls = imp("pybrops.popgen.cmat." + clsname, clsname)
        for o in square_variants("pybrops.popgen.cmat." + clsname, clsname, rng)[:3]:
            if o.taxa is None or len(set(o.taxa)) < len(o.taxa):
                continue
            hid += 1
            kw = {} if o.taxa_grp is not None else {"taxa_grp_col": None}
            ev = [same("from_pandas(to_pandas())", proj(o), lambda: proj(cls.from_pandas(o.to_pandas(**kw), **kw)))]
            fn = os.path.join(tmpdir, "cm%d.csv" % hid)
            def csv_rt():
                o.to_csv(fn, **kw)
                return proj(cls.from_csv(fn, **kw))
            ev.append(same("from_csv(to_csv())", proj(o), csv_rt))
            out.append({"id": hid, "cls": clsname, "ev": ev})
    # ---- two-way variance matrices (long format): from_pandas rebuilds the axes in sorted label order, so the
    #      property is checked on the canonical (label-sorted) form; positional equality is recorded separately
    def canon(o):
        tx = np.argsort(np.array([str(x) for x in o.taxa]), kind="stable")
        tr = np.argsort(np.array([str(x) for x in o.trait]), kind="stable")
        m = np.asarray(o.mat)[tx][:, tx][:, :, tr]
        p = {"mat": val(m), "taxa": val(np.asarray(o.taxa)[tx]), "trait": val(np.asarray(o.trait)[tr])}
        if o.taxa_grp is not None:
            p["taxa_grp"] = val(np.asarray(o.taxa_grp)[tx])
        return p
    from ..proj import val
    for clsname in ("DenseTwoWayDHAdditiveGeneticVarianceMatrix", "DenseTwoWayDHAdditiveGenicVarianceMatrix"):
        cls = imp("pybrops.model.vmat." + clsname, clsname)
        # rep 0-1: as built; then matrices that were edited in place before the export (sorted / reordered along the trait or
        # taxa axis: the stored array is then a view with another memory layout) or built on a Fortran-ordered array
        preps = ["none", "none", "sort_trait", "reorder_trait", "reorder_taxa", "sort_taxa", "fortran"] + (["none", "reorder_trait", "fortran"] if thorough else [])
        for rep, prep in enumerate(preps):
            n = rng.randrange(2, 5); t = rng.randrange(1, 3) if prep == "none" else rng.randrange(2, 4)
            names = rng.sample(["c1", "a7", "b2", "zz", "Ña"], n)
            if rep == 0:
                names = sorted(names)
            m = np.array([[[rng.randrange(0, 40) / 8.0 for _ in range(t)] for _ in range(n)] for _ in range(n)])
            if rep % 2 == 0:
                m = (m + m.transpose(1, 0, 2)) / 2.0            # (the export must not rely on symmetry: odd reps are not symmetric)
            if prep == "fortran":
                m = np.asfortranarray(m)
            o = cls(mat=m, taxa=np.array(names, dtype=object), taxa_grp=np.array([rng.randrange(1, 5) for _ in range(n)], dtype="int64"),
                    trait=np.array(sorted(["y%d" % k for k in range(t)], reverse=(rep == 1)), dtype=object))
            if prep == "sort_trait":
                o.sort_trait()
            elif prep == "reorder_trait":
                pm = list(range(t)); rng.shuffle(pm); o.reorder_trait(np.array(pm))
            elif prep == "reorder_taxa":
                pm = list(range(n)); rng.shuffle(pm); o.reorder_taxa(np.array(pm))
            elif prep == "sort_taxa":
                o.sort_taxa()
            sfx = "" if prep == "none" else "[after %s]" % prep
            hid += 1
            ev = [same("canonical(from_pandas(to_pandas()))" + sfx, canon(o), lambda: canon(cls.from_pandas(o.to_pandas()))),
                  same("positional(from_pandas(to_pandas()))", restrict(proj(o), ("mat", "taxa", "taxa_grp", "trait")),
                       lambda: restrict(proj(cls.from_pandas(o.to_pandas())), ("mat", "taxa", "taxa_grp", "trait")))]
            fn = os.path.join(tmpdir, "vm%d.csv" % hid)
            def csv_rt():
                o.to_csv(fn)
                return canon(cls.from_csv(fn))
            ev.append(same("canonical(from_csv(to_csv()))" + sfx, canon(o), csv_rt))
            # matching column options: one of the two (redundant) group columns left out on both sides
            for opt in ("male_grp_col", "female_grp_col"):
                kwo = {opt: None}
                ev.append(same("canonical(from_pandas(to_pandas(%s=None), %s=None))" % (opt, opt) + sfx, canon(o),
                               lambda kwo=kwo: canon(cls.from_pandas(o.to_pandas(**kwo), **kwo))))
                def csv_rt2(kwo=kwo):
                    o.to_csv(fn, **kwo)
                    return canon(cls.from_csv(fn, **kwo))
                ev.append(same("canonical(from_csv(to_csv(%s=None), %s=None))" % (opt, opt) + sfx, canon(o), csv_rt2))
            out.append({"id": hid, "cls": clsname, "ev": ev})
    # ---- genetic maps (positions written in cM are read as cM)
    for clsname in ("StandardGeneticMap", "ExtendedGeneticMap"):
        cls = imp("pybrops.popgen.gmap." + clsname, clsname)
        for rep in range(3 if thorough else 2):
            rows = []
            for ch in rng.sample([1, 2, 3, 5], rng.randrange(1, 4)):
                pos = sorted(rng.sample(range(1, 60), rng.randrange(2, 5)))
                g0 = rng.randrange(0, 8)
                for k, p in enumerate(pos):
                    rows.append((ch, p * 10, (g0 + 3 * k) / 8.0))
            rng.shuffle(rows)
            chrgrp = np.array([r[0] for r in rows], dtype="int64"); phy = np.array([r[1] for r in rows], dtype="int64")
            gen = np.array([r[2] for r in rows], dtype=float)
            try:
                if clsname == "StandardGeneticMap":
                    o = cls(vrnt_chrgrp=chrgrp, vrnt_phypos=phy, vrnt_genpos=gen)
                    kw_to = {}; kw_from = {"vrnt_genpos_units": "cM"}
                else:
                    o = cls(vrnt_chrgrp=chrgrp, vrnt_phypos=phy, vrnt_stop=phy + 1, vrnt_genpos=gen,
                            vrnt_name=np.array(["m%d_%d" % (r[0], r[1]) for r in rows], dtype=object),
                            vrnt_fncode=np.array(["fn%d" % (k % 2) for k in range(len(rows))], dtype=object))
                    kw_to = {}; kw_from = {"vrnt_genpos_units": "cM", "vrnt_name_col": "name", "vrnt_fncode_col": "fncode"}
            except Exception as ex:
                out.append({"id": hid + 1, "cls": clsname, "ev": [{"op": "same", "what": "construct", "a": {}, "b": {}, "err": repr(ex)[:150]}]}); hid += 1
                continue
            hid += 1
            ev = [same("from_pandas(to_pandas(cM), cM)", proj(o), lambda: proj(cls.from_pandas(o.to_pandas(**kw_to), **kw_from)))]
            fn = os.path.join(tmpdir, "gm%d.csv" % hid)
            def csv_rt():
                o.to_csv(fn, **kw_to)
                return proj(cls.from_csv(fn, **kw_from))
            ev.append(same("from_csv(to_csv(cM), cM)", proj(o), csv_rt))
            if clsname == "StandardGeneticMap":
                # matching unit options on both sides: positions written in Morgans are read as Morgans
                um = {"vrnt_genpos_units": "M"}
                ev.append(same("from_pandas(to_pandas(M), M)", proj(o), lambda: proj(cls.from_pandas(o.to_pandas(**um), **um))))
                def csv_rt_m():
                    o.to_csv(fn, **um)
                    return proj(cls.from_csv(fn, **um))
                ev.append(same("from_csv(to_csv(M), M)", proj(o), csv_rt_m))
            ev.append(same("copy.deepcopy", proj(o), lambda: proj(copy.deepcopy(o))))
            # copies must BEHAVE like the source too: interpolation at positions between / outside the markers and on an
            # absent chromosome, also when the source's spline is older than its marker arrays (markers removed in place)
            pc = np.array([r[0] for r in rows] + [rows[0][0], rows[-1][0], 97], dtype="int64")
            pp = np.array([r[1] + 3 for r in rows] + [1, 5000, 50], dtype="int64")

            def behave(m):
                q = proj(m)
                with np.errstate(all="ignore"):
                    try:
                        q["interp_genpos(probe)"] = val(np.asarray(m.interp_genpos(pc, pp), dtype=float))
                    except Exception as ex:
                        q["interp_genpos(probe)"] = val("raises %s" % type(ex).__name__)
                q["has_spline"] = val(bool(m.has_spline()))
                return q
            for stage in ("fresh", "after-in-place-remove"):
                src = copy.deepcopy(o)
                if stage != "fresh":
                    if len(rows) < 3:
                        continue
                    try:
                        src.remove(np.array(sorted(rng.sample(range(len(rows)), rng.randrange(1, len(rows) - 1)))))
                    except Exception:
                        continue
                for what, fn2 in (("copy.copy", lambda: copy.copy(src)), ("copy.deepcopy", lambda: copy.deepcopy(src)),
                                  (".copy()", lambda: src.copy()), (".deepcopy()", lambda: src.deepcopy())):
                    ev.append(same("%s behaves like its source (%s)" % (what, stage), behave(src), lambda: behave(fn2())))
            out.append({"id": hid, "cls": clsname, "ev": ev})
    # ---- VCF import: phased diploid calls
    for clsname in ("DensePhasedGenotypeMatrix", "DenseGenotypeMatrix"):
        cls = imp("pybrops.popgen.gmat." + clsname, clsname)
        for rep in range(12 if thorough else 6):
            ns = rng.randrange(1, 5); nv = [1, 6, 3, 9, 7, 11][rep % 6] if rep < 6 else rng.randrange(1, 12)
            samples = [rng.choice(["S", "ind", "Ωx", "ln-"]) + str(k) for k in range(ns)]
            recs = []
            used = set()
            while len(recs) < nv:
                ch = rng.choice([1, 2, 3]); ps = rng.randrange(1, 500)
                if (ch, ps) in used:
                    continue
                used.add((ch, ps))
                recs.append((ch, ps, "snp_%d_%d" % (ch, ps), [(rng.randrange(2), rng.randrange(2)) for _ in range(ns)]))
            grouped = rep % 2 == 0
            recs.sort(key=lambda r: (r[0], r[1]))
            filerecs = list(recs)
            if not grouped or rep >= 4:
                # rep >= 4: the records of the FILE are in arbitrary order and the import groups them (the default): the matrix
                # must list them in (chromosome, position) order, each with its own calls
                rng.shuffle(filerecs)
            if not grouped:
                recs = filerecs
            fn = os.path.join(tmpdir, "v%d_%s.vcf" % (rep, clsname))
            with open(fn, "w", encoding="utf8") as f:
                f.write("##fileformat=VCFv4.2\n")
                for ch in (1, 2, 3):
                    f.write("##contig=<ID=%d>\n" % ch)
                f.write('##FORMAT=<ID=GT,Number=1,Type=String,Description="Genotype">\n')
                f.write("#CHROM\tPOS\tID\tREF\tALT\tQUAL\tFILTER\tINFO\tFORMAT\t" + "\t".join(samples) + "\n")
                for ch, ps, vid, calls in filerecs:
                    f.write("%d\t%d\t%s\tA\tC\t.\tPASS\t.\tGT\t%s\n" % (ch, ps, vid, "\t".join("%d|%d" % c for c in calls)))
            ph = np.array([[[recs[v][3][s][p] for v in range(nv)] for s in range(ns)] for p in range(2)], dtype="int8")
            exp = {"taxa": val(np.array(samples, dtype=object)),
                   "vrnt_chrgrp": val(np.array([r[0] for r in recs], dtype="int64")),
                   "vrnt_phypos": val(np.array([r[1] for r in recs], dtype="int64")),
                   "vrnt_name": val(np.array([r[2] for r in recs], dtype=object)),
                   "mat": val(ph if clsname == "DensePhasedGenotypeMatrix" else (ph[0] + ph[1]).astype("int8"))}
            hid += 1
            out.append({"id": hid, "cls": clsname, "ev": [same("from_vcf(auto_group_vrnt=%s)" % grouped, exp,
                        lambda: restrict(proj(cls.from_vcf(fn, auto_group_vrnt=grouped)), exp.keys()))]})
    return out


def run(ctx):
    rng = random.Random(ctx.seed)
    thorough = ctx.tier == "thorough"
    ctx.rule = ("TLC checks 'read back = last write' over all write histories (<=3 writes, 2 locations, every presence subset of "
                "2 optional fields) and copy isolation on a cell heap, and rejects the as-written write and the shallow deep-copy; "
                "write/read histories on one HDF5 file (rich vs poor objects, grouped/ungrouped, non-ASCII labels, nested and "
                "non-ASCII group paths, str/Path/handle) and copy/deepcopy + in-place mutation of every array are run on the "
                "persistable classes; TLC compares the full projections field by field; distinct by history content; "
                "non-trivial: a location is overwritten by an object with a different set of present fields")
    ctx.assume("observable equality = equality of dtype/shape/values of every public data attribute incl. group metadata",
               "floats compared bit-exactly via repr (HDF5 stores the bits)")
    for cfg, must in (("Store_intended.cfg", None), ("Store_aswritten.cfg", "ReadBackIsLast"), ("Store_shallow.cfg", "MutateLeavesSource")):
        r = tlc.run("Store", cfg, coverage=(must is None), timeout=1500)
        ctx.add_tlc(r, cfg + ("" if must is None else " (expected counterexample)"))
        if must is None:
            tlc.must_pass(r, cfg)
            if r.violated:
                ctx.violation("spec:Store:" + r.violated, "TLC: %s violated (design-level)" % r.violated, r.error)
            for a in ("Write", "MakeSource", "DeepCopy", "Mutate"):
                if r.coverage.get(a, (0, 0))[1] == 0:
                    raise tlc.TLCFailure("vacuous: %s never taken" % a)
        elif r.violated != must:
            raise tlc.TLCFailure("non-vacuity: %s did not violate %s" % (cfg, must))
    tmpdir = tempfile.mkdtemp(prefix="c16_")
    hist = []
    try:
        hid = 0
        for clsname, mk in FAMILIES:
            try:
                variants = mk(rng)
            except Exception as e:
                ctx.violation("%s:construct:exception" % clsname, "%s: %s" % (type(e).__name__, e), None)
                continue
            for _ in range(6 if thorough else 2):
                hid += 1
                hist.append(hdf5_history(hid, clsname, variants, rng, tmpdir))
            # every variant written over every other one at one location (each ordered pair appears in some chain)
            nv = len(variants)
            pairs = [(i, j) for i in range(nv) for j in range(nv) if i != j]
            rng.shuffle(pairs)
            chain = []
            for i, j in pairs if (thorough or nv <= 3) else pairs[:8]:
                chain += [i, j]
            for k in range(0, len(chain), 6):
                hid += 1
                hist.append(hdf5_history(hid, clsname, variants, rng, tmpdir, order=chain[k:k + 6]))
            for o in (variants[:(4 if thorough else 2)] + ([variants[-1]] if len(variants) > 2 else [])):
                hid += 1
                hist.append(copy_history(hid, clsname, o))
            for o in variants[:(3 if thorough else 1)]:
                for mode, tw in twins(o):
                    hid += 1
                    hist.append(twin_history(hid, clsname, o, tw, mode, rng, tmpdir))
        for h in roundtrip_histories(hid, rng, tmpdir, thorough):
            for e in h["ev"]:
                hid += 1000
                hist.append({"id": hid, "cls": h["cls"], "ev": [e]})
    finally:
        shutil.rmtree(tmpdir, ignore_errors=True)
    verd = cases.validate(ctx, "Store_Trace", "Store_Trace.cfg", hist, "Store_Trace", chunk=12, procs=14)
    ctx.traces += len(hist)
    for h in hist:
        v, k, fields = verd[h["id"]]
        fields = sorted(fields) if isinstance(fields, list) else []
        field = ",".join(fields)
        writes = [e for e in h["ev"] if e["op"] == "write"]
        nt = len({(e["loc"], tuple(sorted(f for f in e["obj"] if e["obj"][f]["t"] != "None"))) for e in writes}) > len({e["loc"] for e in writes})
        ctx.count(1, repr([(e.get("loc"), e.get("what"), e["op"]) for e in h["ev"]]) + h["cls"] if (nt or not writes) else None)
        if h.get("writefail"):
            ctx.violation("%s.to_hdf5:exception" % h["cls"], h["writefail"], {"events": [(e["op"], e.get("loc")) for e in h["ev"]]})
        if v != "ok":
            e = h["ev"][k - 1]
            site = ("from_hdf5(to_hdf5)" if e["op"] == "read" else e.get("what", "?"))
            key = "%s:%s:%s:%s" % (h["cls"], site, v, field)
            det = {"event_index": k, "event": {kk: e[kk] for kk in e if kk not in ("obj", "a", "b")},
                   "history": [(x["op"], x.get("loc"), x.get("what"), x.get("how")) for x in h["ev"][:k]]}
            for fld in fields[:4]:
                if e["op"] == "read":
                    lw = [x for x in h["ev"][:k - 1] if x["op"] == "write" and x["loc"] == e["loc"]][-1]
                    det["written." + fld] = lw["obj"].get(fld); det["read." + fld] = e["obj"].get(fld)
                else:
                    det["a." + fld] = e["a"].get(fld); det["b." + fld] = e["b"].get(fld)
            ctx.violation(key, "TLC verdict %s at event %d, field %s%s" % (v, k, field, (" -- " + e["err"]) if e.get("err") else ""), det)
    h0 = hist[0]
    ctx.sample({"cls": h0["cls"], "events": [(e["op"], e.get("loc"), e.get("how")) for e in h0["ev"]],
                "fields": sorted(h0["ev"][0]["obj"].keys()), "verdict": verd[h0["id"]]})
