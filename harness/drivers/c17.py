"""C17 sampling utilities (spec/Sampling*.tla)."""
import itertools, random
import numpy as np
from .. import tlc, cases
from ..scripted_rng import Scripted
from ..core import time_limit, Timeout

G = 4


def model_check(ctx):
    for c, acts in (("Sampling_sus.cfg", ["Advance", "Pick", "SusDone"]), ("Sampling_out.cfg", ["Exchange", "OutStop"])):
        r = tlc.run("Sampling_MC", c, coverage=True, timeout=1500)
        tlc.must_pass(r, c); ctx.add_tlc(r, c)
        if r.violated:
            ctx.violation("spec:Sampling:" + r.violated, "TLC: %s violated in %s" % (r.violated, c), r.error)
        for a in acts:
            if r.coverage.get(a, (0, 0))[1] == 0:
                raise tlc.TLCFailure("vacuous: %s never taken in %s" % (a, c))
    # design-level finding: with the offset exactly 0 the walk can select floor+1 (TLC counterexample)
    r0 = tlc.run("Sampling_MC", "Sampling_sus0.cfg", timeout=600)
    ctx.add_tlc(r0, "Sampling_sus0.cfg (offset exactly 0)")
    ctx.extra["design_offset0_counterexample"] = (r0.violated == "SusFloorCeil")


def sus_case(cid, sus, wint, scale, k, size, rng, o=None, wdtype=None):
    a = np.arange(100, 100 + len(wint))
    # the weight vector is handed over as float64 (times a scale) or, wdtype given, as the integer vector itself
    p = np.array(wint, float) * scale if wdtype is None else np.array(wint, dtype=wdtype)
    c = {"id": cid, "kind": "sus", "w": list(wint), "n": k, "scripted": o is not None, "o": o or 0,
         "ws": sorted(wint, reverse=True), "scale": repr(scale), "size": repr(size)}
    a0, p0 = a.copy(), p.copy()
    try:
        with time_limit(20):
            out = sus(a, p, size, rng)
    except Exception as e:
        c.update(cnt=[0] * len(wint), nout=0, shapeok=False, exc="%s: %s" % (type(e).__name__, e))
        return c
    out = np.asarray(out)
    if not (np.array_equal(a, a0) and np.array_equal(p, p0)):
        c["argmod"] = True       # the caller's option / weight arrays are the caller's: a second draw from them must see the same weights
    if c["scripted"]:
        # the scripted offset is only meaningful if the function asked for exactly one uniform(0, pointer distance) draw and
        # one shuffle; an implementation that draws differently is validated through the floor/ceiling relation only
        ulog = [e for e in getattr(rng, "log", []) if e[0] == "uniform"]
        if len(ulog) != 1 or ulog[0][3] is not None or float(ulog[0][1]) != 0.0:
            c["scripted"] = False; c["o"] = 0; c["replay_inapplicable"] = True
    want = (size,) if isinstance(size, int) else tuple(size)
    c["shapeok"] = tuple(out.shape) == want
    flat = out.ravel()
    c["nout"] = int(flat.size)
    c["cnt"] = [int(np.sum(flat == v)) for v in a]
    if int(sum(c["cnt"])) != flat.size:
        c["shapeok"] = False
    return c


def run(ctx):
    rng = random.Random(ctx.seed)
    thorough = ctx.tier == "thorough"
    ctx.rule = ("TLC checks the SUS pointer walk (all weight vectors <=4 options over {0,1,2,3,5}, k<=6, offsets o/4) and "
                "the outcross exchange search (all tables 3x2, 2x3, 2x2 over 3 symbols); real executions (scripted "
                "offsets over the same grid, real generators with wide-magnitude weights, tiled choice, axis shuffle, "
                "outcross snapshots per iteration) are validated by TLC (Sampling_Trace); non-trivial: >=2 options with "
                "unequal weights (sus), remainder != 0 (tiled), table with a duplicate (outcross/axis); distinct by input")
    ctx.assume("weights handed to the code are integer vectors times a float scale; proportionality is checked on the integers",
               "offset exactly 0.0 (probability 2^-53 per call) is probed separately, see known findings",
               "axis_shuffle exercised on 2-d arrays (integer or 1-tuple axis) and on 3-d / 4-d arrays with tuples of non-negative axes in "
               "any order; the decomposition of an n-d array into its requested slices is done by the harness, TLC compares the multisets")
    model_check(ctx)
    from pybrops.core.random.sampling import (stochastic_universal_sampling as sus, tiled_choice, axis_shuffle,
                                              outcross_shuffle)
    allc = []
    cid = 0
    # ---- (A) SUS on the model's grid with scripted offsets (identity shuffle)
    wvals = [0, 1, 2, 3, 5]
    maxn = 4 if thorough else 3
    grid = []
    for n in range(1, maxn + 1):
        for wv in itertools.product(wvals, repeat=n):
            if sum(wv) > 0:
                grid.append(wv)
    if not thorough:
        extra = [tuple(rng.choice(wvals) for _ in range(4)) for _ in range(120)]
        grid += [e for e in extra if sum(e) > 0]
    for wv in grid:
        for k in range(1, 7):
            for o in (1, 2, 3):
                cid += 1
                srng = Scripted(0, uniform=lambda lo, hi, size, o=o: (o / G) * hi, shuffle=lambda x: None)
                size = k if (k % 2 or rng.random() < 0.5) else (2, k // 2)
                allc.append(sus_case(cid, sus, wv, 1.0, k, size, srng, o))
    n_grid = len(allc)
    # offset exactly zero: probe for the known finding (k*w0/W integral)
    zero_cases = []
    for wv, k in (((1, 1), 2), ((2, 1, 1), 4), ((3, 3), 2), ((1, 1, 1), 3)):
        cid += 1
        srng = Scripted(0, uniform=lambda lo, hi, size: 0.0, shuffle=lambda x: None)
        c = sus_case(cid, sus, wv, 1.0, k, k, srng, None)
        c["zero_offset"] = True
        zero_cases.append(c); allc.append(c)
    # ---- (B) SUS with real generators, wide magnitudes, float scales
    nrand = 2500 if thorough else 600
    for t in range(nrand):
        n = rng.choice([1, 2, 3, 5, 8, 12, 20])
        fam = rng.choice(["small", "wide", "ties", "zeros"])
        if fam == "small":
            wv = [rng.randrange(1, 10) for _ in range(n)]
        elif fam == "wide":
            wv = [rng.choice([1, 2, 3, 1000, 4000, 50000]) for _ in range(n)]
        elif fam == "ties":
            wv = [rng.choice([4, 4, 7]) for _ in range(n)]
        else:
            wv = [rng.choice([0, 0, 1, 6]) for _ in range(n)]
            if sum(wv) == 0:
                wv[rng.randrange(n)] = 3
        k = rng.choice([1, 2, 3, 4, 7, 10, 16, 25, 50])
        while sum(wv) * k > 2 * 10 ** 8:
            k = max(1, k // 2)
        size = k
        if k % 2 == 0 and rng.random() < 0.4:
            size = (k // 2, 2)
        scale = rng.choice([1.0, 0.1, 1e-3, 7.3, 1.0 / 3.0, 1e-7, 1e5, 1e-13, 1e-20, 1e12])      # proportionality is scale-free: tiny and huge weights
        g = np.random.default_rng(rng.randrange(2 ** 32)) if t % 2 else np.random.RandomState(rng.randrange(2 ** 32))
        cid += 1
        allc.append(sus_case(cid, sus, wv, scale, k, size, g, wdtype=[None, None, "int64", "int32", None, "uint8" if max(wv) < 256 else "int64"][t % 6]))
    # ---- tiled choice
    for m in range(1, 8):
        for n in range(1, 23):
            for rep in range(2 if thorough else 1):
                a = np.array([10 * (q + 1) + (q % 3) for q in range(m)])
                size = n
                if n % 3 == 0 and rng.random() < 0.5:
                    size = (n // 3, 3)
                g = np.random.default_rng(rng.randrange(2 ** 32)) if (m + n) % 2 else np.random.RandomState(rng.randrange(2 ** 32))
                cid += 1
                c = {"id": cid, "kind": "tiled", "m": m, "n": n, "size": repr(size)}
                try:
                    out = np.asarray(tiled_choice(a, size, replace=False, rng=g))
                    want = (size,) if isinstance(size, int) else tuple(size)
                    c["shapeok"] = tuple(out.shape) == want
                    c["cnt"] = [int(np.sum(out == v)) for v in a]
                    c["foreign"] = bool(np.any(~np.isin(out, a)))
                except Exception as e:
                    c.update(shapeok=False, cnt=[0] * m, foreign=False, exc=repr(e))
                allc.append(c)
    # ---- axis shuffle (2-d, axis 0: within rows; axis 1: within columns)
    for t in range(400 if thorough else 150):
        nr, nc = rng.randrange(1, 7), rng.randrange(1, 6)
        before = [[rng.randrange(12) for _ in range(nc)] for _ in range(nr)]
        arr = np.array(before)
        lay = t % 5              # memory layout of the array handed over: C order, Fortran order, a transposed view, a strided view
        if lay == 1:
            arr = np.asfortranarray(arr)
        elif lay == 2:
            arr = np.array(before).T.copy().T
        elif lay == 3:
            big = np.zeros((2 * nr, 2 * nc), dtype=arr.dtype); big[::2, ::2] = arr; arr = big[::2, ::2]
        ax = rng.choice([0, 1])
        axarg = ax if rng.random() < 0.5 else (ax,)
        g = np.random.default_rng(rng.randrange(2 ** 32)) if t % 2 else np.random.RandomState(rng.randrange(2 ** 32))
        cid += 1
        c = {"id": cid, "kind": "axis", "before": before, "axis": ax}
        try:
            ret = axis_shuffle(arr, axarg, g)
            c["after"] = arr.tolist()
        except Exception as e:
            c["after"] = before; c["exc"] = repr(e)
        allc.append(c)
    # ---- axis shuffle on 3-d / 4-d arrays with a TUPLE of axes in any order (ascending, descending, repeated): the
    # requested slices are a[s] with the named axes fixed; the case hands TLC one row per requested slice (flattened)
    perms = [(0,), (1,), (2,), (0, 1), (1, 0), (0, 2), (2, 0), (1, 2), (2, 1), (0, 0, 1), (2, 2, 0), (0, 1, 2), (2, 1, 0), (1, 2, 0)]
    for t in range(len(perms) * (6 if thorough else 3)):
        axes = perms[t % len(perms)]
        nd = 3 if (t % 4 and len(set(axes)) < 3) else 4      # at least one axis is left to shuffle along
        shape = tuple(rng.randrange(2, 4) for _ in range(nd))
        arr = np.arange(int(np.prod(shape))).reshape(shape) % rng.choice([5, 7, 1000])
        if t % 3 == 1:
            arr = np.asfortranarray(arr)
        elif t % 3 == 2:
            arr = arr.transpose(tuple(reversed(range(nd)))).copy().transpose(tuple(reversed(range(nd))))
        before_nd = arr.copy()
        g = np.random.default_rng(rng.randrange(2 ** 32)) if t % 2 else np.random.RandomState(rng.randrange(2 ** 32))
        cid += 1
        c = {"id": cid, "kind": "axis", "axis": 0, "nd": {"shape": list(shape), "axes": list(axes)}}
        fixed = sorted(set(axes))
        slices = []
        for ix in itertools.product(*[range(shape[d]) for d in fixed]):
            sl = [slice(None)] * nd
            for d, i in zip(fixed, ix):
                sl[d] = i
            slices.append(tuple(sl))
        c["before"] = [before_nd[sl].ravel().tolist() for sl in slices]
        try:
            axis_shuffle(arr, axes, g)
            c["after"] = [arr[sl].ravel().tolist() for sl in slices]
        except Exception as e:
            c["after"] = c["before"]; c["exc"] = repr(e)
        allc.append(c)
    # ---- outcross shuffle: snapshot at every outer iteration (hook on the shuffle of the exchange list)
    # input selection: tables with the minimal number (4) of improving exchanges (a search that skips part of the
    # neighbourhood is most likely to stop early on these)
    def n_improving(tb):
        def sc(t):
            return sum(len(r) - len(set(r)) for r in t)
        flat = [v for r in tb for v in r]; ncol = len(tb[0]); base = sc(tb); m = 0
        for p in range(len(flat)):
            for q in range(p + 1, len(flat)):
                f = list(flat); f[p], f[q] = f[q], f[p]
                if sc([f[r * ncol:(r + 1) * ncol] for r in range(len(tb))]) < base:
                    m += 1
        return m
    single = []
    for shape in ((3, 2), (2, 3), (4, 2)):
        for cells in itertools.product(range(3), repeat=shape[0] * shape[1]):
            tb = [list(cells[r * shape[1]:(r + 1) * shape[1]]) for r in range(shape[0])]
            if n_improving(tb) == 4:
                single.append(tb)
    rng.shuffle(single)
    plan = [np.array(tb) for tb in single[:(40 if thorough else 12)] for _ in range(10)]
    for t in range(260 if thorough else 90):
        nr, nc = rng.choice([(2, 2), (3, 2), (2, 3), (4, 2), (5, 2), (3, 3), (6, 2), (4, 3), (10, 2), (6, 4)])
        nsym = rng.choice([2, 3, 4, nr])
        x = np.array([[rng.randrange(nsym) for _ in range(nc)] for _ in range(nr)])
        if rng.random() < 0.4:           # what the selection configurations feed: a tiling of the candidates
            x = np.resize(np.arange(nsym), nr * nc).reshape(nr, nc)
        if t % 3 == 1:
            # the entries are arbitrary labels: negative and large values, other integer widths
            x = (x - rng.randrange(1, nsym + 1)) * rng.choice([1, 1, 7, 1000])
            x = x.astype(rng.choice(["int64", "int32", "int16"]))
        plan.append(x)
    for x in plan:
        nr, nc = x.shape
        snaps = [x.tolist()]
        def hook(_x, x=x, snaps=snaps, cap=nr * nc + 3):
            snaps.append(x.tolist())
            if len(snaps) > cap:      # every iteration must lower the duplicate count (<= nr*nc) by >= 1
                raise Timeout("more outer iterations than the initial duplicate count allows")
        if len(allc) % 2:
            g = Scripted(rng.randrange(2 ** 32), on_shuffle=hook)
        else:
            # adversarial schedule (a possible shuffle outcome): improving exchanges are tried last
            def adv(ex, x=x, r=random.Random(rng.randrange(2 ** 32))):
                def sc(t):
                    return sum(len(row) - len(set(row)) for row in t)
                flat = x.ravel(); base = sc(x.tolist()); good, bad = [], []
                for p, q in ex.tolist():
                    f = flat.copy(); f[p], f[q] = f[q], f[p]
                    (good if sc(f.reshape(x.shape).tolist()) < base else bad).append([p, q])
                r.shuffle(good); r.shuffle(bad)
                ex[:] = np.array(bad + good).reshape(ex.shape)
            g = Scripted(rng.randrange(2 ** 32), on_shuffle=hook, shuffle=adv)
        cid += 1
        c = {"id": cid, "kind": "outx"}
        try:
            with time_limit(10):
                outcross_shuffle(x, g)
        except Timeout as e:
            c["exc"] = "non-termination: " + str(e)
        except Exception as e:
            c["exc"] = repr(e)
        snaps.append(x.tolist())
        c["states"] = snaps
        allc.append(c)

    verd = cases.validate(ctx, "Sampling_Trace", "Sampling_Trace.cfg", allc, "Sampling_Trace", chunk=900, procs=14)
    ctx.traces += len(allc)
    ctx.extra["scripted_grid_cases"] = n_grid
    fn = {"sus": "stochastic_universal_sampling", "tiled": "tiled_choice", "axis": "axis_shuffle", "outx": "outcross_shuffle"}
    for c in allc:
        v = verd[c["id"]]
        nt = (c["kind"] == "sus" and len(set(c["w"])) > 1) or (c["kind"] == "tiled" and c["n"] % c["m"]) or \
             (c["kind"] == "outx" and len(c["states"]) > 2) or (c["kind"] == "axis" and len(c["before"]) > 1)
        ctx.count(1, repr({k: c[k] for k in c if k != "id"}) if nt else None)
        site = fn[c["kind"]]
        if c.get("zero_offset"):
            ctx.extra.setdefault("kf_probed", {})[site + ":offset-exactly-0:sus-floor-ceil"] = True
            if v != "ok":
                ctx.violation(site + ":offset-exactly-0:" + v, "offset exactly 0.0: %s (w=%s k=%d cnt=%s)" % (v, c["w"], c["n"], c["cnt"]), c)
            continue
        if c.get("argmod"):
            ctx.violation(site + ":arguments-modified", "the call changed the option / weight array it was given", c)
        if c.get("exc"):
            ctx.violation(site + ":exception", "raised %s" % c["exc"], c)
        elif v != "ok":
            ctx.violation(site + ":" + v, "TLC verdict %s" % v, c)
    for kind in ("sus", "tiled", "axis", "outx"):
        for c in allc:
            if c["kind"] == kind and (kind != "outx" or len(c["states"]) > 2):
                ctx.sample({"case": c, "verdict": verd[c["id"]]}); break
    ctx.exhaustive = True
