"""C20 breeding-programme loop (spec/BreedingLoop*.tla)."""
import copy, random
from .. import tlc, cases

SLOTS = ["genome", "geno", "pheno", "bval", "gmod"]


class Box:
    def __init__(self, v):
        self.v = list(v)


def libfp(o):
    """content token of a member that is a library object: its full observable projection (data, labels, ploidy, scaling,
    effects ...), so that a copy that is not equal to its source is seen as different content"""
    import json
    from ..proj import proj
    if type(o).__module__.startswith("pybrops"):
        return json.dumps(proj(o), sort_keys=True, default=str)
    return repr(o)


def lib_member(slot, rng):
    """a real library object for the start container of a slot (genotypes of several ploidies, breeding values, a model)"""
    import numpy as np
    from pybrops.popgen.gmat.DensePhasedGenotypeMatrix import DensePhasedGenotypeMatrix
    from pybrops.popgen.gmat.DenseGenotypeMatrix import DenseGenotypeMatrix
    from pybrops.popgen.bvmat.DenseBreedingValueMatrix import DenseBreedingValueMatrix
    from pybrops.model.gmod.DenseAdditiveLinearGenomicModel import DenseAdditiveLinearGenomicModel
    n, L = rng.randrange(2, 5), rng.randrange(2, 5)
    taxa = np.array(["t%d" % i for i in range(n)], dtype=object)
    P = rng.choice([1, 2, 4, 6])
    ph = np.array([[[rng.randrange(2) for _ in range(L)] for _ in range(n)] for _ in range(P)], dtype="int8")
    if slot == "genome":
        return DensePhasedGenotypeMatrix(ph, taxa=taxa, taxa_grp=np.arange(n, dtype="int64"))
    if slot in ("geno", "pheno"):
        return DenseGenotypeMatrix(ph.sum(0).astype("int8"), taxa=taxa, taxa_grp=np.arange(n, dtype="int64"), ploidy=P)
    if slot == "bval":
        return DenseBreedingValueMatrix.from_numpy(np.array([[rng.randrange(-9, 9) / 2.0 for _ in range(2)] for _ in range(n)]), taxa=taxa,
                                                   taxa_grp=None, trait=np.array(["y0", "y1"], dtype=object))
    return DenseAdditiveLinearGenomicModel(beta=np.array([[1.0, -2.0]]), u_misc=None,
                                           u_a=np.array([[rng.randrange(-4, 5) / 4.0 for _ in range(2)] for _ in range(L)]),
                                           trait=np.array(["y0", "y1"], dtype=object))


class Reg:
    """object identity -> small integer; keeps objects alive so ids are never reused."""
    def __init__(self):
        self.ids = {}
        self.keep = []
        self.fps = {}

    def oid(self, o):
        k = id(o)
        if k not in self.ids:
            self.ids[k] = len(self.ids) + 1
            self.keep.append(o)
        return self.ids[k]

    def cont(self, c):
        """(container id, member ids, content token)"""
        mem = []
        for k in sorted(c):
            b = c[k]
            mem.append(self.oid(b))
            if isinstance(b, Box):
                mem.append(self.oid(b.v))
        fp = tuple((k, tuple(c[k].v) if isinstance(c[k], Box) else libfp(c[k])) for k in sorted(c))
        if fp not in self.fps:
            self.fps[fp] = len(self.fps) + 1
        return self.oid(c), mem, self.fps[fp]


class Recorder:
    def __init__(self, prog_ref, rng, script=None):
        self.reg = Reg()
        self.ev = []
        self.rng = rng
        self.script = script      # list of outcome dicts per operator call (spec behaviour) or None
        self.k = 0
        self.prog_ref = prog_ref
        self.tok = 0
        self.starts = None

    def snap(self, st):
        ids, mems, fps = [], [], []
        for s in SLOTS:
            a, b, c = self.reg.cont(st[s])
            ids.append(a); mems.append(b); fps.append(c)
        return ids, mems, fps

    def start_fp(self):
        return [self.reg.cont(c)[2] for c in self.starts]

    def outcome(self, slot_ix):
        if self.script is not None:
            oc = self.script[self.k]
            return oc[["a", "b"][(slot_ix + self.k) % 2]] if isinstance(oc, dict) else "keep"
        return self.rng.choice(["keep", "mutC", "mutM", "freshDeep", "freshShallow"])

    def apply(self, c, o):
        r = self.rng
        if o == "keep":
            return c
        if o == "mutC":
            c["n%d" % r.randrange(10 ** 6)] = Box([r.randrange(100)])
            return c
        if o == "mutM":
            k = sorted(c)[0]
            c[k].v.append(r.randrange(100))
            return c
        if o == "freshDeep":
            n = copy.deepcopy(c)
            if r.random() < 0.5:
                n[sorted(n)[0]].v.append(r.randrange(100))
            return n
        import collections
        # freshShallow: new container (a plain dict or a dict subclass), same member objects
        n = dict(c) if r.random() < 0.6 else collections.OrderedDict(c)
        if r.random() < 0.5:
            n["s%d" % r.randrange(10 ** 6)] = Box([r.randrange(100)])
        return n

    def op(self, call, lbook, kw, with_mcfg_in=False, makes_mcfg=False):
        st = {s: kw[s] for s in SLOTS}
        ids, mems, fps = self.snap(st)
        new = {}
        for i, s in enumerate(SLOTS):
            new[s] = self.apply(st[s], self.outcome(i))
        self.k += 1
        rids, rmems, rfps = self.snap(new)
        self.tok += 1
        if isinstance(kw.get("miscout"), dict):
            kw["miscout"]["tok"] = self.tok
        e = {"call": call, "rep": int(lbook.rep), "t": int(kw["t_cur"]), "tmax": int(kw["t_max"]),
             "mcfg": self.reg.oid(kw["mcfg"]) if with_mcfg_in else 0,
             "recv": ids, "mem": mems, "fp": fps, "ret": rids, "retmem": rmems, "retfp": rfps,
             "retmcfg": 0, "misc": 0, "retmisc": self.tok if isinstance(kw.get("miscout"), dict) else 0,
             "sfp": self.start_fp()}
        out = tuple(new[s] for s in SLOTS)
        if makes_mcfg:
            m = {"cfg": self.tok}
            e["retmcfg"] = self.reg.oid(m)
            out = (m,) + out
        self.ev.append(e)
        return out

    def log(self, call, lbook, kw, with_mcfg=False):
        st = {s: kw[s] for s in SLOTS}
        ids, mems, fps = self.snap(st)
        self.ev.append({"call": call, "rep": int(lbook.rep), "t": int(kw["t_cur"]), "tmax": int(kw["t_max"]),
                        "mcfg": self.reg.oid(kw["mcfg"]) if with_mcfg else 0,
                        "recv": ids, "mem": mems, "fp": fps, "ret": ids, "retmem": mems, "retfp": fps,
                        "retmcfg": 0, "misc": int(kw.get("tok", 0)), "retmisc": 0, "sfp": self.start_fp()})


def build(rec, nrep, ngen, loginit, lrep0, via_initop, rng):
    from pybrops.breed.arch.RecurrentSelectionBreedingProgram import RecurrentSelectionBreedingProgram
    from pybrops.breed.op.init.InitializationOperator import InitializationOperator
    from pybrops.breed.op.psel.ParentSelectionOperator import ParentSelectionOperator
    from pybrops.breed.op.mate.MatingOperator import MatingOperator
    from pybrops.breed.op.eval.EvaluationOperator import EvaluationOperator
    from pybrops.breed.op.ssel.SurvivorSelectionOperator import SurvivorSelectionOperator
    from pybrops.breed.op.log.Logbook import Logbook

    starts = [{"main": Box([rng.randrange(100) for _ in range(3)]), "aux": Box([i])} for i in range(5)]
    if rng.random() < 0.3:
        import collections
        starts = [collections.OrderedDict(s_) if k_ % 2 == 0 else s_ for k_, s_ in enumerate(starts)]      # containers may be dict subclasses
    if rng.random() < 0.5:
        # the state containers also hold real library objects (what a programme stores): the replicate's working copy must
        # be EQUAL to the stored start, object by object
        for i, s_ in enumerate(SLOTS):
            starts[i]["lib"] = lib_member(s_, rng)
    rec.starts = starts

    class LB(Logbook):
        def __init__(self):
            self._rep = lrep0; self._data = {}
        @property
        def data(self): return self._data
        @data.setter
        def data(self, v): self._data = v
        @property
        def rep(self): return self._rep
        @rep.setter
        def rep(self, v): self._rep = v
        def log_initialize(self, **kw): rec.log("log_initialize", self, kw)
        def log_pselect(self, **kw): rec.log("log_pselect", self, kw, True)
        def log_mate(self, **kw): rec.log("log_mate", self, kw, True)
        def log_evaluate(self, **kw): rec.log("log_evaluate", self, kw)
        def log_sselect(self, **kw): rec.log("log_sselect", self, kw)
        def reset(self): pass
        def write(self, filename): pass
    lb = LB()

    class IO(InitializationOperator):
        def initialize(self, **kw):
            return tuple(starts)
    class PS(ParentSelectionOperator):
        def pselect(self, **kw): return rec.op("pselect", lb, kw, makes_mcfg=True)
    class MO(MatingOperator):
        def mate(self, **kw): return rec.op("mate", lb, kw, with_mcfg_in=True)
    class EO(EvaluationOperator):
        def evaluate(self, **kw): return rec.op("evaluate", lb, kw)
    class SO(SurvivorSelectionOperator):
        def sselect(self, **kw): return rec.op("sselect", lb, kw)

    tmax = rng.choice([ngen, 20, 3])
    if via_initop:
        prog = RecurrentSelectionBreedingProgram(IO(), PS(), MO(), EO(), SO(), tmax)
    elif rng.random() < 0.3:
        # the programme is constructed WITHOUT a start state and the start is installed through the start_* properties afterwards: it is
        # then initialised, and evolve() must use the installed start (the initialisation operator, which would hand out something
        # else, is not to be asked)
        class IO2(InitializationOperator):
            def initialize(self, **kw):
                return tuple({"main": Box([-5, -5, -5]), "aux": Box([-1 - i])} for i in range(5))
        prog = RecurrentSelectionBreedingProgram(IO2(), PS(), MO(), EO(), SO(), tmax)
        for nm_, st_ in zip(("start_genome", "start_geno", "start_pheno", "start_bval", "start_gmod"), starts):
            setattr(prog, nm_, st_)
    else:
        prog = RecurrentSelectionBreedingProgram(IO(), PS(), MO(), EO(), SO(), tmax, *starts)
    return prog, lb, starts, tmax


def one_trace(tid, nrep, ngen, loginit, lrep0, via_initop, rng, script=None):
    rec = Recorder(None, rng, script)
    try:
        prog, lb, starts, tmax = build(rec, nrep, ngen, loginit, lrep0, via_initop, rng)
    except Exception as e:  # noqa: the programme could not even be constructed from valid arguments
        return {"tid": tid, "nrep": nrep, "ngen": ngen, "loginit": bool(loginit), "lrep0": lrep0, "tmax": 0, "initfp": [], "startids": [],
                "startmem": [], "ev": [], "exc": "construction: %s: %s" % (type(e).__name__, e), "via_initop": via_initop, "noconstruct": True}
    sids, smem, sfp = [], [], []
    for c in starts:
        a, b, f = rec.reg.cont(c)
        sids.append(a); smem.append(b); sfp.append(f)
    exc = None
    if not via_initop and rng.random() < 0.35:
        # the programme has been reset by hand and its WORKING state edited (or inspected and left dirty) before evolve() is
        # called: every replicate, the first one included, still starts from the stored initial state
        try:
            prog.reset()
            for s_ in SLOTS:
                w = getattr(prog, s_, None)
                if isinstance(w, dict):
                    w["dirty%d" % rng.randrange(10 ** 6)] = Box([rng.randrange(100)])
                    if "main" in w and rng.random() < 0.5:
                        w["main"].v.append(-1)
        except Exception:
            pass
    try:
        prog.evolve(nrep, ngen, lb, loginit=loginit)
    except Exception as e:  # noqa
        exc = "%s: %s" % (type(e).__name__, e)
    # final observation
    def observe_final():
        fin = [prog.start_genome, prog.start_geno, prog.start_pheno, prog.start_bval, prog.start_gmod]
        if all(isinstance(c, dict) for c in fin):
            ids, mems, fps = [], [], []
            for c in fin:
                a, b, f = rec.reg.cont(c)
                ids.append(a); mems.append(b); fps.append(f)
            rec.ev.append({"call": "final", "rep": int(lb.rep), "t": int(prog.t_cur), "tmax": int(prog.t_max), "mcfg": 0,
                           "recv": ids, "mem": mems, "fp": fps, "ret": ids, "retmem": mems, "retfp": fps,
                           "retmcfg": 0, "misc": 0, "retmisc": 0, "sfp": fps, "k": 0})
    observe_final()
    more = []
    if exc is None and script is None and rng.random() < 0.45:
        # the other public entry points, called directly on the programme after evolve() has returned: advance(k) continues from the
        # time the programme stands at; reset() puts fresh copies of the start in place and the time back to 0
        try:
            for _ in range(rng.randrange(1, 3)):
                if rng.random() < 0.35 and int(prog.t_cur) > 0:
                    prog.reset()
                    work = [getattr(prog, s_) for s_ in SLOTS]
                    if all(isinstance(c, dict) for c in work):
                        ids, mems, fps = [], [], []
                        for c in work:
                            a, b, f = rec.reg.cont(c)
                            ids.append(a); mems.append(b); fps.append(f)
                        rec.ev.append({"call": "reset", "rep": int(lb.rep), "t": int(prog.t_cur), "tmax": int(prog.t_max), "mcfg": 0,
                                       "recv": ids, "mem": mems, "fp": fps, "ret": ids, "retmem": mems, "retfp": fps,
                                       "retmcfg": 0, "misc": 0, "retmisc": 0, "sfp": rec.start_fp(), "k": 0})
                        more.append("reset"); observe_final()
                k = rng.randrange(1, 3)
                z5 = [0] * 5
                rec.ev.append({"call": "advance", "rep": int(lb.rep), "t": int(prog.t_cur), "tmax": int(prog.t_max), "mcfg": 0,
                               "recv": z5, "mem": [[]] * 5, "fp": z5, "ret": z5, "retmem": [[]] * 5, "retfp": z5,
                               "retmcfg": 0, "misc": 0, "retmisc": 0, "sfp": rec.start_fp(), "k": k})
                prog.advance(k, lb)
                more.append("advance(%d)" % k); observe_final()
        except Exception as e:  # noqa
            exc = "direct %s: %s: %s" % (more[-1] if more else "call", type(e).__name__, e)
    return {"tid": tid, "nrep": nrep, "ngen": ngen, "loginit": bool(loginit), "lrep0": lrep0, "tmax": tmax,
            "initfp": sfp, "startids": sids, "startmem": smem, "ev": rec.ev, "exc": exc,
            "via_initop": via_initop, "more": more}


def run(ctx):
    rng = random.Random(ctx.seed)
    thorough = ctx.tier == "thorough"
    ctx.rule = ("Apalache proves an inductive invariant of the same actions for unbounded replicate / generation counts; "
                "TLC model-checks the loop skeleton with environment operators that keep/mutate/replace every state "
                "slot; TLC-simulated behaviours are replayed through the real evolve() with scripted instrumented "
                "operators, random ones are added; every recorded call trace is validated by TLC (BreedingLoop_Trace); "
                "a trace is non-trivial if it has >=2 replicates and at least one in-place mutation; distinct by "
                "(nrep, ngen, loginit, outcome sequence)")
    ctx.assume("operators and logbook are instrumented subclasses handed to the real programme (no in-repo hook)",
               "state containers are dicts of small mutable member objects; content equality = equal fingerprints",
               "BeginRep/Reset/Tick are unlogged (silent) spec steps inferred by TLC")
    # 1. model checking: intended design passes, wrong reset variants must be caught by the invariants
    r = tlc.run("BreedingLoop_MC", "BreedingLoop_deep.cfg", coverage=True, timeout=900)
    tlc.must_pass(r, "deep"); ctx.add_tlc(r, "BreedingLoop_deep.cfg")
    if r.violated:
        ctx.violation("spec:BreedingLoop:" + r.violated, "TLC: %s violated (design-level)" % r.violated, r.error)
    for a in ("BeginRep", "Reset", "OpCall", "LogCall", "Tick0", "Tick", "Finished"):
        if r.coverage.get(a, (0, 0))[1] == 0:
            raise tlc.TLCFailure("vacuous: action %s never taken" % a)
    for v in ("shallow", "alias"):
        rv = tlc.run("BreedingLoop_MC", "BreedingLoop_%s.cfg" % v, timeout=900)
        ctx.add_tlc(rv, "BreedingLoop_%s.cfg (expected counterexample)" % v)
        if rv.violated != "StartNeverModified":
            raise tlc.TLCFailure("non-vacuity demonstration failed: ResetMode=%s did not violate StartNeverModified" % v)
    # 1b. unbounded: Apalache discharges an inductive invariant for ANY number of replicates and generations
    from .. import apalache
    from concurrent.futures import ThreadPoolExecutor
    obligations = (("base: IndInit => IndInv", "IndInit", "IndInv", "NextDeep", 0, "NoError"),
                   ("step: IndInv /\\ Next => IndInv'", "IndInv", "IndInv", "NextDeep", 1, "NoError"),
                   ("consequence: IndInv => the five invariants of BreedingLoop", "IndInv", "Safety", "NextDeep", 0, "NoError"),
                   ("non-vacuity: a shallow reset reaches a modified start within 4 steps", "IndInit", "Safety", "NextShallow", 4, "Error"))
    with ThreadPoolExecutor(max_workers=4) as ex:
        futs = [ex.submit(apalache.check, "BreedingLoop_Apa", o[1], o[2], o[3], o[4]) for o in obligations]
        apa = [f.result() for f in futs]
    for o, a in zip(obligations, apa):
        a["obligation"] = o[0]; a["expected"] = o[5]
        if a["outcome"] != o[5]:
            if o[5] == "NoError":
                ctx.violation("spec:BreedingLoop:unbounded:" + o[2], "Apalache: %s fails (design-level, unbounded counters)" % o[0], a)
            else:
                raise tlc.TLCFailure("non-vacuity demonstration failed (Apalache): " + o[0])
    ctx.extra["apalache_unbounded"] = apa
    # 2. spec -> code: behaviours generated by TLC simulation
    num = 150 if thorough else 40
    g = tlc.run("BreedingLoop_MC", "BreedingLoop_gen.cfg", simulate="num=%d" % num, depth=200, workers=1,
                seed=ctx.seed % 100000, timeout=900)
    tlc.must_pass(g, "gen")
    if not g.json:
        raise tlc.TLCFailure("no behaviours generated")
    traces = []
    tid = 0
    for b in g.json:
        script = [h["oc"] for h in b["hist"] if h["call"] in ("evalinit", "pselect", "mate", "evaluate", "sselect")]
        tid += 1
        traces.append(one_trace(tid, b["nrep"], b["ngen"], b["loginit"], rng.choice([0, 0, 3]), rng.random() < 0.3,
                                rng, script))
    n_scripted = len(traces)
    # 3. code -> spec: random operators, sizes beyond the model's bounds
    nrand = 150 if thorough else 50
    for _ in range(nrand):
        tid += 1
        nrep = rng.choice([1, 2, 3, 4, 6]); ngen = rng.choice([0, 1, 2, 3, 5, 8])
        traces.append(one_trace(tid, nrep, ngen, rng.random() < 0.6, rng.choice([0, 1, 7]), rng.random() < 0.3, rng))
    for t in traces:
        if t["exc"]:
            ctx.violation("RecurrentSelectionBreedingProgram.evolve:exception", "evolve raised %s" % t["exc"],
                          {k: t[k] for k in ("nrep", "ngen", "loginit")})
    traces = [t for t in traces if not t.get("noconstruct")]        # (reported above; there is no trace to validate)
    verd = cases.validate(ctx, "BreedingLoop_Trace", "BreedingLoop_Trace.cfg",
                          [dict(t, id=t["tid"]) for t in traces], "BreedingLoop_Trace", chunk=20, procs=12,
                          tag="TRACE")
    ctx.traces += len(traces)
    ctx.extra["scripted_from_tlc"] = n_scripted
    for t in traces:
        matched, length = verd[t["tid"]]
        mut = sum(1 for e in t["ev"] if e["fp"] != e["retfp"])
        ctx.count(1, (t["nrep"], t["ngen"], t["loginit"], tuple(e["retfp"][0] for e in t["ev"]))
                  if t["nrep"] >= 2 and mut else None)
        if matched != length or length != len(t["ev"]):
            k = min(matched, len(t["ev"]) - 1)
            e = t["ev"][k] if t["ev"] else {}
            ctx.violation("RecurrentSelectionBreedingProgram.evolve:trace-rejected@%s" % e.get("call"),
                          "TLC matched %d of %d events; first unexplained event: call=%s rep=%s t=%s" % (
                              matched, length, e.get("call"), e.get("rep"), e.get("t")),
                          {"trace": {k2: t[k2] for k2 in t if k2 != "ev"}, "event_index": k, "event": e,
                           "prev": t["ev"][k - 1] if k else None})
    s = traces[0]
    ctx.sample({"nrep": s["nrep"], "ngen": s["ngen"], "loginit": s["loginit"], "events": len(s["ev"]),
                "first_events": [{k: e[k] for k in ("call", "rep", "t", "recv", "ret", "fp", "retfp")} for e in s["ev"][:4]],
                "verdict": verd[s["tid"]]})
