"""C13 relationship matrices (spec/Coancestry*.tla)."""
import importlib, random
from fractions import Fraction
import numpy as np
from .. import tlc, cases
from ..core import time_limit, Unchanged

LIM = 20000


def rat(x, ok):
    f = Fraction(float(x)).limit_denominator(LIM)
    if abs(float(f) - float(x)) > 1e-9 * max(1.0, abs(float(x))) or not np.isfinite(x):
        ok[0] = False
        return [0, 1]
    return [f.numerator, f.denominator]


def cls_of(est):
    name = {"molecular": "DenseMolecularCoancestryMatrix", "vanraden": "DenseVanRadenCoancestryMatrix",
            "yang": "DenseYangCoancestryMatrix", "weighted": "DenseGeneralizedWeightedCoancestryMatrix"}[est]
    return getattr(importlib.import_module("pybrops.popgen.cmat." + name), name), name


def make_gmat(X, pl, phased, rng):
    from pybrops.popgen.gmat.DenseGenotypeMatrix import DenseGenotypeMatrix
    from pybrops.popgen.gmat.DensePhasedGenotypeMatrix import DensePhasedGenotypeMatrix
    n, m = X.shape
    taxa = np.array(["tx%02d" % rng.randrange(50) for _ in range(n)], dtype=object)
    grp = np.array([rng.randrange(3) for _ in range(n)], dtype="int64")
    if phased and pl == 2:
        a = np.zeros((2, n, m), dtype="int8")
        for i in range(n):
            for l in range(m):
                if X[i, l] == 2:
                    a[:, i, l] = 1
                elif X[i, l] == 1:
                    a[rng.randrange(2), i, l] = 1
        return DensePhasedGenotypeMatrix(a, taxa=taxa, taxa_grp=grp)
    return DenseGenotypeMatrix(X.astype("int8"), taxa=taxa, taxa_grp=grp, ploidy=pl)


def one(cid, est, rng, big, wide=False):
    Cls, name = cls_of(est)
    pl = (1 if rng.random() < 0.5 else 2) if est == "molecular" else 2
    if big:
        n = rng.randrange(4, 31); m = rng.randrange(2, 11)
    else:
        n = rng.randrange(1, 4); m = rng.randrange(1, 4)
    if wide:                       # marker panels wider than a signed byte can count (sums of products exceed 127)
        n = rng.randrange(2, 4); m = rng.choice([130, 200, 300])
    mode = rng.choice(["estimated", "array", "scalar"]) if est != "molecular" else "none"
    if mode == "estimated" and ((est == "yang" and n > 3) or n > 12):
        mode = "array"
    if wide and mode == "estimated":
        mode = "scalar"
    X = np.array([[rng.randrange(pl + 1) for _ in range(m)] for _ in range(n)])
    if wide:
        X = np.array([[rng.choice([0, pl, pl, pl, 1 if pl == 2 else 0]) for _ in range(m)] for _ in range(n)])
    c = {"id": cid, "est": est, "cls": name, "pl": pl, "mode": mode, "w": [1] * m, "c": [1] * m, "D": 2, "err": None}
    kw = {}
    if est != "molecular":
        if mode == "estimated":
            cc = X.sum(0); D = pl * n
            if est == "yang" and np.any((cc == 0) | (cc == D)):
                X[0, :] = 0; X[-1, :] = pl if n > 1 else 1
                if n == 1:
                    mode = "array"
                cc = X.sum(0)
            if est == "vanraden" and np.all((cc == 0) | (cc == D)):
                X[0, 0] = (X[0, 0] + 1) % (pl + 1); cc = X.sum(0)
                if np.all((cc == 0) | (cc == D)):
                    mode = "array"
        if mode == "estimated":
            c["c"] = [int(v) for v in X.sum(0)]; c["D"] = int(pl * n)
        elif mode == "array":
            opts = [1, 2, 3] if est == "yang" else [0, 1, 2, 3, 4]
            cc = [rng.choice(opts) for _ in range(m)]
            if est == "vanraden" and all(v in (0, 4) for v in cc):
                cc[0] = 2
            c["c"] = cc; c["D"] = 4
            kw["afreq" if est == "weighted" else "p_anc"] = np.array(cc, dtype=float) / 4.0
        else:
            k = rng.choice([1, 2, 3])
            c["c"] = [k] * m; c["D"] = 4
            kw["afreq" if est == "weighted" else "p_anc"] = k / 4.0
        if est == "weighted":
            wmode = rng.choice(["none", "array", "scalar"])
            if wmode == "array":
                wdt = rng.choice(["float64", "float64", "int64", "int8", "bool", "float32"])   # weights are multiplicities / inclusion masks as often as reals
                c["w"] = [rng.randrange(0, 2 if wdt == "bool" else 3) for _ in range(m)]; kw["mkrwt"] = np.array(c["w"], dtype=wdt)
            elif wmode == "scalar":
                c["w"] = [2] * m; kw["mkrwt"] = 2.0
    c["X"] = X.tolist()
    gm = make_gmat(X, pl, rng.random() < 0.5, rng)
    if rng.random() < 0.5:
        # the genotype matrix handed to the estimator is itself a SELECTION (here: a permutation) of the one that was built:
        # the relationship matrix of permuted taxa is the permuted relationship matrix, labels included
        pm = list(range(n)); rng.shuffle(pm)
        gm = gm.select_taxa(np.array(pm)) if rng.random() < 0.7 else gm.select(np.array(pm), axis=gm.taxa_axis)
        X = X[pm]; c["X"] = X.tolist(); c["selected"] = True
    taxa0 = list(gm.taxa); grp0 = list(gm.taxa_grp)          # the labels the rows of X carry
    if rng.random() < 0.4 and n >= 2:
        # the genotype matrix has been used before: another relationship matrix was built from it and then reordered /
        # sorted / grouped IN PLACE (nothing done to that matrix may reach back into its source)
        try:
            e0 = rng.choice(["molecular", "vanraden", "yang", "weighted"])
            C0 = cls_of(e0)[0]
            kw0 = {} if e0 == "molecular" else {("afreq" if e0 == "weighted" else "p_anc"): 0.5}
            first = C0.from_gmat(gm, **kw0)
            pm = list(range(n)); rng.shuffle(pm)
            how = rng.choice(["reorder_taxa", "sort_taxa", "group_taxa", "reorder"])
            if how == "reorder_taxa":
                first.reorder_taxa(np.array(pm))
            elif how == "reorder":
                first.reorder(np.array(pm), axis=0) if "axis" in first.reorder.__code__.co_varnames else first.reorder_taxa(np.array(pm))
            else:
                getattr(first, how)()
            c["reused"] = "%s:%s" % (e0, how)
        except Exception as e:
            c["reused"] = "failed: %s" % type(e).__name__
    use_factory = est in ("molecular", "vanraden") and rng.random() < 0.3
    guard = Unchanged(genotype_matrix=gm, **{k_: v_ for k_, v_ in kw.items() if isinstance(v_, np.ndarray)})
    try:
        with time_limit(30), np.errstate(all="ignore"):
            if use_factory:
                F = getattr(importlib.import_module("pybrops.popgen.cmat.fcty.%sFactory" % name), name + "Factory")
                obj = F().from_gmat(gm, **kw)
            else:
                obj = Cls.from_gmat(gm, **kw)
            if rng.random() < 0.5:
                # the caller uses its argument arrays (reference frequencies, marker weights) again: the recorded matrix is the one of
                # the SECOND call with the very same argument objects
                obj = (F().from_gmat(gm, **kw) if use_factory else Cls.from_gmat(gm, **kw)); c["argreuse"] = True
            G = np.asarray(obj.mat_asformat("coancestry"), dtype=float); K = np.asarray(obj.mat_asformat("kinship"), dtype=float)
            ok = [True]
            c["G"] = [[rat(G[a, b], ok) for b in range(n)] for a in range(n)]
            c["K"] = [[rat(K[a, b], ok) for b in range(n)] for a in range(n)]
            c["glat"] = ok[0]
            c["sym"] = bool(np.array_equal(G, G.T))
            c["taxaok"] = bool(obj.taxa is not None and list(obj.taxa) == taxa0 and list(gm.taxa) == taxa0)
            c["grpok"] = bool(obj.taxa_grp is not None and list(obj.taxa_grp) == grp0 and list(gm.taxa_grp) == grp0)
            # summaries against direct linear algebra on the matrix (numerical, see assumptions)
            num = []
            if abs(obj.max() - G.max()) > 1e-12 or abs(obj.min() - G.min()) > 1e-12 or abs(obj.mean() - G.mean()) > 1e-12:
                num.append("max-min-mean")
            # (format names are accepted in any letter case)
            kin = rng.choice(["kinship", "kinship", "Kinship", "KINSHIP"]); coa = rng.choice(["coancestry", "Coancestry", "COANCESTRY"])
            if abs(obj.max(format=kin) - 0.5 * G.max()) > 1e-12 or abs(obj.mean(format=kin) - 0.5 * G.mean()) > 1e-12 or abs(obj.min(format=kin) - 0.5 * G.min()) > 1e-12:
                num.append("kinship-summaries")
            if abs(obj.max(format=coa) - G.max()) > 1e-12 or abs(obj.mean(format=coa) - G.mean()) > 1e-12 or abs(obj.min(format=coa) - G.min()) > 1e-12 \
                    or not np.array_equal(np.asarray(obj.mat_asformat(kin.capitalize())), K) or not np.array_equal(np.asarray(obj.mat_asformat(coa)), G):
                num.append("format-name-letter-case")
            if abs(obj.max_inbreeding() - G.diagonal().max()) > 1e-12:
                num.append("max-inbreeding")
            if np.linalg.matrix_rank(G) == n and np.linalg.cond(G) < 1e8:
                Gi = np.asarray(obj.inverse(), dtype=float)
                if np.max(np.abs(G @ Gi - np.eye(n))) > 1e-6:
                    num.append("inverse")
                if abs(obj.min_inbreeding() - 1.0 / np.linalg.inv(G).sum()) > 1e-6 * max(1.0, abs(1.0 / np.linalg.inv(G).sum())):
                    num.append("min-inbreeding")
                Gk = np.asarray(obj.inverse(format="kinship"), dtype=float)
                if np.max(np.abs((0.5 * G) @ Gk - np.eye(n))) > 1e-6:
                    num.append("inverse-kinship")
                if n >= 2:
                    # the summaries were queried; the matrix is now changed IN PLACE (reordered, jittered) and queried again: they
                    # describe the matrix as it is now
                    pm_ = list(range(n)); rng.shuffle(pm_)
                    obj.reorder_taxa(np.array(pm_))
                    G2 = np.asarray(obj.mat_asformat("coancestry"), dtype=float)
                    if np.max(np.abs(G2 @ np.asarray(obj.inverse(), dtype=float) - np.eye(n))) > 1e-6:
                        num.append("inverse-after-in-place-reorder")
                    if abs(obj.min_inbreeding() - 1.0 / np.linalg.inv(G2).sum()) > 1e-6 * max(1.0, abs(1.0 / np.linalg.inv(G2).sum())):
                        num.append("min-inbreeding-after-in-place-reorder")
                    if abs(obj.max_inbreeding() - G2.diagonal().max()) > 1e-12 or abs(obj.mean() - G2.mean()) > 1e-12:
                        num.append("summaries-after-in-place-reorder")
            ev = np.linalg.eigvalsh((G + G.T) / 2.0)
            if ev.min() < -1e-9 * max(1.0, abs(np.trace(G))):
                num.append("not-positive-semidefinite")
            ch = guard.changed()
            if ch:
                num.append("arguments-modified:" + ",".join(ch))
            c["numeric"] = num
    except Exception as e:
        c["err"] = "%s: %s" % (type(e).__name__, str(e)[:160])
    for k, d in (("G", [[[0, 1]] * n] * n), ("K", [[[0, 1]] * n] * n), ("glat", False), ("sym", False), ("taxaok", False), ("grpok", False), ("numeric", [])):
        c.setdefault(k, d)
    return c


def run(ctx):
    rng = random.Random(ctx.seed)
    thorough = ctx.tier == "thorough"
    ctx.rule = ("TLC checks closed form = identity-by-state definition, symmetry, self-coancestry range and a finite PSD witness for "
                "all genotype sets of <=3 individuals x <=2 markers (ploidy 1 and 2); matrices from the four real classes and two "
                "factories (phased/unphased, estimated/array/scalar reference frequencies, weights, both formats) on enumerably "
                "small and random larger genotype sets are logged as rationals and validated entry by entry by TLC; summaries and "
                "the PSD clause beyond TLC's reach are compared numerically; distinct by (estimator, genotypes, frequencies, weights)")
    ctx.assume("observed entries are converted to rationals with Fraction.limit_denominator(20000) and a 1e-9 residual check",
               "inverse / min_inbreeding / max / min / mean / PSD are compared with numpy linear algebra in the harness (TLC has no reals)",
               "Yang: reference frequencies strictly inside (0,1); VanRaden: at least one polymorphic marker")
    r = tlc.run("Coancestry", "Coancestry_MC.cfg", timeout=2000)
    tlc.must_pass(r, "Coancestry_MC"); ctx.add_tlc(r, "Coancestry_MC.cfg")
    if r.violated:
        ctx.violation("spec:Coancestry:" + r.violated, "TLC: %s violated" % r.violated, r.error)
    allc = []
    ests = ["molecular", "vanraden", "yang", "weighted"]
    for k in range(600 if thorough else 240):
        allc.append(one(len(allc) + 1, ests[k % 4], rng, big=False))
    for k in range(600 if thorough else 240):
        allc.append(one(len(allc) + 1, ests[k % 4], rng, big=True))
    for k in range(24 if thorough else 8):
        allc.append(one(len(allc) + 1, ests[k % 4], rng, big=True, wide=True))
    verd = cases.validate(ctx, "Coancestry_Trace", "Coancestry_Trace.cfg",
                          [{k: v for k, v in c.items() if k not in ("numeric", "mode", "cls")} for c in allc],
                          "Coancestry_Trace", chunk=25, procs=14)
    ctx.traces += len(allc)
    for c in allc:
        v = verd[c["id"]]
        ctx.count(1, repr((c["est"], c["X"], c["c"], c["D"], c["w"])) if len(c["X"]) >= 2 else None)
        if v != "ok":
            ctx.violation("%s.from_gmat:%s" % (c["cls"], v), "TLC verdict %s (ploidy %d, %s frequencies)%s" % (
                v, c["pl"], c["mode"], " -- " + c["err"] if c["err"] else ""), {k: c[k] for k in c if k not in ("K",)})
        for nm in c["numeric"]:
            ctx.violation("%s:%s" % (c["cls"], nm), "numerical comparison failed: %s" % nm, {"X": c["X"], "est": c["est"]})
    ctx.sample({k: allc[1][k] for k in ("est", "X", "pl", "c", "D", "G")} | {"verdict": verd[allc[1]["id"]]})
