"""C03 labels stay attached under every operation history (spec/LabelledMatrix*.tla)."""
import copy, random
import numpy as np
from .. import tlc, cases, lm
from ..core import time_limit

import itertools as _it
_AFTER_GROUP = _it.count()
OPS = ["select", "delete", "insert", "adjoin", "concat", "reorder", "sort", "group", "ungroup", "lexsort"]


def pick_args(op, n, rng):
    """arguments with numpy's meaning for an axis of current length n"""
    if op == "select":
        r = rng.random()
        if r < 0.25 and n >= 2:
            # a resample of the whole axis: as many indices as entities, at least one of them repeated (bootstrap)
            ix = [rng.randrange(n) for _ in range(n)]
            ix[rng.randrange(n)] = ix[(rng.randrange(n - 1) + 1 + ix.index(ix[0])) % n] if len(set(ix)) == n else ix[0]
            if len(set(ix)) == n:
                ix[-1] = ix[0]
            return {"ix": ix}
        k = rng.randrange(1, min(n, 4) + 2)
        return {"ix": [rng.randrange(-n, n) for _ in range(k)]}
    if op == "reorder":
        p = list(range(n)); rng.shuffle(p)
        if rng.random() < 0.4:            # the same permutation written with negative (from-the-end) indices
            p = [x - n if rng.random() < 0.5 else x for x in p]
        return {"ix": p}
    if op == "delete":
        form = rng.choice(["int", "list", "slice", "mask", "neg"])
        if n == 1:
            return None
        if form == "int":
            o = rng.randrange(n)
        elif form == "neg":
            o = -rng.randrange(1, n + 1)
        elif form == "list":
            o = sorted(set(rng.randrange(n) for _ in range(rng.randrange(1, n))))
        elif form == "slice":
            a = rng.randrange(n); b = rng.randrange(a + 1, n + 1)
            o = slice(a, b, rng.choice([None, 1, 2]))
        else:
            o = np.array([rng.random() < 0.4 for _ in range(n)])
        dele = sorted(set(int(x) for x in np.atleast_1d(np.arange(n)[o])))
        if len(dele) == 0 or len(dele) == n:
            return None
        return {"obj": o, "del": dele, "objrepr": repr(o)}
    if op == "insert":
        m = rng.randrange(1, 3)
        blk = [rng.randrange(lm.NID) for _ in range(m)]
        pos = sorted(rng.randrange(0, n + 1) for _ in range(m))
        return {"pos": pos, "blk": blk, "raw": rng.random() < 0.3}
    if op == "adjoin":
        return {"blk": [rng.randrange(lm.NID) for _ in range(rng.randrange(1, 3))], "raw": rng.random() < 0.3}
    if op == "concat":
        return {"blks": [[rng.randrange(lm.NID) for _ in range(rng.randrange(1, 3))] for _ in range(rng.randrange(1, 3))]}
    return {}


def can_sort(state, a):
    lab = state["lab"][a]
    if a == "taxa":
        return lab["name"]["on"] or lab["grp"]["on"]
    if a == "vrnt":
        return lab["chr"]["on"] or lab["pos"]["on"]
    return lab["name"]["on"]


def genotype_step(ctx, cur, pre, kind, presence, rng, out, hid, step, which=None, invert=None):
    """genotyping protocols as operations on the variant axis: the genotyped matrix is the selection of the unmasked
    variants (all variants for the plain protocol), every label array and any reported grouping must describe it"""
    from pybrops.breed.prot.gt.DenseUnphasedGenotyping import DenseUnphasedGenotyping
    from pybrops.breed.prot.gt.DenseMaskedUnphasedGenotyping import DenseMaskedUnphasedGenotyping
    from pybrops.breed.prot.gt.DenseMaskedPhasedGenotyping import DenseMaskedPhasedGenotyping
    nv = len(pre["ax"]["vrnt"])
    mask_on = pre["lab"]["vrnt"]["mask"]["on"]
    which = rng.choice(["plain", "masked-unphased", "masked-phased"]) if which is None else which
    invert = (rng.random() < 0.5) if invert is None else invert
    if which == "plain" or not mask_on:
        ix = list(range(nv)); prot = DenseUnphasedGenotyping(); name = "DenseUnphasedGenotyping.genotype"; okind = "TV"
        if which != "plain":
            prot = (DenseMaskedUnphasedGenotyping if which == "masked-unphased" else DenseMaskedPhasedGenotyping)(invert=invert)
            name = type(prot).__name__ + ".genotype[mask absent]"; okind = "TV" if which == "masked-unphased" else "PTV"
    else:
        mk = [bool(x) for x in pre["lab"]["vrnt"]["mask"]["v"]]
        ix = [k for k in range(nv) if mk[k] != invert]
        prot = (DenseMaskedUnphasedGenotyping if which == "masked-unphased" else DenseMaskedPhasedGenotyping)(invert=invert)
        name = type(prot).__name__ + ".genotype"; okind = "TV" if which == "masked-unphased" else "PTV"
    if not ix:
        return
    work = copy.deepcopy(cur)
    c = {"qual": name, "id": len(out) + 1, "hist": hid, "step": step, "cls": "DensePhasedGenotypeMatrix", "kind": okind, "presence": presence,
         "axis": "vrnt", "op": "select", "realop": "genotype:" + which, "form": "specific", "mut": False, "ix": ix, "del": [], "pos": [], "blk": [],
         "raw": False, "objrepr": "invert=%s" % invert, "pre": pre, "err": None, "lexsortok": True, "tab": lm.TAB}
    try:
        with time_limit(20):
            res = prot.genotype(work)
        if okind == "TV":
            # cells of the phased matrix are 64*phase + 8*taxon + variant; their sum over the two phases (modulo the int8
            # range) is 64 + 2*(8*taxon + variant): re-coded so that the projection can decode the entity ids
            m = np.asarray(res.mat).astype(np.int64) % 256
            res = copy.copy(res)
            res.mat = ((m - 64) // 2).astype("int8")
        c["post"] = lm.project(res, okind)
        c["opnd"] = lm.project(work, kind)
    except Exception as e:
        c["err"] = "%s: %s" % (type(e).__name__, str(e)[:200]); c["post"] = pre; c["opnd"] = pre
    out.append(c)


def run_history(ctx, clsname, presence, rng, nsteps, out, hid):
    cls, kind = lm.get_class(clsname)
    axes = lm.KINDS[kind][0]
    ax0 = {a: [rng.randrange(lm.NID) for _ in range(rng.randrange(1, 5))] for a in ("taxa", "vrnt", "trait")}
    for a in ("taxa", "vrnt", "trait"):
        if a not in axes:
            ax0[a] = []
    try:
        cur = lm.build(clsname, ax0, presence)
    except Exception as e:
        ctx.violation("%s.__init__:exception" % clsname, "%s: %s" % (type(e).__name__, e), {"ax": ax0, "presence": presence})
        return
    retained = []
    forced = None
    for step in range(nsteps):
        a = rng.choice(axes)
        op = rng.choice(OPS)
        if forced is not None:
            # a matrix that has just been grouped along an axis is next EDITED along that axis (adjoin / insert / delete and their in-place
            # counterparts append / incorp / remove): whatever grouping it reports afterwards must be true of the edited matrix
            a, op = forced; forced = None
        pre = lm.project(cur, kind)
        n = len(pre["ax"][a])
        if n == 0 or -1 in pre["ax"][a] or not pre["ok"]["cells"]:
            return
        if step > 0 and "taxa" in axes and rng.random() < 0.15 and getattr(cur, "taxa_grp", None) is not None and pre["ax"]["taxa"]:
            # the group labels of the taxa are RE-ASSIGNED through the taxa_grp property (a revised family assignment): from here on the
            # history is validated against the revised label table -- whatever grouping the matrix reported before no longer counts
            import copy as _cp
            newtab = _cp.deepcopy(lm.TAB)
            newtab["taxa"]["grp"] = [[5, 7, 9, 5, 7, 9, 5, 7], [1, 1, 4, 4, 2, 2, 8, 8], [3, 2, 1, 0, -1, 3, 2, 1]][rng.randrange(3)]
            lm.TAB = newtab
            try:
                cur.taxa_grp = lm.label_array("taxa", "grp", pre["ax"]["taxa"])
            except Exception as e:
                ctx.violation("%s.taxa_grp:exception" % clsname, "%s: %s" % (type(e).__name__, e), {"ids": pre["ax"]["taxa"]})
                return
            a = "taxa"; op = "group" if rng.random() < 0.7 else op
            pre = lm.project(cur, kind); n = len(pre["ax"][a])
        if clsname == "DensePhasedGenotypeMatrix" and rng.random() < 0.2:
            genotype_step(ctx, cur, pre, kind, presence, rng, out, hid, step)
            continue
        if n > 7 and op in ("insert", "adjoin", "concat"):
            op = "delete"
        if op in ("sort", "group", "lexsort") and not can_sort(pre, a):
            continue
        if op in ("group", "ungroup") and a == "trait":
            continue
        args = pick_args(op, n, rng)
        if args is None:
            continue
        forms = ["specific", rng.choice(["generic+", "generic-"])]
        muts = [False, True] if op in lm.MUT else [op in ("reorder", "sort", "group", "ungroup", "lexsort")]
        results = []
        for form in forms:
            for mut in muts:
                work = copy.deepcopy(cur)
                mname = (lm.MUT.get(op, op) if mut else op) + ("_" + a if form == "specific" else "")
                try:
                    qual = getattr(cls, mname).__qualname__
                except Exception:
                    qual = clsname + "." + mname
                c = {"qual": qual, "id": len(out) + 1, "hist": hid, "step": step, "cls": clsname, "kind": kind, "presence": presence,
                     "axis": a, "op": op if op != "lexsort" else "sort", "realop": op, "form": form, "mut": bool(mut),
                     "ix": args.get("ix", []), "del": args.get("del", []), "pos": args.get("pos", []),
                     "blk": args.get("blk", [x for b in args.get("blks", []) for x in b]), "raw": bool(args.get("raw", False)),
                     "objrepr": args.get("objrepr", ""), "pre": pre, "err": None, "lexsortok": True, "tab": lm.TAB}
                try:
                    with time_limit(20):
                        res = lm.execute(work, clsname, a, op, args, form, mut, presence)
                    if isinstance(res, tuple) and res[0] == "indices":
                        post = copy.deepcopy(pre)
                        ix = res[1]
                        post["ax"][a] = [pre["ax"][a][k] for k in ix] if sorted(ix) == list(range(n)) else []
                        for f in lm.FIELDS[a]:
                            if post["lab"][a][f]["on"]:
                                post["lab"][a][f]["v"] = [pre["lab"][a][f]["v"][k] for k in ix] if sorted(ix) == list(range(n)) else []
                        post["meta"][a] = {"on": False, "parts": []}
                        c["post"] = post; c["opnd"] = lm.project(work, kind); c["mut"] = False
                    else:
                        c["post"] = lm.project(res, kind)
                        c["opnd"] = lm.project(work, kind) if not c["mut"] else c["post"]
                        results.append(res)
                except RecursionError as e:
                    c["err"] = "RecursionError"; c["post"] = pre; c["opnd"] = pre
                except Exception as e:
                    c["err"] = "%s: %s" % (type(e).__name__, str(e)[:200]); c["post"] = pre; c["opnd"] = pre
                out.append(c)
        if results and op != "lexsort":
            # live execution on the current object itself (the variants above worked on deep copies): objects derived
            # from one another may share arrays, so earlier objects are retained and re-projected after later steps
            backup = copy.deepcopy(cur)
            form = rng.choice(forms); mut = rng.choice(muts)
            try:
                with time_limit(20):
                    nxt = lm.execute(cur, clsname, a, op, args, form, mut, presence)
            except Exception:
                cur = backup
                continue
            p = lm.project(nxt, kind)
            same_presence = all(p["lab"][x][f]["on"] == pre["lab"][x][f]["on"] for x in axes for f in lm.FIELDS[x])
            if p["ok"]["cells"] and p["ok"]["square"] and all(len(p["ax"][x]) > 0 for x in axes) and same_presence \
                    and -1 not in p["ax"][a]:
                if nxt is not cur:
                    retained.append((cur, lm.project(cur, kind), "%s(form=%s)" % (op + "_" + a, form), step))
                    del retained[:-3]
                cur = nxt
                if op == "group" and a != "trait":
                    forced = (a, ("adjoin", "insert", "delete")[next(_AFTER_GROUP) % 3])
            else:
                cur = backup   # the result left the model's state space (a reported/known defect): continue from the old state
        # earlier objects must not have been changed by operations on objects derived from them
        for obj, snap, how, st0 in retained:
            now = lm.project(obj, kind)
            out.append({"qual": clsname + ".<retained>", "id": len(out) + 1, "hist": hid, "step": step, "cls": clsname, "kind": kind,
                        "presence": presence, "axis": a, "op": "alias", "realop": "alias:" + how, "form": "live", "mut": False,
                        "ix": [], "del": [], "pos": [], "blk": [], "raw": False, "objrepr": "retained at step %d, source of %s" % (st0, how),
                        "pre": snap, "post": now, "opnd": now, "err": None, "lexsortok": True, "tab": lm.TAB})


def run(ctx):
    rng = random.Random(ctx.seed)
    thorough = ctx.tier == "thorough"
    ctx.rule = ("TLC checks the group-cache invariant over all histories of the single-axis machine (pool of 4 entities with "
                "duplicated labels, length <=3) and exhibits the stale cache of the as-written reorder; random operation "
                "histories are run on 14 concrete classes in specific/generic(+/- axis)/mutating/non-mutating forms and every "
                "step is validated by TLC (entities, attached labels, presence, cache truth, operand immutability); "
                "non-trivial step: changes the axis content or order; distinct by (class, op, args, pre-state)")
    ctx.assume("index arguments are those numpy gives a meaning to (DESIGN Appendix A); scalar insert positions and "
               "None-filled name arrays as sort keys are outside the alphabet",
               "entity ids are decoded from injective cell codes; cross cells of adjoined square blocks hold the fill value")
    r = tlc.run("LabelledMatrix_MC", "LabelledMatrix_intended.cfg", coverage=True, timeout=1500)
    tlc.must_pass(r, "intended"); ctx.add_tlc(r, "LabelledMatrix_intended.cfg")
    if r.violated:
        ctx.violation("spec:LabelledMatrix:" + r.violated, "TLC: %s violated (design-level)" % r.violated, r.error)
    for act in ("OpSelect", "OpDelete", "OpInsert", "OpAppend", "OpReorder", "OpSort", "OpGroup", "OpUngroup"):
        if r.coverage.get(act, (0, 0))[1] == 0:
            raise tlc.TLCFailure("vacuous: %s never taken" % act)
    r2 = tlc.run("LabelledMatrix_MC", "LabelledMatrix_aswritten.cfg", timeout=600)
    ctx.add_tlc(r2, "LabelledMatrix_aswritten.cfg (expected counterexample: group -> reorder)")
    if r2.violated != "GroupedOK":
        raise tlc.TLCFailure("the as-written variant did not produce the stale-cache counterexample")
    out = []
    nh = 14 if thorough else 4
    steps = 14 if thorough else 10
    hid = 0
    for clsname in lm.CLASSES:
        for presence in lm.PRESENCE:
            for _ in range(nh if presence == "all" else max(1, nh // 3)):
                hid += 1
                lm.use_table("genome" if hid % 3 == 0 else "small")
                try:
                    run_history(ctx, clsname, presence, rng, steps, out, hid)
                finally:
                    lm.use_table("small")
    # genotyping protocols, systematically: sources with a mask, ungrouped and grouped along the variant axis (several
    # chromosomes with different numbers of masked-in and masked-out variants), every protocol with and without invert
    for rep in range(6 if thorough else 2):
        for grouped in (False, True):
            for which in ("plain", "masked-unphased", "masked-phased"):
                for invert in (False, True):
                    hid += 1
                    ax0 = {"taxa": [rng.randrange(lm.NID) for _ in range(rng.randrange(1, 4))],
                           "vrnt": [rng.randrange(lm.NID) for _ in range(rng.randrange(3, 8))], "trait": []}
                    try:
                        cur = lm.build("DensePhasedGenotypeMatrix", ax0, "all")
                        if grouped:
                            cur.group_vrnt()
                    except Exception as e:
                        ctx.violation("DensePhasedGenotypeMatrix.__init__:exception", "%s: %s" % (type(e).__name__, e), {"ax": ax0})
                        continue
                    kind = lm.get_class("DensePhasedGenotypeMatrix")[1]
                    pre = lm.project(cur, kind)
                    if -1 in pre["ax"]["vrnt"] or not pre["ok"]["cells"]:
                        continue
                    genotype_step(ctx, cur, pre, kind, "all", rng, out, hid, 0, which, invert)
    # matrices with MORE than two square taxa axes (three- / four-way variance matrices): reorder / sort / group in place,
    # axis-specific and generic; every taxa axis must follow the labels (cells encode the entity ids of all axes)
    for clsname in lm.CLASSES_MULTISQUARE:
        cls, kind = lm.get_class(clsname)
        for rep in range(6 if thorough else 3):
            for op in ("reorder", "sort", "group"):
                for form in ("specific", "generic+"):
                    hid += 1
                    n = rng.randrange(2, 4 if kind == "SQ4R" else 5)
                    ax0 = {"taxa": rng.sample(range(lm.NID), n), "vrnt": [], "trait": [rng.randrange(lm.NID) for _ in range(rng.randrange(1, 3))]}
                    try:
                        cur = lm.build(clsname, ax0, "all")
                    except Exception as e:
                        ctx.violation("%s.__init__:exception" % clsname, "%s: %s" % (type(e).__name__, e), {"ax": ax0}); continue
                    pre = lm.project(cur, kind)
                    if not pre["ok"]["cells"]:
                        raise tlc.TLCFailure("harness: cannot decode a freshly built %s" % clsname)
                    pm = list(range(n))
                    while pm == list(range(n)):
                        rng.shuffle(pm)
                    args = {"ix": pm} if op == "reorder" else {}
                    c = {"qual": "%s.%s%s" % (clsname, op, "_taxa" if form == "specific" else ""), "id": len(out) + 1, "hist": hid, "step": 0,
                         "cls": clsname, "kind": kind, "presence": "all", "axis": "taxa", "op": op, "realop": op, "form": form, "mut": True,
                         "ix": args.get("ix", []), "del": [], "pos": [], "blk": [], "raw": False, "objrepr": "", "pre": pre, "err": None,
                         "lexsortok": True, "tab": lm.TAB}
                    try:
                        with time_limit(20):
                            res = lm.execute(cur, clsname, "taxa", op, args, form, True, "all")
                        c["post"] = lm.project(res, kind); c["opnd"] = c["post"]
                    except Exception as e:
                        c["err"] = "%s: %s" % (type(e).__name__, str(e)[:200]); c["post"] = pre; c["opnd"] = pre
                    out.append(c)
    # raw blocks WITHOUT the optional name array adjoined / inserted into named matrices: the new entities carry no name (None); the mutating form (append, incorp) must leave the object in the state its non-mutating counterpart returns
    for clsname in lm.CLASSES:
        cls, kind = lm.get_class(clsname)
        if kind in ("SQ", "SQR"):
            continue                                   # square insertions are an open finding (one axis only)
        for a in lm.KINDS[kind][0]:
            if a == "trait":
                continue                               # a trait block without its trait names is not a valid argument
            for k, operand in [(kk, "raw") for kk in ((1, 2, 3) if thorough else (1, 3))] + [(2, "matrix+keywords"), (1, "matrix+keywords")]:
                for op in ("adjoin", "insert"):
                    for form in ("specific", "generic+"):
                        hid += 1
                        ax0 = {x: ([rng.randrange(lm.NID) for _ in range(rng.randrange(2, 4))] if x in lm.KINDS[kind][0] else []) for x in ("taxa", "vrnt", "trait")}
                        try:
                            cur = lm.build(clsname, ax0, "all")
                            bax = dict(ax0); bax[a] = [rng.randrange(lm.NID) for _ in range(k)]
                            blk = lm.build(clsname, bax, "all")
                        except Exception:
                            continue
                        pre0 = lm.project(cur, kind)
                        pos = rng.randrange(len(ax0[a]) + 1)
                        states = []
                        err = None
                        # the label arrays the library requires with a raw block are given; the optional NAME array is omitted
                        lkw = {}
                        if operand == "raw":
                            for f in lm.FIELDS[a]:
                                v = getattr(blk, lm.ATTR[(a, f)], None)
                                if v is not None and f != "name":
                                    lkw[lm.ATTR[(a, f)]] = v
                        else:
                            # the block is a labelled MATRIX and label arrays are given as keywords too ("providing this argument
                            # overwrites the field"): both forms must resolve the conflict the same way
                            other = [rng.randrange(lm.NID) for _ in range(k)]
                            for f in lm.FIELDS[a]:
                                if getattr(blk, lm.ATTR[(a, f)], None) is not None and f in ("name", "grp"):
                                    lkw[lm.ATTR[(a, f)]] = lm.label_array(a, f, other)
                        for mut in (False, True):
                            work = copy.deepcopy(cur)
                            name = (lm.MUT[op] if mut else op)
                            meth = getattr(work, name + "_" + a) if form == "specific" else getattr(work, name)
                            axkw = {} if form == "specific" else {"axis": getattr(work, a + "_axis")}
                            try:
                                with time_limit(20):
                                    posa = np.array([pos] * k, dtype=int)       # positions as an array, one per inserted entity (Appendix A)
                                    vals = np.array(blk.mat) if operand == "raw" else copy.deepcopy(blk)
                                    res = meth(posa, vals, **axkw, **lkw) if op == "insert" else meth(vals, **axkw, **lkw)
                                states.append(lm.project(work if mut else res, kind))
                            except Exception as e:
                                err = "%s: %s" % (type(e).__name__, str(e)[:200]); states.append(pre0)
                        out.append({"qual": "%s.%s%s[%s]" % (clsname, lm.MUT[op], "_" + a if form == "specific" else "",
                                                            "raw block without names" if operand == "raw" else "matrix operand with label keywords"),
                                    "id": len(out) + 1, "hist": hid, "step": 0, "cls": clsname, "kind": kind, "presence": "all", "axis": a,
                                    "op": "counterpart", "realop": op, "form": form, "mut": True, "ix": [], "del": [], "pos": [pos], "blk": bax[a],
                                    "raw": True, "objrepr": "k=%d" % k, "pre": states[0], "post": states[1], "opnd": states[1], "err": err,
                                    "lexsortok": True, "tab": lm.TAB})
    tl = []
    for c in out:
        d = {k: v for k, v in c.items()}
        tl.append(d)
    verd = cases.validate(ctx, "LabelledMatrix_Trace", "LabelledMatrix_Trace.cfg", tl, "LabelledMatrix_Trace",
                          chunk=150, procs=14)
    ctx.traces += len(out)
    ctx.extra["histories"] = hid
    nviol = {}
    for c in out:
        v, d1, d2 = verd[c["id"]]
        nt = c["pre"]["ax"][c["axis"]] != c.get("post", c["pre"])["ax"][c["axis"]]
        ctx.count(1, (c["cls"], c["realop"], repr(c["ix"]), repr(c["del"]), repr(c["pos"]), repr(c["blk"]),
                      repr(c["pre"]["ax"])) if nt else None)
        if v != "ok":
            key = "%s/%s@%s:%s" % (c["kind"], c["qual"], c["axis"], v)
            if d1 or d2:
                key += ":" + ".".join(x for x in (d1, d2) if x)
            if v == "exception-on-valid-arguments":
                key += ":" + (c["err"] or "").split(":")[0]
            ctx.violation(key, "TLC verdict %s on %s (form=%s mut=%s presence=%s)%s" % (
                v, c["cls"], c["form"], c["mut"], c["presence"], " -- " + c["err"] if c["err"] else ""),
                {k: c[k] for k in c if k not in ("tab",)})
    for c in out:
        if c["op"] == "insert" and verd[c["id"]][0] == "ok":
            ctx.sample({k: c[k] for k in ("cls", "axis", "op", "form", "mut", "pos", "blk")} |
                       {"pre_ax": c["pre"]["ax"], "post_ax": c["post"]["ax"], "verdict": "ok"}); break
