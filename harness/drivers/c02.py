"""C02 realised recombination matches the crossover probabilities (spec/MeiosisProb*.tla)."""
import itertools, math, random
import numpy as np
from .. import tlc, cases
from ..scripted_rng import Scripted
from .c01 import make_parents, PROTOS

K = 4
ZMAX = 5.5


def tagged_geno(ntaxa, L):
    g = np.empty((2, ntaxa, L), dtype="int8")
    for i in range(ntaxa):
        g[0, i, :] = 2 * i; g[1, i, :] = 2 * i + 1
    return g


def grid_cases(ctx, L, fns, cid0):
    """every (J, U) grid point replayed through the real meiosis with scripted dyadic draws"""
    out = []
    cid = cid0
    rows = [list(u) for u in itertools.product(range(K), repeat=L)]
    draws = np.array(rows, dtype=float) / K
    geno = tagged_geno(2, L)
    for fname, fn in fns.items():
        for J in itertools.product(range(K + 1), repeat=L):
            xoprob = np.array(J, dtype=float) / K
            sel = np.array([r % 2 for r in range(len(rows))], dtype=int)   # alternate two parents
            state = {"applied": 0, "other": 0}
            def uni(lo, hi, size, d=draws, state=state):
                if size is not None and tuple(np.atleast_1d(size)) == d.shape and lo == 0 and hi == 1:
                    state["applied"] += 1
                    return d.copy()
                if size is not None and tuple(np.atleast_1d(size)) == d.shape[::-1] and lo == 0 and hi == 1:
                    # a locus-major block: most likely read transposed.  The replay is used if it then agrees with the
                    # specification, otherwise it is inapplicable (any other mapping of iid draws is equally valid)
                    state["applied"] += 1; state["transposed"] = True
                    return d.T.copy()
                state["other"] += 1            # draw structure differs from the spec's: script inapplicable
                return np.random.RandomState(1).uniform(lo, hi, size)
            rng = Scripted(0, uniform=uni)
            cid += 1
            c = {"id": cid, "kind": "grid", "fn": fname, "J": list(J), "rows": rows}
            try:
                gam = np.asarray(fn(geno, sel, xoprob, rng))
                ok_parent = all((gam[r] // 2 == sel[r]).all() for r in range(len(rows)))
                c["src"] = (gam % 2).astype(int).tolist()
                if not ok_parent:
                    c["src"] = [[9] * L for _ in rows]
                if state["applied"] != 1 or state["other"]:
                    c["noscript"] = True
                if state.get("transposed"):
                    c["transposed"] = True
            except Exception as e:
                c["src"] = []; c["exc"] = "%s: %s" % (type(e).__name__, e)
            out.append(c)
    return out


def t_of(p):
    """1 - 2p as an exact rational for the probability classes used"""
    return {0.0: (1, 1), 0.5: (0, 1), 0.1: (4, 5), 0.25: (1, 2), 0.05: (9, 10), 0.2: (3, 5), 0.4: (1, 5)}[p]


def source_matrix(pkey, out_mat, row):
    """source copy (0/1) of the LAST meiosis for each progeny and locus, reconstructed from tags"""
    m = np.asarray(out_mat)
    c0 = m[0]          # first chromosome copy of each progeny (n, L)
    if pkey in ("sx", "2w", "3w"):
        return (c0 % 2).astype(int)                     # gamete of an inbred-tagged parent: tag parity
    if pkey == "2wdh":
        return (c0 // 2 != row[0]).astype(int)          # DH gamete of F1 (female copy / male copy)
    if pkey == "3wdh":
        return (c0 // 2 != row[0]).astype(int)          # DH gamete of BC: copy 0 from the recurrent parent
    if pkey == "4w":
        return (c0 // 2 != row[2]).astype(int)          # gamete of AB: copy 0 from column 3
    return np.isin(c0 // 2, [row[0], row[1]]).astype(int)   # 4wdh: gamete of dihybrid: copy 0 = AB (cols 3,4)


def run(ctx):
    rng = random.Random(ctx.seed)
    thorough = ctx.tier == "thorough"
    ctx.rule = ("TLC counts, for every crossover-probability vector on the grid (K=4), the draw vectors producing each event "
                "and checks the exact identities (adjacent = xoprob, Haldane composition, independence, segregation, "
                "assortment); every (J,U) grid point is replayed through the real meiosis functions with scripted draws "
                "and validated by TLC; statistical sanity with real generators through all protocols uses TLC-computed "
                "exact probabilities; non-trivial grid case: some 0<J<K; distinct by (function,J)")
    ctx.assume("numpy generators produce iid U[0,1) draws (trusted)",
               "statistical sub-check: |z| <= 5.5 per statistic, one independent re-test with 4x sample before reporting",
               "non-adjacent clause asserted for Haldane-composed probabilities")
    cfg = "MeiosisProb_MCT.cfg" if thorough else "MeiosisProb_MC.cfg"
    r = tlc.run("MeiosisProb", cfg, timeout=3000)
    tlc.must_pass(r, cfg); ctx.add_tlc(r, cfg)
    if r.violated:
        ctx.violation("spec:MeiosisProb:" + r.violated, "TLC: %s violated (design-level)" % r.violated, r.error)
    rl = tlc.run("MeiosisProb", "MeiosisProb_le.cfg", timeout=600)
    ctx.add_tlc(rl, "MeiosisProb_le.cfg (expected counterexample)")
    if rl.violated is None:
        raise tlc.TLCFailure("non-vacuity: the <= variant was not rejected by the counting invariants")

    from pybrops.breed.prot.mate.util import mat_meiosis
    from pybrops.core.util.mate import dense_meiosis
    fns = {"breed.prot.mate.util.mat_meiosis": mat_meiosis, "core.util.mate.dense_meiosis": dense_meiosis}
    L = 4 if thorough else 3
    allc = grid_cases(ctx, L, fns, 0)
    ngrid = len(allc)

    # ---- statistical sanity: real PCG64 / MT19937 streams through every protocol and the raw functions
    import importlib
    stat = []
    n = 60000 if thorough else 20000
    layouts = [[0.5, 0.1, 0.25, 0.5, 0.1], [0.5, 0.25, 0.0, 0.5], [0.5, 0.4, 0.2, 0.05, 0.5, 0.5]]
    cid = ngrid
    def add_stat(name, xoprob, srcfun):
        nonlocal cid
        cid += 1
        Lx = len(xoprob)
        pairs = [[a, b] for a in range(1, Lx + 1) for b in range(a + 1, Lx + 1)]
        stat.append({"id": cid, "kind": "stat", "name": name, "t": [list(t_of(p)) for p in xoprob], "pairs": pairs,
                     "xoprob": xoprob, "run": srcfun})
    for xoprob in layouts:
        Lx = len(xoprob)
        for fname, fn in fns.items():
            def runraw(nn, seed, fn=fn, xoprob=xoprob, Lx=Lx):
                g = np.random.default_rng(seed)
                gam = fn(tagged_geno(1, Lx), np.zeros(nn, dtype=int), np.array(xoprob), g)
                return (np.asarray(gam) % 2).astype(int)
            add_stat(fname, xoprob, runraw)
    # one call that is large in both directions (20000 gametes x 450 loci = 9 million draws): implementations that
    # process the loci or the gametes in blocks must carry the phase across every block boundary; all adjacent intervals
    lrng = random.Random(ctx.seed + 17)
    big = [0.5 if l % 150 == 0 else lrng.choice([0.05, 0.1, 0.2, 0.25, 0.4, 0.0, 0.05]) for l in range(450)]
    for fname, fn in fns.items():
        def runbig(nn, seed, fn=fn, xoprob=big):
            g = np.random.default_rng(seed)
            gam = fn(tagged_geno(1, len(xoprob)), np.zeros(20000, dtype=int), np.array(xoprob), g)
            return (np.asarray(gam) % 2).astype(int)
        cid += 1
        stat.append({"id": cid, "kind": "stat", "name": fname + "[20000x450]", "t": [list(t_of(p)) for p in big],
                     "pairs": [[a, a + 1] for a in range(1, len(big))], "xoprob": big, "run": runbig})
    for pkey in PROTOS:
        xoprob = layouts[list(PROTOS).index(pkey) % len(layouts)]
        cls_name, npar = PROTOS[pkey]
        cls = getattr(importlib.import_module("pybrops.breed.prot.mate." + cls_name), cls_name)
        row = [0, 1, 2, 3][:npar]
        def runp(nn, seed, cls=cls, pkey=pkey, xoprob=xoprob, row=row):
            g = np.random.default_rng(seed)
            pg = make_parents(4, len(xoprob), xoprob, random.Random(1))
            out = cls(rng=g).mate(pg, np.array([row]), 1, nn, nself=0) if pkey.endswith("dh") else \
                cls(rng=g).mate(pg, np.array([row]), nn, 1, nself=0)
            return source_matrix(pkey, out.mat, row)
        add_stat(cls_name + ".mate", xoprob, runp)

    # crossover probabilities ASSIGNED FROM A GENETIC MAP (Haldane): the map's distances are -ln(1-2p)/2, so the declared
    # probabilities are the layout's; the matrix was built with other genetic positions and annotated with another map first
    # (a revised map must replace whatever positions the matrix held)
    def map_annotated_parents(xoprob, first_label=1, kosambi=False, shuffled=False, distal=False, cleaned=False):
        from pybrops.popgen.gmat.DensePhasedGenotypeMatrix import DensePhasedGenotypeMatrix
        from pybrops.popgen.gmap.StandardGeneticMap import StandardGeneticMap
        from pybrops.popgen.gmap.HaldaneMapFunction import HaldaneMapFunction
        Lx = len(xoprob)
        chrgrp = np.cumsum([1 if p == 0.5 else 0 for p in xoprob]).astype("int64") - 1 + first_label   # chromosome numbering may start at 0
        phy = np.arange(10, 10 + 7 * Lx, 7, dtype="int64")
        gen = np.zeros(Lx)
        for j in range(1, Lx):
            gen[j] = 0.0 if xoprob[j] == 0.5 else gen[j - 1] + (math.atanh(2.0 * xoprob[j]) / 2.0 if kosambi else -math.log(1.0 - 2.0 * xoprob[j]) / 2.0)
        mat = np.empty((2, 4, Lx), dtype="int8")
        for i in range(4):
            mat[0, i, :] = 2 * i; mat[1, i, :] = 2 * i + 1
        pg = DensePhasedGenotypeMatrix(mat=mat, taxa=np.array(["par%02d" % i for i in range(4)], dtype=object),
                                       taxa_grp=np.zeros(4, dtype="int64"), vrnt_chrgrp=chrgrp, vrnt_phypos=phy,
                                       vrnt_genpos=np.linspace(0.0, 0.02, Lx), vrnt_xoprob=np.full(Lx, 0.3))
        pg.group_vrnt()
        first = StandardGeneticMap(vrnt_chrgrp=chrgrp, vrnt_phypos=phy, vrnt_genpos=phy.astype(float) * 1e-4)
        pg.interp_xoprob(first, HaldaneMapFunction())
        if distal:
            # the MAP covers only the interior markers of every chromosome; the first and last genotyped marker lie beyond its ends
            # and get their positions by extrapolation (the default). Physical positions are proportional to genetic ones (1e-6 M
            # per base), so the extrapolated distances are the declared ones
            phy = np.array([1000 + int(round(1e6 * g_)) + 10 ** 7 * int(c_) for g_, c_ in zip(gen, chrgrp)], dtype="int64")
            pg = DensePhasedGenotypeMatrix(mat=mat, taxa=np.array(["par%02d" % i for i in range(4)], dtype=object),
                                           taxa_grp=np.zeros(4, dtype="int64"), vrnt_chrgrp=chrgrp, vrnt_phypos=phy)
            pg.group_vrnt()
            inner = np.array([j for j in range(Lx) if 0 < j < Lx - 1 and chrgrp[j - 1] == chrgrp[j] == chrgrp[j + 1]])
            revised = StandardGeneticMap(vrnt_chrgrp=chrgrp[inner], vrnt_phypos=phy[inner], vrnt_genpos=gen[inner])
            pg.interp_xoprob(revised, HaldaneMapFunction())
            return pg
        if shuffled:
            # the map rows are supplied in arbitrary order and the map is built WITHOUT grouping: its spline is fitted to the rows
            # as supplied
            pm = list(range(Lx)); random.Random(Lx).shuffle(pm); pm = np.array(pm)
            revised = StandardGeneticMap(vrnt_chrgrp=chrgrp[pm], vrnt_phypos=phy[pm], vrnt_genpos=gen[pm], auto_group=False)
        else:
            revised = StandardGeneticMap(vrnt_chrgrp=chrgrp, vrnt_phypos=phy, vrnt_genpos=gen)
        if cleaned:
            # the map went through the integrity clean-up (markers whose genetic order contradicts the physical one are removed; markers
            # at the SAME genetic position -- a recombination cold spot, declared probability 0 -- contradict nothing) and its spline was rebuilt
            revised.remove_discrepancies(); revised.build_spline()
        if kosambi:
            # Kosambi: r = tanh(2d)/2 for the same declared per-interval probabilities (crossovers in different intervals are
            # drawn independently whatever function assigned them, so non-adjacent pairs still compose by 1-2r)
            from pybrops.popgen.gmap.KosambiMapFunction import KosambiMapFunction
            pg.interp_xoprob(revised, KosambiMapFunction())
        else:
            pg.interp_xoprob(revised, HaldaneMapFunction())
        return pg
    for pkey, kos in (("2wdh", False), ("2w", False), ("2wdh", True)):
        xoprob = layouts[0] if (pkey.endswith("dh") and not kos) else layouts[2]
        cls_name, npar = PROTOS[pkey]
        cls = getattr(importlib.import_module("pybrops.breed.prot.mate." + cls_name), cls_name)
        row = [0, 1, 2, 3][:npar]
        def runm(nn, seed, cls=cls, pkey=pkey, xoprob=xoprob, row=row, kos=kos):
            g = np.random.default_rng(seed)
            pg = map_annotated_parents(xoprob, 0 if pkey.endswith("dh") else 1, kos, shuffled=(pkey == "2w"))
            out = cls(rng=g).mate(pg, np.array([row]), 1, nn, nself=0) if pkey.endswith("dh") else \
                cls(rng=g).mate(pg, np.array([row]), nn, 1, nself=0)
            return source_matrix(pkey, out.mat, row)
        add_stat(cls_name + ".mate[xoprob from a revised genetic map%s]" % (", Kosambi" if kos else ""), xoprob, runm)

    cold = [0.5, 0.25, 0.0, 0.1, 0.0, 0.5, 0.2, 0.0]
    cls_c = getattr(importlib.import_module("pybrops.breed.prot.mate.TwoWayDHCross"), "TwoWayDHCross")
    def runc(nn, seed):
        g = np.random.default_rng(seed)
        pg = map_annotated_parents(cold, 1, False, False, cleaned=True)
        out = cls_c(rng=g).mate(pg, np.array([[0, 1]]), 1, nn, nself=0)
        return source_matrix("2wdh", out.mat, [0, 1])
    add_stat("TwoWayDHCross.mate[xoprob from a cleaned genetic map with cold spots]", cold, runc)

    distal_layout = [0.5, 0.1, 0.2, 0.25, 0.1, 0.05, 0.5, 0.2, 0.1, 0.25]
    cls_d = getattr(importlib.import_module("pybrops.breed.prot.mate.TwoWayDHCross"), "TwoWayDHCross")
    def rund(nn, seed):
        g = np.random.default_rng(seed)
        pg = map_annotated_parents(distal_layout, 1, False, False, distal=True)
        out = cls_d(rng=g).mate(pg, np.array([[0, 1]]), 1, nn, nself=0)
        return source_matrix("2wdh", out.mat, [0, 1])
    add_stat("TwoWayDHCross.mate[xoprob from a genetic map, distal markers beyond the map ends]", distal_layout, rund)

    tl = [{k: v for k, v in c.items() if k not in ("run", "xoprob")} for c in stat]
    verd = cases.validate(ctx, "MeiosisProb_Trace", "MeiosisProb_Trace.cfg", allc + tl, "MeiosisProb_Trace",
                          chunk=40, procs=14)
    ctx.traces += len(allc)
    for c in allc:
        v = verd[c["id"]]
        ctx.count(1, (c["fn"], tuple(c["J"])) if any(0 < j < K for j in c["J"]) else None)
        if c.get("exc"):
            ctx.violation(c["fn"] + ":exception", c["exc"], {k: c[k] for k in ("fn", "J")})
        elif c.get("noscript") or (c.get("transposed") and v != "ok"):
            ctx.extra["script_inapplicable"] = ctx.extra.get("script_inapplicable", 0) + 1
        elif v != "ok":
            bad = None
            ctx.violation(c["fn"] + ":" + v, "TLC verdict %s for J=%s/4 (draw grid of %d vectors)" % (v, c["J"], len(c["rows"])),
                          {"fn": c["fn"], "J": c["J"], "src_head": c["src"][:8], "rows_head": c["rows"][:8]})
    ctx.sample({"grid_case": {"fn": allc[7]["fn"], "J": allc[7]["J"], "rows_head": allc[7]["rows"][:4],
                              "src_head": allc[7]["src"][:4]}, "verdict": verd[allc[7]["id"]]})
    # statistics
    nstat = 0
    for c in stat:
        v = verd[c["id"]]
        exp = v[1]
        def zfail(src):
            bad = []
            nn = src.shape[0]
            for k, (a, b) in enumerate(c["pairs"]):
                num, den = exp[k]
                p = num / den
                obs = int(np.sum(src[:, a - 1] != src[:, b - 1]))
                if p in (0.0, 1.0):
                    if obs != int(p * nn):
                        bad.append((a, b, obs / nn, p, float("inf")))
                    continue
                z = (obs - nn * p) / math.sqrt(nn * p * (1 - p))
                if abs(z) > ZMAX:
                    bad.append((a, b, obs / nn, p, z))
            # segregation: each copy transmitted with probability 1/2 at every locus (first locus carries 0.5)
            for l in range(src.shape[1]):
                obs = int(np.sum(src[:, l]))
                z = (obs - nn * 0.5) / math.sqrt(nn * 0.25)
                if abs(z) > ZMAX:
                    bad.append((l + 1, l + 1, obs / nn, 0.5, z))
            return bad
        try:
            src = c["run"](n, rng.randrange(2 ** 32))
            bad = zfail(src)
            if bad:
                src = c["run"](4 * n, rng.randrange(2 ** 32))
                bad = zfail(src)
        except Exception as e:
            ctx.violation(c["name"] + ":exception", "%s: %s" % (type(e).__name__, e), {"xoprob": c["xoprob"]})
            continue
        nstat += len(c["pairs"]) + len(c["xoprob"])
        ctx.count(1, ("stat", c["name"], tuple(c["xoprob"])))
        if bad:
            a, b, f, p, z = bad[0]
            clause = "segregation-ratio" if a == b else ("adjacent-recombination-fraction" if b == a + 1 else "non-adjacent-recombination-fraction")
            ctx.violation("%s:%s" % (c["name"], clause),
                          "loci (%d,%d): observed %.4f expected %.4f (z=%.1f, twice)" % (a, b, f, p, z),
                          {"xoprob": c["xoprob"], "failing": [list(map(float, x)) for x in bad[:5]]})
    # ---- selfing generations before the doubled haploids are made (nself >= 1): the source copy of the last meiosis cannot be
    # read off the tags any more, but the JOINT ORIGIN of two loci in a DH line has an exact distribution -- the one TLC enumerates in
    # ProgenyVar (hybridisation, backcross / second hybridisation, s selfing generations, gamete).  Parent of origin per locus is
    # the tag; cell frequencies of the (origin at locus 1, origin at locus 2) table are z-tested against TLC's table.
    jt = {}
    for cfgp in ("ProgenyVar_MC2.cfg", "ProgenyVar_MC3.cfg") + (("ProgenyVar_MC4.cfg",) if thorough else ()):
        rp = tlc.run("ProgenyVar_MC", cfgp, timeout=3000)
        tlc.must_pass(rp, cfgp); ctx.add_tlc(rp, cfgp + " (joint-origin tables for the selfing statistics)")
        for t_ in rp.json:
            jt.setdefault((t_["scheme"], t_["s"], t_["rho"]), t_["joint"])
    nj = 0
    for pkey, scheme, Kp in (("2wdh", "2w", 2), ("3wdh", "3w", 3), ("4wdh", "4w", 4)):
        cls_name, npar = PROTOS[pkey]
        cls = getattr(importlib.import_module("pybrops.breed.prot.mate." + cls_name), cls_name)
        for s_ in (1, 2):
            for rho in ((1, 2, 3) if thorough else (rng.choice([1, 2, 3]),)):
                if (scheme, s_, rho) not in jt or (scheme, s_, 4) not in jt:
                    continue
                xoprob = [0.5, rho / 8.0, 0.5]
                def joint_fail(nn, seed):
                    g = np.random.default_rng(seed)
                    pg = make_parents(4, 3, xoprob, random.Random(1))
                    # one DH line per independently made (and selfed) hybrid: nmating = nn, nprogeny = 1
                    out = cls(rng=g).mate(pg, np.array([[0, 1, 2, 3][:npar]]), nn, 1, nself=s_)
                    org = (np.asarray(out.mat)[0] // 2).astype(int)          # (progeny, locus) parent of origin
                    bad = []
                    if not np.array_equal(np.asarray(out.mat)[0], np.asarray(out.mat)[1]):
                        bad.append(("not-homozygous", 0, 0, 0.0, 0.0, float("inf")))
                    for (la, lb, rr) in ((0, 1, rho), (0, 2, 4)):
                        w = jt[(scheme, s_, rr)]; tot = float(sum(w))
                        for a in range(Kp):
                            for b in range(Kp):
                                pexp = w[a * Kp + b] / tot
                                obs = int(np.sum((org[:, la] == a) & (org[:, lb] == b)))
                                if pexp in (0.0, 1.0):
                                    if obs != int(pexp * org.shape[0]):
                                        bad.append(("loci %d,%d" % (la + 1, lb + 1), a, b, obs / org.shape[0], pexp, float("inf")))
                                    continue
                                z = (obs - org.shape[0] * pexp) / math.sqrt(org.shape[0] * pexp * (1 - pexp))
                                if abs(z) > ZMAX:
                                    bad.append(("loci %d,%d" % (la + 1, lb + 1), a, b, obs / org.shape[0], pexp, z))
                    return bad
                try:
                    bad = joint_fail(n, rng.randrange(2 ** 32))
                    if bad:
                        bad = joint_fail(4 * n, rng.randrange(2 ** 32))
                except Exception as e:
                    ctx.violation("%s.mate[nself=%d]:exception" % (cls_name, s_), "%s: %s" % (type(e).__name__, e), {"xoprob": xoprob})
                    continue
                nj += 2 * Kp * Kp
                ctx.count(1, ("joint", cls_name, s_, rho))
                if bad:
                    ctx.violation("%s.mate[nself>=1]:joint-origin-frequencies" % cls_name,
                                  "nself=%d, r=%d/8, %s: origins (%d,%d) observed %.4f, TLC's enumeration gives %.4f (z=%.1f, twice)" % ((s_, rho) + tuple(bad[0])),
                                  {"xoprob": xoprob, "nself": s_, "failing": [list(map(str, x)) for x in bad[:6]]})
    ctx.extra["joint_origin_cells_monitored"] = nj
    ctx.extra["statistics_monitored"] = nstat
    ctx.extra["grid_cases"] = ngrid
    ctx.sample({"stat_case": {"name": stat[0]["name"], "xoprob": stat[0]["xoprob"], "expected_pairs_head": verd[stat[0]["id"]][1][:4]}})
    ctx.exhaustive = True
