"""C18 haplotype blocks, OHV / OPV (spec/Haplo*.tla)."""
import itertools, random
import numpy as np
from .. import tlc, cases
from ..core import time_limit


def ints(x):
    v = np.asarray(x, dtype=float)
    fin = bool(np.all(np.isfinite(v)))
    r = np.rint(np.where(np.isfinite(v), v, 0.0))
    ok = fin and bool(np.all(np.abs(np.where(np.isfinite(v), v, 0.0) - r) <= 1e-6 * np.maximum(1.0, np.abs(r))))
    return r.astype(np.int64), ok


def one_layout(cid, lay, B, rng, which):
    from pybrops.core.util import haplo
    from pybrops.popgen.gmat.DensePhasedGenotypeMatrix import DensePhasedGenotypeMatrix
    from pybrops.model.gmod.DenseAdditiveLinearGenomicModel import DenseAdditiveLinearGenomicModel
    from pybrops.breed.prot.sel.prob.OptimalHaploidValueSelectionProblem import OptimalHaploidValueSubsetSelectionProblem as OHV
    from pybrops.breed.prot.sel.prob.OptimalPopulationValueSelectionProblem import OptimalPopulationValueSubsetSelectionProblem as OPV
    M = sum(len(c) for c in lay)
    n = rng.randrange(2, 5); T = rng.randrange(1, 4)
    P = rng.choice([2, 2, 2, 4, 4, 3, 1])      # chromosome copies per individual = phase planes of the matrix
    geno = np.array([[[rng.randrange(2) for _ in range(M)] for _ in range(n)] for _ in range(P)], dtype="int8")
    u = np.array([[rng.randrange(-3, 4) for _ in range(T)] for _ in range(M)], dtype=float)
    genpos = np.array([x for c in lay for x in c], dtype=float) / 10.0
    stix = np.cumsum([0] + [len(c) for c in lay[:-1]]).astype(int)
    spix = np.cumsum([len(c) for c in lay]).astype(int)
    clen = np.array([len(c) for c in lay], dtype=int)
    c = {"id": cid, "which": which, "lay": [list(x) for x in lay], "B": B, "geno": geno.astype(int).tolist(),
         "u": u.astype(int).tolist(), "err": None, "crosses": [], "ohv": [], "opvsets": [], "opv": []}
    try:
        with time_limit(30):
            nblk = haplo.nhaploblk_chrom(B, genpos, stix, spix)
            c["nblk"] = [int(x) for x in nblk]
            if np.any(np.asarray(nblk) > clen):
                c["infeasible"] = True      # the library raises for such requests: outside the tested domain
                return c
            hbin = haplo.haplobin(nblk, genpos, stix, spix)
            c["hbin"] = [int(x) for x in hbin]
            hst, hsp, hln = haplo.haplobin_bounds(hbin)
            c["hst"] = [int(x) for x in hst]; c["hsp"] = [int(x) for x in hsp]; c["hln"] = [int(x) for x in hln]
            if which == "util":
                hm = haplo.haplomat(B, geno, genpos, stix, spix, clen, u)
                r, ok = ints(hm)
                c["hmat"] = r.tolist(); c["hfin"] = ok
            else:
                chrgrp = np.array([k + 1 for k, ch in enumerate(lay) for _ in ch], dtype="int64")
                pg = DensePhasedGenotypeMatrix(mat=geno, taxa=np.array(["i%d" % k for k in range(n)], dtype=object),
                                               vrnt_chrgrp=chrgrp, vrnt_phypos=np.arange(1, M + 1, dtype="int64"),
                                               vrnt_genpos=genpos, vrnt_xoprob=np.full(M, 0.1))
                pg.group_vrnt()
                # the model may carry miscellaneous random effects next to the marker effects (they are no marker effects)
                umisc = None if rng.random() < 0.6 else np.array([[rng.randrange(-9, 10) for _ in range(T)] for _ in range(rng.randrange(1, 4))], dtype=float)
                gm = DenseAdditiveLinearGenomicModel(beta=np.zeros((1, T)), u_misc=umisc, u_a=u,
                                                     trait=np.array(["t%d" % k for k in range(T)], dtype=object))
                # the three problem families (OHV, OPV, genotype builder) each compute the block values themselves
                src = rng.choice(["ohv", "opv", "gb"])
                if src == "ohv":
                    hm = OHV._calc_haplomat(pg, gm, B)
                elif src == "opv":
                    hm = OPV._calc_haplomat(pg, gm, B)
                else:
                    from pybrops.breed.prot.sel.prob.GenotypeBuilderSelectionProblem import GenotypeBuilderSubsetSelectionProblem as GB
                    hm = GB._calc_haplomat(pg, gm, B)
                c["hsrc"] = src
                r, ok = ints(hm)
                c["hmat"] = r.tolist(); c["hfin"] = ok
                npar = rng.choice([2, 2, 3]); uniq = rng.random() < 0.5
                if uniq and npar > n:
                    npar = n
                xmap = OHV._calc_xmap(n, npar, uniq)
                enc = rng.choice(["direct", "Subset", "Binary", "Integer", "Real"])
                if enc == "direct":
                    ohv = OHV._calc_ohvmat(P, hm, xmap, mem=rng.choice([1, 2, None]))
                else:
                    # the cross values held by a problem built through the factory of each decision encoding (separate code per class)
                    import importlib
                    pcls = getattr(importlib.import_module("pybrops.breed.prot.sel.prob.OptimalHaploidValueSelectionProblem"),
                                   "OptimalHaploidValue%sSelectionProblem" % enc)
                    nx = len(xmap)
                    if enc == "Subset":
                        sp = dict(ndecn=1, decn_space=np.arange(nx), decn_space_lower=np.repeat(0, 1), decn_space_upper=np.repeat(nx - 1, 1))
                    else:
                        lo = np.repeat(0.0 if enc == "Real" else 0, nx); up = np.repeat({"Real": 1.0, "Integer": 3, "Binary": 1}[enc], nx)
                        sp = dict(ndecn=nx, decn_space=np.stack([lo, up]), decn_space_lower=lo, decn_space_upper=up)
                    pr = pcls.from_pgmat_gpmod(npar, B, uniq, pg, gm, nobj=T, **sp)
                    ohv = np.asarray(pr.ohvmat); xmap = np.asarray(pr.decn_space_xmap)
                    c["ohvsrc"] = enc
                ro, ok2 = ints(ohv)
                c["crosses"] = np.asarray(xmap).astype(int).tolist(); c["ohv"] = ro.tolist(); c["hfin"] = c["hfin"] and ok2
                sets = [sorted(rng.sample(range(n), rng.randrange(1, n + 1))) for _ in range(3)]
                if rng.random() < 0.5:
                    # the problem is built for OTHER marker effects and evaluated (whatever it memoises is filled), then its
                    # block values are replaced -- through the setter or in place -- by the ones this case is about
                    gm0 = DenseAdditiveLinearGenomicModel(beta=np.zeros((1, T)), u_misc=None, u_a=u + 1.0,
                                                          trait=np.array(["t%d" % k for k in range(T)], dtype=object))
                    prob = OPV.from_pgmat_gpmod(nhaploblk=B, pgmat=pg, gpmod=gm0, ndecn=2, decn_space=np.arange(n),
                                                decn_space_lower=np.repeat(0, 2), decn_space_upper=np.repeat(n - 1, 2), nobj=T)
                    prob.latentfn(np.array(sets[0])); prob.evalfn(np.array(sets[-1][:1] * 2))
                    if np.asarray(prob.haplomat).shape == np.asarray(hm).shape and rng.random() < 0.5:
                        prob.haplomat[...] = hm
                    else:
                        prob.haplomat = np.array(hm, copy=True)
                    c["edited"] = True
                else:
                    prob = OPV.from_pgmat_gpmod(nhaploblk=B, pgmat=pg, gpmod=gm, ndecn=2, decn_space=np.arange(n),
                                                decn_space_lower=np.repeat(0, 2), decn_space_upper=np.repeat(n - 1, 2), nobj=T)
                c["opvsets"] = sets
                rp, ok3 = ints(np.array([prob.latentfn(np.array(s)) for s in sets]))
                c["opv"] = rp.tolist(); c["hfin"] = c["hfin"] and ok3
    except Exception as e:
        c["err"] = "%s: %s" % (type(e).__name__, str(e)[:160])
    for k in ("nblk", "hbin", "hst", "hsp", "hln"):
        c.setdefault(k, [0])
    c.setdefault("hmat", [[[[0] * T] * B] * n] * P); c.setdefault("hfin", False)
    return c


def run(ctx):
    rng = random.Random(ctx.seed)
    thorough = ctx.tier == "thorough"
    ctx.rule = ("TLC runs the greedy apportionment as a state machine and checks the partition clauses for every layout of <=2 "
                "chromosomes x <=3 markers over 4 positions and every admissible block total; the ExactTotal clause is checked "
                "separately (TLC exhibits the tied/clustered layouts where equal-width binning leaves a bin empty). All those "
                "layouts plus random clustered ones are run through the real functions and the OHV/OPV problems and validated "
                "by TLC; non-trivial: >= 2 blocks on some chromosome; distinct by (layout, B, genotypes, effects)")
    ctx.assume("positions are integers (handed to the code divided by 10); genotypes in {0,1}; integer effects, so block values are integers",
               "requests for which the apportionment gives a chromosome more blocks than markers raise in the library and are outside the tested domain",
               "layouts with total genetic length 0 are excluded")
    cfg = "Haplo_MCT.cfg" if thorough else "Haplo_MC.cfg"
    r = tlc.run("Haplo", cfg, coverage=True, timeout=3000)
    tlc.must_pass(r, cfg); ctx.add_tlc(r, cfg)
    if r.violated:
        ctx.violation("spec:Haplo:" + r.violated, "TLC: %s violated" % r.violated, r.error)
    for a in ("Give", "GiveDone"):
        if r.coverage.get(a, (0, 0))[1] == 0:
            raise tlc.TLCFailure("vacuous: %s never taken" % a)
    rx = tlc.run("Haplo", "Haplo_exact.cfg", timeout=900)
    ctx.add_tlc(rx, "Haplo_exact.cfg (design-level counterexample: empty equal-width bin)")
    ctx.extra["design_empty_bin_counterexample"] = rx.violated == "ExactTotal"

    plans = []
    pos = [0, 1, 2, 4]
    chroms = [c for m in range(1, 4) for c in itertools.product(pos, repeat=m) if list(c) == sorted(c)]
    lays = [[c] for c in chroms] + [[a, b] for a in chroms for b in chroms]
    lays = [l for l in lays if sum(c[-1] - c[0] for c in l) > 0]
    if not thorough:
        rng.shuffle(lays); lays = lays[:160]
    for l in lays:
        M = sum(len(c) for c in l)
        for B in range(len(l), M + 1):
            plans.append(([list(c) for c in l], B))
    for _ in range(400 if thorough else 120):
        nch = rng.randrange(1, 4)
        l = []
        for _c in range(nch):
            m = rng.randrange(1, 8)
            base = rng.randrange(0, 10)
            if rng.random() < 0.5:   # clustered positions
                ch = sorted(base + rng.choice([0, 0, 1, 9, 10, 10, 25]) for _ in range(m))
            else:
                ch = sorted(base + rng.randrange(0, 30) for _ in range(m))
            l.append(ch)
        if sum(c[-1] - c[0] for c in l) == 0:
            continue
        M = sum(len(c) for c in l)
        plans.append((l, rng.randrange(nch, min(M, 7) + 1)))
    # boundary-aligned layouts: equally spaced markers put markers exactly on interior bin boundaries
    for m in range(3, 10):
        for step in (1, 2, 5):
            ch = [step * x for x in range(m)]
            for B in range(1, m + 1):
                plans.append(([ch], B))
            plans.append(([ch, [3, 3 + step * (m - 1)]], rng.randrange(2, m + 1)))
    allc = []
    for k, (l, B) in enumerate(plans):
        allc.append(one_layout(len(allc) + 1, l, B, rng, "util" if k % 2 == 0 else "problem"))
    todo = [c for c in allc if not c.get("infeasible")]
    verd = cases.validate(ctx, "Haplo_Trace", "Haplo_Trace.cfg", todo, "Haplo_Trace", chunk=60, procs=14)
    ctx.traces += len(todo)
    ctx.extra["infeasible_requests_skipped"] = len(allc) - len(todo)
    for c in todo:
        v = verd[c["id"]]
        ctx.count(1, repr((c["lay"], c["B"], c["geno"], c["u"])) if max(c["nblk"]) >= 2 else None)
        if v != "ok":
            site = "haplo" if c["which"] == "util" else "OptimalHaploidValue/OptimalPopulationValue"
            key = "%s:%s" % (site, v)
            if v == "fewer-blocks-than-requested":
                # every marker sits in an admissible bin (earlier clauses), so a missing label is an empty equal-width bin
                key = "haplobin:fewer-blocks-than-requested:empty-equal-width-bin"
            ctx.violation(key, "TLC verdict %s (layout %s, B=%d)%s" % (v, c["lay"], c["B"], " -- " + c["err"] if c["err"] else ""),
                          {k: c[k] for k in c if k not in ("geno", "hmat")})
    s = [c for c in todo if c["which"] == "problem" and verd[c["id"]] == "ok"][0]
    ctx.sample({k: s[k] for k in ("lay", "B", "nblk", "hbin", "hst", "hsp", "crosses", "ohv", "opvsets", "opv")})
    ctx.exhaustive = True
