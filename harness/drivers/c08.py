"""C08 seeded reproducibility and generator isolation (spec/Entropy*.tla)."""
import json, os, random, shutil, subprocess, sys, tempfile
from concurrent.futures import ThreadPoolExecutor
from .. import tlc, cases

ROOT = os.path.dirname(os.path.dirname(os.path.dirname(os.path.abspath(__file__))))


def model_check(ctx):
    r = tlc.run("Entropy_MC", "Entropy_intended.cfg", coverage=True, timeout=1800)
    tlc.must_pass(r, "Entropy_intended"); ctx.add_tlc(r, "Entropy_intended.cfg")
    if r.violated:
        ctx.violation("spec:Entropy:" + r.violated, "TLC: %s violated in the intended design" % r.violated, r.error)
    for a in ("Noise", "Seed", "NewGen", "Spawn", "Call"):
        if r.coverage.get(a, (0, 0))[1] == 0:
            raise tlc.TLCFailure("vacuous: %s never taken" % a)
    # the as-written variants are rejected by TLC (design-level counterexamples behind the known findings)
    rej = {}
    iso = ("GlobalsUntouchedByExplicit", "ExplicitDependsOnlyOnGenerator")
    for name, want in (("hidden", ("Reproducible", "ExplicitDependsOnlyOnGenerator")), ("opsglobal", iso), ("leak", iso)):
        rr = tlc.run("Entropy_MC", "Entropy_%s.cfg" % name, timeout=900)
        ctx.add_tlc(rr, "Entropy_%s.cfg (as-written variant)" % name)
        rej[name] = rr.violated
        if rr.violated not in want:
            raise tlc.TLCFailure("variant %s: expected TLC to refute one of %s, got %r" % (name, want, rr.violated))
    ctx.extra["as_written_variants_refuted"] = rej


def programs(rng, names, thorough):
    """each program: list of operations; the comparison between the twin runs starts at 'seed' (results of calls with an
    explicit generator are compared everywhere)"""
    from ..entropy_exec import OPS
    progs = []
    seeds = [0, 3, 8, 41, 1000003, 2 ** 31 - 5, 2 ** 31 - 1]       # boundary values of the seed argument included
    for nm in names:
        kind, _, explicit = OPS[nm]
        s = rng.choice(seeds)
        progs.append([{"op": "seed", "s": s}, {"op": "call", "name": nm, "rng": "none"}, {"op": "call", "name": nm, "rng": "none"}])
        if explicit:
            gs = rng.randrange(1, 10 ** 6)
            # a caller-made generator, globals NOT re-seeded (different histories in the two interpreters)
            progs.append([{"op": "newgen", "g": "g1", "s": gs}, {"op": "call", "name": nm, "rng": "g1"}, {"op": "call", "name": nm, "rng": "g1"}])
            # after seeding: own generator and a spawned one
            progs.append([{"op": "seed", "s": s}, {"op": "newgen", "g": "g1", "s": gs + 1}, {"op": "call", "name": nm, "rng": "g1"},
                          {"op": "spawn", "g": "g2"}, {"op": "call", "name": nm, "rng": "g2"}, {"op": "call", "name": "tiled_choice", "rng": "none"}])
    # longer random programs
    for _ in range(60 if thorough else 16):
        p = []
        if rng.random() < 0.3:
            p += [{"op": "newgen", "g": "g3", "s": rng.randrange(1, 10 ** 6)}, {"op": "call", "name": rng.choice(names), "rng": "g3"}]
            if not OPS[p[-1]["name"]][2]:
                p[-1]["name"] = "mate_2w"
        p.append({"op": "seed", "s": rng.choice(seeds)})
        have = set(x["g"] for x in p if x["op"] == "newgen")
        for _k in range(rng.randrange(3, 8)):
            r = rng.random()
            if r < 0.12 and "g1" not in have:
                p.append({"op": "newgen", "g": "g1", "s": rng.randrange(1, 10 ** 6)}); have.add("g1")
            elif r < 0.24 and "g2" not in have:
                p.append({"op": "spawn", "g": "g2"}); have.add("g2")
            elif r < 0.30:
                p.append({"op": "seed", "s": rng.choice(seeds)})           # re-seeding in the middle of a program
            else:
                nm = rng.choice(names)
                mode = rng.choice(sorted(have) + ["none", "none"]) if OPS[nm][2] else "none"
                p.append({"op": "call", "name": nm, "rng": mode})
        progs.append(p)
    return progs


def run_copy(progs, variant, hashseed, tmp, tag):
    pf = os.path.join(tmp, "p_%s.json" % tag); of = os.path.join(tmp, "o_%s_%s.json" % (tag, variant))
    if not os.path.exists(pf):
        with open(pf, "w") as f:
            json.dump(progs, f)
    env = dict(os.environ, PYTHONHASHSEED=str(hashseed))
    r = subprocess.run([sys.executable, "-m", "harness.entropy_exec", pf, of, variant], cwd=ROOT, env=env,
                       stdout=subprocess.PIPE, stderr=subprocess.STDOUT, text=True, timeout=3000)
    if r.returncode != 0 or not os.path.exists(of):
        raise tlc.TLCFailure("executor %s/%s failed: %s" % (tag, variant, r.stdout[-600:]))
    with open(of) as f:
        return json.load(f)


def run(ctx):
    from ..entropy_exec import OPS
    rng = random.Random(ctx.seed)
    thorough = ctx.tier == "thorough"
    ctx.rule = ("TLC checks the twin product of the intended entropy design (two interpreters with different histories, the same "
                "Seed(s) and the same <=4 calls over the kinds lib / select / pymoo with the rng omitted, caller-made or spawned): "
                "results and global streams coincide after seeding, a call given a generator depends only on it and leaves py / np "
                "untouched; the three as-written variants (OS entropy inside pymoo, custom operators on the global stream, select() "
                "sampling from the global stream) are refuted by TLC. Real executions: every catalogued stochastic call (sampling "
                "utilities, seven mating protocols, phenotyping, four configuration classes, hill climber, prng wrappers, jitter, "
                "selection protocols, twelve pymoo-based optimisers / protocols) is run in two fresh interpreters with different "
                "hash seeds and prior histories, with the rng omitted after seeding, with a caller-made generator without seeding, "
                "and with caller-made and spawned generators after seeding, plus random programs with mid-program re-seeding; the "
                "recorded touched-source sets and digests are validated by TLC against the intended design (Entropy_Trace); "
                "non-trivial: every program (each has >=1 stochastic call); distinct by program")
    ctx.assume("bit-identical = equal SHA-1 of a canonical serialisation (array bytes, data frames as %.17g CSV)",
               "'prior history' = draws from both global streams, a previous seeding, spawning, mating, a genetic run, and another hash seed",
               "a source counts as consumed when its state digest changed across the call")
    model_check(ctx)
    names = sorted(OPS)
    progs = programs(rng, names, thorough)
    tmp = tempfile.mkdtemp(prefix="c08_")
    try:
        nchunk = 7
        chunks = [progs[k::nchunk] for k in range(nchunk)]
        jobs = []
        with ThreadPoolExecutor(max_workers=14) as ex:
            for k, ch in enumerate(chunks):
                jobs.append((k, "A", ex.submit(run_copy, ch, "A", 0, tmp, str(k))))
                jobs.append((k, "B", ex.submit(run_copy, ch, "B", 12345 + k, tmp, str(k))))
            res = {(k, v): f.result() for k, v, f in jobs}
    finally:
        shutil.rmtree(tmp, ignore_errors=True)
    allc = []
    meta = {}
    for k, ch in enumerate(chunks):
        for pi, prog in enumerate(ch):
            ea, eb = res[(k, "A")][pi], res[(k, "B")][pi]
            ids = {}

            def did(x):
                return ids.setdefault(x, len(ids) + 1)
            evs = []
            for op, a, b in zip(prog, ea, eb):
                kind = OPS[op["name"]][0] if op["op"] == "call" else "lib"
                evs.append({"op": op["op"], "kind": kind, "rng": op.get("rng", "none"), "s": op.get("s", 0), "g": op.get("g", "none"),
                            "tA": a["touched"], "tB": b["touched"], "dA": did(a["dig"]), "dB": did(b["dig"]),
                            "glA": did(a["glob"]), "glB": did(b["glob"]), "gsA": did(json.dumps(a["gst"], sort_keys=True)),
                            "gsB": did(json.dumps(b["gst"], sort_keys=True)), "errA": a["err"] or "none", "errB": b["err"] or "none"})
            c = {"id": len(allc) + 1, "ev": evs}
            meta[c["id"]] = prog
            allc.append(c)
    verd = cases.validate(ctx, "Entropy_Trace", "Entropy_Trace.cfg", allc, "Entropy_Trace", chunk=40, procs=14)
    ctx.traces += len(allc)
    ncalls = 0
    for c in allc:
        v, k = verd[c["id"]]
        prog = meta[c["id"]]
        ncalls += sum(1 for o in prog if o["op"] == "call")
        ctx.count(1, json.dumps(prog))
        if v != "ok":
            op = prog[k - 1]
            mode = "none" if op.get("rng", "none") == "none" else ("spawned" if any(o["op"] == "spawn" and o["g"] == op["rng"] for o in prog) else "own")
            site = "%s[rng=%s]" % (op.get("name", op["op"]), mode)
            ev = c["ev"][k - 1]
            what = "%s: TLC verdict %s at step %d of %s" % (site, v, k, json.dumps(prog))
            if ev["errA"] != "none" or ev["errB"] != "none":
                what += " (%s / %s)" % (ev["errA"], ev["errB"])
            ctx.violation("%s:%s" % (site, v), what, {"program": prog, "events": c["ev"], "step": k})
    ctx.sample({"program": meta[1], "events": allc[0]["ev"], "verdict": verd[1]})
    ctx.extra["programs"] = len(allc); ctx.extra["calls_executed_per_copy"] = ncalls
    ctx.extra["operations"] = names
    ctx.exhaustive = True
