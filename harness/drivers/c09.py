"""C09 genotype summary statistics (spec/GenoStats*.tla)."""
import random
import numpy as np
from .. import tlc, cases

TOL = 1e-6


def lat(x, scale):
    """round(x*scale) and whether x*scale is on the integer lattice"""
    v = np.asarray(x, dtype=float) * scale
    r = np.rint(v)
    ok = bool(np.all(np.abs(v - r) <= TOL * np.maximum(1.0, np.abs(v))))
    return r.astype(np.int64), ok


def build_phased(loci, n, rng):
    """phased matrix (2, n, L) realising the compositions <<n00,n01,n10,n11>>, taxa in random order"""
    L = len(loci)
    m = np.zeros((2, n, L), dtype="int8")
    for l, (a, b, c, d) in enumerate(loci):
        col = [(0, 0)] * a + [(0, 1)] * b + [(1, 0)] * c + [(1, 1)] * d
        rng.shuffle(col)
        for t, (x, y) in enumerate(col):
            m[0, t, l] = x; m[1, t, l] = y
    return m


def observe(cid, cls, obj, loci, n, small, P=2):
    """loci: phased compositions (diploid) or, for P != 2, dosage-class compositions (P+1 counts per locus)"""
    L = len(loci)
    c = {"id": cid, "cls": cls, "n": n, "small": bool(small), "ploidy": P}
    c["loci" if P == 2 else "dose"] = [list(x) for x in loci]
    two_n = P * n
    ac = np.asarray(obj.acount())
    c["acount"] = [int(x) for x in ac]
    f = np.asarray(obj.afreq(), dtype=float)
    r, ok = lat(f, two_n)
    v = f * two_n
    c["af"] = [int(x) for x in r]
    c["aflat"] = [bool(abs(v[l] - r[l]) <= TOL * max(1.0, abs(v[l]))) for l in range(L)]
    c["afzero"] = [bool(x == 0.0) for x in f]
    c["afone"] = [bool(x == 1.0) for x in f]
    c["afin01"] = [bool(0.0 <= x <= 1.0) for x in f]
    c["poly"] = [bool(x) for x in np.asarray(obj.apoly())]
    c["fixed"] = [bool(x) for x in np.asarray(obj.afixed())]
    mr, mok = lat(obj.maf(), two_n)
    c["maf"] = [int(x) if mok else -1 for x in mr]
    meh = float(obj.meh())
    hv = meh * (two_n ** 2) * L / float(P)
    c["meh"] = int(round(hv)); c["mehlat"] = bool(abs(hv - round(hv)) <= 1e-6 * max(1.0, abs(hv)))
    gt = np.asarray(obj.gtcount())
    c["gtrows"] = int(gt.shape[0]) if gt.ndim == 2 else -1
    if gt.ndim == 2 and gt.shape[0] == P + 1:
        c["gt"] = gt.astype(int).tolist()
        gr, gok = lat(obj.gtfreq(), n)
        c["gtf"] = gr.astype(int).tolist() if np.asarray(gr).shape == gt.shape else [[-1] * L] * (P + 1)
        c["gtflat"] = bool(gok)
    else:
        c["gt"] = [[-1] * L] * (P + 1); c["gtf"] = [[-1] * L] * (P + 1); c["gtflat"] = False
    # requested dtypes are honoured, and the VALUES delivered in a requested dtype are those of the default call (flags as
    # bool / int8 / uint8 / int64, counts in dtypes wide enough for them, frequencies in float32 up to float32 rounding)
    dt_ok = True; dtv_ok = True
    for meth, dt in (("acount", "int32"), ("acount", "int64"), ("afreq", "float32"), ("maf", "float32"), ("gtcount", "int16"), ("gtcount", "int64"),
                     ("gtfreq", "float32"), ("apoly", "int8"), ("apoly", "bool"), ("apoly", "uint8"), ("apoly", "int64"),
                     ("afixed", "bool"), ("afixed", "int8"), ("afixed", "uint8"), ("tacount", "int16"), ("tafreq", "float32")):
        try:
            res = np.asarray(getattr(obj, meth)(dtype=dt))
            ref = np.asarray(getattr(obj, meth)())
            if res.dtype != np.dtype(dt):
                dt_ok = False
            if res.shape != ref.shape or not np.allclose(res.astype(float), ref.astype(float), rtol=1e-6, atol=1e-6):
                dtv_ok = False
        except Exception:
            dt_ok = False
    c["dtypeok"] = dt_ok and dtv_ok
    # results already handed out stay what they were: the statistics are taken once more and KEPT, the same questions are then asked of
    # another matrix of the same shape and ploidy (the complementary calls), and the kept arrays are compared with fresh answers
    try:
        meths = ("acount", "afreq", "apoly", "afixed", "maf", "gtcount", "gtfreq", "tacount", "tafreq")
        kept = {m_: getattr(obj, m_)() for m_ in meths}
        snap_ = {m_: np.array(kept[m_], copy=True) for m_ in meths}
        m0 = np.asarray(obj.mat)
        other = type(obj)((1 - m0).astype("int8")) if m0.ndim == 3 else type(obj)((P - m0).astype("int8"), ploidy=P)
        for m_ in meths:
            getattr(other, m_)()
        c["keptok"] = all(np.array_equal(np.asarray(kept[m_]), snap_[m_], equal_nan=True) for m_ in meths)
    except Exception:
        c["keptok"] = True
    if small:
        if cls.startswith("phased"):
            dos = np.asarray(obj.mat).astype(int).sum(0)
        else:
            dos = obj.mat.astype(int)
        c["dos"] = dos.tolist()
        c["tac"] = np.asarray(obj.tacount()).astype(int).tolist()
        t2, tok = lat(obj.tafreq(), P)
        c["taf2"] = t2.astype(int).tolist() if tok else [[-1] * L] * n
        c["c012"] = np.asarray(obj.mat_asformat("{0,1,2}")).astype(int).tolist()
        if P == 2:
            c["cm101"] = np.asarray(obj.mat_asformat("{-1,0,1}")).astype(int).tolist()
            cm, cok = lat(obj.mat_asformat("{-1,m,1}"), n)
            c["cmm"] = cm.astype(int).tolist() if cok else [[10 ** 6] * L] * n
    return c


def run(ctx):
    rng = random.Random(ctx.seed)
    thorough = ctx.tier == "thorough"
    ctx.rule = ("TLC checks the per-locus identities for every phased composition of populations up to MaxN; matrices "
                "realising every genotype-class composition (n0,n1,n2) for each n in the exhaustive range, plus sizes "
                "49/98/103/107/161/300 and random matrices, are built phased, unphased and via DenseUnphasedGenotyping; "
                "all statistics are recorded in exact integer form and validated by TLC (GenoStats_Trace); non-trivial "
                "locus set: contains polymorphic and fixed loci; distinct by (class,n,loci)")
    ctx.assume("biallelic calls (phases in {0,1}); the exhaustive compositions are diploid, ploidies 1, 3, 4, 6 are covered by random matrices "
               "and an exhaustive TLC model over dosage-class compositions; frequencies logged as round(f*ploidy*n) with lattice residual <= 1e-6",
               "mean expected heterozygosity is taken as (ploidy / L) * sum p(1-p), the form the library documents",
               "exactness at the 0/1 boundary is checked with the default dtype (float64)")
    cfg = "GenoStats_MCT.cfg" if thorough else "GenoStats_MC.cfg"
    for mod, cf in (("GenoStats", cfg), ("GenoStatsPoly", "GenoStatsPoly.cfg")):
        r = tlc.run(mod, cf, timeout=3000)
        tlc.must_pass(r, cf); ctx.add_tlc(r, cf)
        if r.violated:
            ctx.violation("spec:%s:%s" % (mod, r.violated), "TLC: %s violated" % r.violated, r.error)

    from pybrops.popgen.gmat.DenseGenotypeMatrix import DenseGenotypeMatrix
    from pybrops.popgen.gmat.DensePhasedGenotypeMatrix import DensePhasedGenotypeMatrix
    from pybrops.breed.prot.gt.DenseUnphasedGenotyping import DenseUnphasedGenotyping

    plans = []   # (n, loci, small)
    # (A) exhaustive: every genotype-class composition for each n in the range
    exh = list(range(1, 41)) if thorough else [1, 2, 3, 4, 5, 7, 10, 16, 25, 40]
    for n in exh:
        loci = []
        for n0 in range(n + 1):
            for n1 in range(n + 1 - n0):
                n2 = n - n0 - n1
                b = rng.randrange(n1 + 1)
                loci.append((n0, b, n1 - b, n2))
        plans.append((n, loci, False))
    # sizes where 1/(2n) is not exactly representable: fixed loci, near-fixed loci, random ones
    for n in [49, 98, 103, 107, 161, 300] + ([51, 53, 55, 147, 201, 251] if thorough else []):
        loci = [(0, 0, 0, n), (n, 0, 0, 0), (0, 1, 0, n - 1), (1, 0, 0, n - 1), (n - 1, 0, 1, 0), (0, n, 0, 0), (0, 0, n, 0)]
        for _ in range(30):
            a = rng.randrange(n + 1); b = rng.randrange(n + 1 - a); c_ = rng.randrange(n + 1 - a - b)
            loci.append((a, b, c_, n - a - b - c_))
        plans.append((n, loci, False))
    # small matrices with full per-cell outputs (codings, per-taxon counts)
    for _ in range(60 if thorough else 25):
        n = rng.randrange(1, 13); L = rng.randrange(1, 7)
        loci = []
        for _l in range(L):
            if rng.random() < 0.25:
                loci.append(rng.choice([(n, 0, 0, 0), (0, 0, 0, n)]))
            else:
                a = rng.randrange(n + 1); b = rng.randrange(n + 1 - a); c_ = rng.randrange(n + 1 - a - b)
                loci.append((a, b, c_, n - a - b - c_))
        plans.append((n, loci, True))
    allc = []
    cid = 0
    plans = [(n, loci[k:k + 120], small) for n, loci, small in plans for k in range(0, len(loci), 120)]
    for n, loci, small in plans:
        pm = build_phased(loci, n, rng)
        objs = []
        try:
            pg = DensePhasedGenotypeMatrix(pm.copy())
            objs.append(("phased", pg))
            objs.append(("unphased", DenseGenotypeMatrix((pm[0] + pm[1]).astype("int8"), ploidy=2)))
            objs.append(("genotyped", DenseUnphasedGenotyping().genotype(pg)))
        except Exception as e:
            ctx.violation("construct:exception", "%s: %s" % (type(e).__name__, e), {"n": n})
            continue
        for cls, obj in objs:
            cid += 1
            try:
                allc.append(observe(cid, "phased" if cls == "phased" else cls, obj, loci, n, small))
            except Exception as e:
                ctx.violation("%s:exception" % cls, "%s: %s" % (type(e).__name__, e), {"n": n, "loci": loci[:5]})
                continue
            # the same object edited in place after its statistics were queried (remove some taxa, append others):
            # the statistics must describe the matrix as it is now
            if n >= 2 and (small or rng.random() < 0.3):
                try:
                    k = rng.randrange(1, n)
                    obj.remove_taxa(np.array(rng.sample(range(n), k)))
                    if rng.random() < 0.6:
                        add = rng.randrange(1, 4)
                        if cls == "phased":
                            obj.append_taxa(np.array([[[rng.randrange(2) for _ in loci] for _ in range(add)] for _ in range(2)], dtype="int8"))
                        else:
                            obj.append_taxa(np.array([[rng.randrange(3) for _ in loci] for _ in range(add)], dtype="int8"))
                    m = np.asarray(obj.mat)
                    if cls == "phased":
                        loci2 = [(int(((m[0, :, l] == 0) & (m[1, :, l] == 0)).sum()), int(((m[0, :, l] == 0) & (m[1, :, l] == 1)).sum()),
                                  int(((m[0, :, l] == 1) & (m[1, :, l] == 0)).sum()), int(((m[0, :, l] == 1) & (m[1, :, l] == 1)).sum())) for l in range(len(loci))]
                        n2 = int(m.shape[1])
                    else:
                        loci2 = [(int((m[:, l] == 0).sum()), int((m[:, l] == 1).sum()), 0, int((m[:, l] == 2).sum())) for l in range(len(loci))]
                        n2 = int(m.shape[0])
                    cid += 1
                    c2 = observe(cid, "phased" if cls == "phased" else cls, obj, loci2, n2, False)
                    c2["edited"] = True
                    allc.append(c2)
                except Exception as e:
                    ctx.violation("%s:in-place-edit:exception" % cls, "%s: %s" % (type(e).__name__, e), {"n": n})
    # ---- other ploidies (dosages 0..P; phased matrices with P phase planes), and copies of the matrices: a shallow or
    # deep copy must describe the same allele calls as its original (the summaries depend on the ploidy the object carries)
    import copy as _copy
    for t in range(120 if thorough else 48):
        P = [4, 1, 3, 4, 6, 2][t % 6]
        n = rng.choice([1, 2, 3, 5, 8, 13, 49, 103]) if t % 4 else rng.randrange(1, 10)
        L = rng.randrange(1, 7)
        small = n < 10
        pm = np.array([[[rng.randrange(2) for _ in range(L)] for _ in range(n)] for _ in range(P)], dtype="int8")
        for l in range(L):
            r = rng.random()
            if r < 0.15:
                pm[:, :, l] = 1            # fixed for the allele
            elif r < 0.3:
                pm[:, :, l] = 0            # allele absent
            elif r < 0.4:
                pm[: P // 2, :, l] = 1; pm[P // 2:, :, l] = 0     # every taxon carries half of its copies (P even)
        dosem = pm.astype(int).sum(0)
        dose = [[int((dosem[:, l] == k).sum()) for k in range(P + 1)] for l in range(L)]
        comp = dose if P != 2 else None
        try:
            pg = DensePhasedGenotypeMatrix(pm.copy())
            ug = DenseGenotypeMatrix(dosem.astype("int8"), ploidy=P)
            objs = [("phased", pg), ("unphased", ug), ("genotyped", DenseUnphasedGenotyping().genotype(pg)),
                    ("phased", _copy.deepcopy(pg)), ("unphased", _copy.deepcopy(ug)), ("phased", _copy.copy(pg)),
                    ("unphased", _copy.copy(ug)), ("unphased", ug.deepcopy()), ("phased", pg.deepcopy()),
                    # objects derived by the copying selections keep the ploidy (and everything else) of their source
                    ("unphased", ug.select_taxa(np.arange(n))), ("phased", pg.select_taxa(np.arange(n))),
                    ("unphased", ug.select_vrnt(np.arange(L))), ("unphased", ug.select(np.arange(n), axis=0))]
            # the same phases reached by IN-PLACE edits of the phase axis of a matrix that was already queried
            how = t % 3
            if how == 0 and P >= 2:
                pe = DensePhasedGenotypeMatrix(pm[: P // 2].copy()); pe.afreq(); pe.ploidy
                pe.append_phase(pm[P // 2:].copy())
            elif how == 1:
                pe = DensePhasedGenotypeMatrix(np.concatenate([pm, 1 - pm[:1], pm[:1]], axis=0)); pe.afreq(); pe.ploidy
                pe.remove_phase(np.array([P, P + 1]))
            else:
                pe = DensePhasedGenotypeMatrix(pm[1:].copy()) if P >= 2 else DensePhasedGenotypeMatrix(np.concatenate([pm, pm], axis=0))
                pe.afreq(); pe.ploidy
                if P >= 2:
                    pe.incorp_phase(0, pm[:1].copy())
                else:
                    pe.remove(1, axis=0)
            objs += [("phased", pe), ("genotyped", DenseUnphasedGenotyping().genotype(pe))]
        except Exception as e:
            ctx.violation("construct:exception", "ploidy %d: %s: %s" % (P, type(e).__name__, e), {"n": n, "ploidy": P})
            continue
        if P == 2:
            comp = [(int(((pm[0, :, l] == 0) & (pm[1, :, l] == 0)).sum()), int(((pm[0, :, l] == 0) & (pm[1, :, l] == 1)).sum()),
                     int(((pm[0, :, l] == 1) & (pm[1, :, l] == 0)).sum()), int(((pm[0, :, l] == 1) & (pm[1, :, l] == 1)).sum())) for l in range(L)]
        for k, (cls, obj) in enumerate(objs):
            cid += 1
            try:
                c = observe(cid, cls, obj, comp, n, small, P)
                c["copy"] = ["", "", "", ":deepcopy", ":deepcopy", ":copy", ":copy", ":deepcopy", ":deepcopy", ":select_taxa", ":select_taxa",
                             ":select_vrnt", ":select", ":phases-edited-in-place", ":phases-edited-in-place"][k]
                allc.append(c)
            except Exception as e:
                ctx.violation("%s:exception" % cls, "ploidy %d: %s: %s" % (P, type(e).__name__, e), {"n": n, "ploidy": P})
    verd = cases.validate(ctx, "GenoStats_Trace", "GenoStats_Trace.cfg", allc, "GenoStats_Trace", chunk=6, procs=14)
    ctx.traces += len(allc)
    site = {"phased": "DensePhasedGenotypeMatrix", "unphased": "DenseGenotypeMatrix",
            "genotyped": "DenseUnphasedGenotyping->DenseGenotypeMatrix"}
    for c in allc:
        v = verd[c["id"]]
        if "loci" in c:
            ks = {tuple(x) for x in c["loci"]}
            acs = [x[1] + x[2] + 2 * x[3] for x in ks]
        else:
            ks = {tuple(x) for x in c["dose"]}
            acs = [sum(k * v for k, v in enumerate(x)) for x in ks]
        tot = c["ploidy"] * c["n"]
        nt = any(a in (0, tot) for a in acs) and any(0 < a < tot for a in acs)
        ctx.count(1, (c["cls"], c["n"], c["ploidy"], c.get("copy", ""), tuple(sorted(ks))) if nt else None)
        if v != "ok":
            extra = ":n=%d" % c["n"] if v.startswith("afreq-not-exactly") or v in ("afixed", "apoly") else ""
            ctx.violation("%s:%s%s%s" % (site[c["cls"]], v, ":after-in-place-edit" if c.get("edited") else "", c.get("copy", "")),
                          "TLC verdict %s (ploidy=%d, n=%d, %d loci%s)" % (v, c["ploidy"], c["n"], len(c.get("loci", c.get("dose"))), ", statistics queried, then taxa removed/appended in place" if c.get("edited") else ""),
                          {k: (c[k][:12] if isinstance(c[k], list) else c[k]) for k in c})
        if not c.get("keptok", True):
            ctx.violation("%s:result-of-an-earlier-call-changed-by-a-later-call" % site[c["cls"]], "a statistic array handed out earlier changed when the same statistic was asked of another matrix", {"n": c["n"], "ploidy": c["ploidy"]})
        if not c["dtypeok"]:
            ctx.violation("%s:requested-dtype" % site[c["cls"]], "a requested output dtype was not honoured, or the values delivered in it differ from those of the default call", {"n": c["n"]})
    s = allc[-1]
    ctx.sample({k: s[k] for k in ("cls", "n", "ploidy", "loci", "dose", "acount", "af", "poly", "fixed", "maf", "meh", "gt") if k in s})
    ctx.sample({"verdict": verd[s["id"]]})
    ctx.exhaustive = True
