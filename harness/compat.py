"""Harness-side environment shim.

pybrops (pinned commit) uses numpy aliases removed in numpy 2.x.  No listed property is about
importability, so the aliases are installed here, in the harness process only, *before* pybrops is
imported; nothing under /repo is touched.  Also puts the repository working tree under test
(VERIF_REPO, default /repo) at the front of sys.path so checks always run the current tree.
"""
import os, sys
import numpy

REPO = os.environ.get("VERIF_REPO", "/repo")
if REPO in sys.path:
    sys.path.remove(REPO)
sys.path.insert(0, REPO)

_alias = {
    "float_": numpy.float64, "int_": numpy.int64, "complex_": numpy.complex128,
    "unicode_": numpy.str_, "string_": numpy.bytes_, "bool8": numpy.bool_,
    "object0": numpy.object_, "NaN": numpy.nan, "Inf": numpy.inf, "infty": numpy.inf,
    "in1d": numpy.isin, "product": numpy.prod, "row_stack": numpy.vstack,
    "cumproduct": numpy.cumprod, "alltrue": numpy.all, "sometrue": numpy.any,
}
for _k, _v in _alias.items():
    if not hasattr(numpy, _k):
        setattr(numpy, _k, _v)
if not hasattr(numpy, "trapz") and hasattr(numpy, "trapezoid"):
    numpy.trapz = numpy.trapezoid

import warnings
warnings.filterwarnings("ignore")

# ---- uninitialised memory made visible ------------------------------------------------------------------------------
# numpy.empty() hands out whatever the heap contains; a result that reads entries it never wrote is then correct or
# wrong depending on the process history (found in the EMBV problem factory, the haplotype block values and the genic
# variance tensors).  In the harness process every array coming from numpy.empty / empty_like is pre-filled with a
# sentinel (NaN for floats, a large value for integers), so such a read shows up deterministically in whichever property
# the value belongs to.  Code that writes every entry it later reads behaves exactly as before.  VERIF_POISON_EMPTY=0
# switches this off.
if os.environ.get("VERIF_POISON_EMPTY", "1") != "0" and not getattr(numpy, "_verif_poisoned", False):
    _orig_empty = numpy.empty
    _orig_empty_like = numpy.empty_like

    def _poison(a):
        try:
            k = a.dtype.kind
            if k == "f" or k == "c":
                a.fill(numpy.nan)
            elif k == "i" or k == "u":
                a.fill(numpy.iinfo(a.dtype).max // 3)
        except Exception:
            pass
        return a

    def _empty(*args, **kwargs):
        return _poison(_orig_empty(*args, **kwargs))

    def _empty_like(*args, **kwargs):
        return _poison(_orig_empty_like(*args, **kwargs))

    numpy.empty = _empty
    numpy.empty_like = _empty_like
    numpy._verif_poisoned = True
