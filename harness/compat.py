"""Harness-side environment shim.

pybrops (pinned commit) uses numpy aliases removed in numpy 2.x.  No listed property is about
importability, so the aliases are installed here, in the harness process only, *before* pybrops is
imported; nothing under /repo is touched.  Also puts the repository working tree under test
(VERIF_REPO, default /repo) at the front of sys.path so checks always run the current tree.
"""
import os, sys
import numpy

REPO = os.environ.get("VERIF_REPO", "/repo")
if REPO in sys.path:
    sys.path.remove(REPO)
sys.path.insert(0, REPO)

_alias = {
    "float_": numpy.float64, "int_": numpy.int64, "complex_": numpy.complex128,
    "unicode_": numpy.str_, "string_": numpy.bytes_, "bool8": numpy.bool_,
    "object0": numpy.object_, "NaN": numpy.nan, "Inf": numpy.inf, "infty": numpy.inf,
    "in1d": numpy.isin, "product": numpy.prod, "row_stack": numpy.vstack,
    "cumproduct": numpy.cumprod, "alltrue": numpy.all, "sometrue": numpy.any,
}
for _k, _v in _alias.items():
    if not hasattr(numpy, _k):
        setattr(numpy, _k, _v)
if not hasattr(numpy, "trapz") and hasattr(numpy, "trapezoid"):
    numpy.trapz = numpy.trapezoid

import warnings
warnings.filterwarnings("ignore")
