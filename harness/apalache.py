"""Thin Apalache runner (symbolic checks of inductive invariants over unbounded parameters).
Everything Apalache writes goes to a temporary directory that is removed afterwards."""
import os, re, shutil, subprocess, tempfile, time
from . import tlc


def check(module, init, inv, nxt, length, timeout=900):
    """returns dict(outcome='NoError'|'Error', wall, cmd); raises TLCFailure for anything else (type errors, timeouts)"""
    out = tempfile.mkdtemp(prefix="apa_")
    cmd = ["apalache-mc", "check", "--init=" + init, "--inv=" + inv, "--next=" + nxt, "--length=%d" % length,
           "--out-dir=" + out, "--run-dir=" + os.path.join(out, "run"), module + ".tla"]
    t0 = time.time()
    try:
        env = dict(os.environ, JVM_ARGS=os.environ.get("JVM_ARGS", "-Xmx3g"))
        r = subprocess.run(cmd, cwd=tlc.SPEC_DIR, stdout=subprocess.PIPE, stderr=subprocess.STDOUT, text=True, timeout=timeout, env=env)
    except subprocess.TimeoutExpired:
        raise tlc.TLCFailure("apalache timeout: " + " ".join(cmd))
    finally:
        shutil.rmtree(out, ignore_errors=True)
    m = re.search(r"The outcome is: (\w+)", r.stdout)
    if not m or m.group(1) not in ("NoError", "Error"):
        raise tlc.TLCFailure("apalache failed: %s\n%s" % (" ".join(cmd), r.stdout[-1500:]))
    return {"outcome": m.group(1), "wall": round(time.time() - t0, 1), "cmd": " ".join(cmd[:-3] + [cmd[-1]]),
            "init": init, "inv": inv, "next": nxt, "length": length}
