"""Generates /verif/MANIFEST.json from the table below (keeps it schema-valid at all times)."""
import json, os
ROOT = os.path.dirname(os.path.dirname(os.path.abspath(__file__)))

CHECKS = {}
NOT_APPLICABLE = {}

# input families added to the drivers by the later seeding rounds (h-j); appended to the description of what the check covers
LATER = {
    "C01": "Progeny / family counters of up to nine digits; index arrays in narrow dtypes over 60 taxa; the low-level mating helpers.",
    "C03": "Histories include a re-assignment of the taxa group labels through the property, genome-scale positions with 32-bit labels, "
           "negative group labels and a zero chromosome label.",
    "C04": "Population sizes at which (1/m)*m is not 1.0, with monomorphic loci; responses in integer dtypes.",
    "C06": "Problems with a declared objective weight other than 1; signed constraint slacks; decision spaces revised through setters.",
    "C07": "Protocol objects resized through their setters before select(); non-linear preference transformations.",
    "C08": "Components whose generator is assigned through the rng property after construction; objects built, copied, saved and "
           "restored before the seeding.",
    "C09": "Phase axis edited in place; statistic arrays handed out earlier re-examined after the same statistics were asked of another matrix.",
    "C10": "Populations of 60,000-150,000 individuals with single-copy alleles; founders in Fortran-ordered and transposed-view layouts.",
    "C11": "Maps whose chromosome left or was relabelled through the property before the spline was rebuilt; a spline dictionary shared with a second map.",
    "C12": "Variances read through exported tables, partial tables loaded again, and usefulness criteria held by problems built through "
           "the factory of each decision encoding.",
    "C13": "Marker weights in integer / boolean / float32 dtypes; format names in any letter case.",
    "C14": "Variance components as arrays (one array object shared between components); trials run by a protocol restored from HDF5.",
    "C15": "Original-scale export with every combination of the optional label columns, read back; truncation in place.",
    "C16": "Tables with one group column left out on both sides; genetic maps written and read in Morgans; labels with blanks.",
    "C18": "Cross values held by problems built through the OHV factory of each decision encoding; block values of all three problem families.",
    "C19": "Objectives / weights on scales 2^57 apart; fronts translated by 2^20.",
}


def check(pid, text, note, technique, design_ref):
    if pid in LATER:
        text = text + " " + LATER[pid]
    CHECKS[pid] = dict(text=text, note=note, technique=technique, design_ref=design_ref)

check("C19",
      "TLC exhaustively model-checks the pivot-loop algorithm of is_pareto_efficient (as a state machine) against the "
      "O(n^2) definition for all sequences of <=4 points on a 3x3 grid (2 objectives) and the 2x2x2 grid (3 objectives), "
      "checks termination, the dominance order laws and translation invariance/range of the distance transform; every "
      "execution of the real functions (exhaustive small grid + random clouds with ties/duplicates + three distance "
      "transforms) is recorded and validated by TLC against the spec relations (Pareto_Trace).",
      "Integer coordinates and weights only; distances compared as round(d^2*S) on an exact integer lattice; the spec "
      "relation (Admissible) leaves free which of several equal points is marked.",
      "TLA+ spec (Pareto.tla) model-checked by TLC + TLC trace validation of recorded executions of the real code",
      "DESIGN.md C19")

check("C20",
      "TLC model-checks the evolve/reset/advance control skeleton with environment operators that keep, mutate in place "
      "(container or member) or replace every state slot (nrep<=3, ngen<=2): StartNeverModified, ReplicateStartsEqual, "
      "TimeIndex, LogbookRep, termination; the shallow-copy and aliasing variants of reset must produce TLC "
      "counterexamples (non-vacuity). Apalache discharges an inductive invariant of the same actions (BreedingLoop_Apa.tla, "
      "INSTANCE of BreedingLoop) for arbitrary numbers of replicates and generations, from which the five invariants follow. "
      "TLC-simulated behaviours are replayed through the real evolve() with scripted "
      "instrumented operators and random operator behaviours are added (up to 6 replicates x 8 generations); each "
      "recorded call trace (identity of containers/members received and returned, content fingerprints, t_cur, "
      "lbook.rep, mcfg, miscout token, start fingerprints after every call) is validated by TLC against the spec "
      "actions (BreedingLoop_Trace) with Reset/Tick as silent inferred steps. Direct advance(k) and reset() calls after evolve() "
      "has returned are actions of the same module (MoreAdvance, ResetCall; time continues from where the programme stands, "
      "CycleTicksByOne) and are driven and logged in about half of the random runs.",
      "Operators and logbook are instrumented subclasses (no in-repo hook); content equality is fingerprint equality "
      "of dict containers of small mutable members.",
      "TLA+ spec (BreedingLoop.tla) model-checked by TLC, inductive invariant for unbounded counters by Apalache + TLC trace validation of recorded call traces; spec->code replay of TLC-simulated behaviours",
      "DESIGN.md C20")

check("C17",
      "TLC model-checks the SUS pointer walk as a state machine in exact scaled-integer arithmetic (all weight vectors of "
      "<=4 options over {0,1,2,3,5}, k<=6 pointers, offsets o/4 of the pointer distance: in-range walk, floor/ceiling "
      "counts, termination; the offset-exactly-0 variant yields the design-level counterexample) and the outcross "
      "exchange search (all 3x2, 2x3, 2x2 tables over 3 symbols: multiset preserved, duplicate count never increases, "
      "terminates, stops only at 1-exchange local optima). Real executions are validated by TLC (Sampling_Trace): the "
      "same SUS grid with scripted offsets (pointer-walk equality away from exact ties), real generators with "
      "wide-magnitude/tied/zero weights and 1-d/2-d sizes, tiled choice balance, axis shuffle slice confinement (C-ordered, "
      "Fortran-ordered, transposed and strided arrays), and "
      "outcross runs recorded as one table snapshot per outer iteration (each step must be one improving exchange; "
      "half of the runs use an adversarial exchange order).",
      "Proportionality is checked on integer weight vectors (the code receives them times a float scale); offset exactly "
      "0.0 is a listed known finding; axis_shuffle on 2-d arrays with non-negative axes.",
      "TLA+ spec (Sampling.tla) model-checked by TLC + scripted-generator replay of the model grid + TLC trace validation",
      "DESIGN.md C17")

check("C01",
      "TLC explores the lineage of one progeny through every code block of each of the seven mating protocols (first "
      "hybridisation from the configured columns, second hybridisation / backcross, selfing generations, doubled "
      "haploid) with crossover masks chosen nondeterministically within the crossover-probability classes, for all "
      "parent tuples, all class vectors over 3 loci, selfing depth 0..1, and checks the provenance relation (each copy a "
      "mosaic of the designated sources, source changes only where a crossover is possible, DH homozygous) plus the "
      "numpy.repeat index-expansion laws; every real mate() call on provenance-tagged parents (700/2800 random "
      "configurations over all seven protocols: selfs, repeated parents, scalar and per-cross array counts, nself 0..3, "
      "exact 0/0.5/1 probabilities, Generator and RandomState, non-zero counters) is validated by TLC against the "
      "relation, the progeny count/order/names/family labels/counters, parent immutability and marker metadata. One plan "
      "(configuration and count arrays) is handed to two successive mate() calls; large calls (block seams) are validated through "
      "summaries; the matrix-level helpers under the protocols (mat_mate, dense_cross, mat_dh, dense_dh) are called directly with "
      "the female / male arrays being one array, separate arrays or two views of one population array.",
      "Parents carry provenance tags (2i+h); the starting copy of a gamete is left free (C02 decides distribution); "
      "crossover probabilities abstracted to classes {=0, in (0,1), >=1}.",
      "TLA+ spec (Mating.tla) model-checked by TLC + TLC validation of recorded mate() executions",
      "DESIGN.md C01")

check("C02",
      "TLC makes the uniform draws an explicit variable on the grid u=U/4, p=J/4 and, for every probability vector, counts "
      "grid points to check the exact identities: adjacent recombination = xoprob, non-adjacent = Haldane composition "
      "(1-prod(1-2r))/2, independence of crossovers in different intervals, 1:1 segregation with 0.5 at the chromosome "
      "start, independent assortment of chromosome starts; the '<=' variant must be rejected (non-vacuity). Every "
      "(J,U) grid point is replayed through the real mat_meiosis and dense_meiosis with scripted dyadic draws and the "
      "produced gamete is compared by TLC with the spec's gamete (decides '<' at the equality boundary, the starting "
      "copy and segment copying exhaustively). Statistical sanity: real PCG64 streams through both functions and all "
      "seven protocols, all locus pairs + segregation against TLC-computed exact probabilities; with selfing generations inside "
      "the DH protocols (nself 1, 2) the joint parent of origin of two loci is z-tested against the tables TLC enumerates in ProgenyVar.",
      "Assumes numpy's generators are iid U[0,1); statistical sub-check at |z|<=5.5 with one independent 4x re-test; a "
      "scripted replay whose draw requests differ in shape from the spec's is inapplicable (not a violation).",
      "TLA+ spec (MeiosisProb.tla) exact counting by TLC + scripted-draw replay validated by TLC + z-tests on TLC-computed probabilities",
      "DESIGN.md C02")

check("C09",
      "TLC checks the per-locus identities (frequency range, 0/1 exactly when all copies are equal, fixed = not polymorphic, "
      "phased counting = unphased counting incl. the phased all()-test, genotype classes sum to n, minor count, "
      "heterozygosity) for every phased composition of populations up to 24 (60 thorough). Matrices realising EVERY "
      "genotype-class composition for each n in the exhaustive range, the sizes 49/98/103/107/161/300 where 1/(2n) is not "
      "representable (fixed, near-fixed and random loci) and small random matrices are built as phased matrix, unphased "
      "matrix and via DenseUnphasedGenotyping; acount, afreq (+ exact-0/1 flags), apoly, afixed, maf, meh, gtcount, "
      "gtfreq, tacount, tafreq, the three codings and requested dtypes are recorded in exact integer form and "
      "validated by TLC (GenoStats_Trace). Other ploidies (1, 3, 4, 6): the same identities over dosage-class compositions are "
      "model-checked (GenoStatsPoly, ploidy <= 6, n <= 9) and random matrices of these ploidies, and shallow / deep copies of "
      "every matrix, are validated with the same trace specification.",
      "Biallelic calls; the exhaustive compositions are diploid; mean expected heterozygosity taken as (ploidy/L) sum p(1-p); float outputs logged as round(f*scale) with a lattice residual <= 1e-6; exactness at "
      "the 0/1 boundary tested with the default dtype.",
      "TLA+ spec (GenoStats.tla) model-checked by TLC + TLC validation of recorded statistics of the real classes",
      "DESIGN.md C09")

check("C10",
      "TLC explores every step between populations (<=2, thorough <=3 individuals over 2 loci, effects in {-1,0,1}) that "
      "Mendelian transmission through up to two generations allows and checks: limits bracket every individual and every "
      "reachable descendant, limits equal the common value in a fixed population, and the action properties 'upper "
      "limit never increases', 'lower limit never decreases', 'lost alleles never reappear'. Closed breeding programmes "
      "run on the real code (all seven mating protocols with real generators, truncation/random/very strong selection, "
      "population sizes incl. 49/98/103/107/161/250, boundary loci with a single remaining copy, 1-3 traits, integer "
      "intercepts, usl/lsl called on matrices and on raw arrays, scaled and unscaled) are validated generation by "
      "generation by TLC, which re-derives the limits from the logged allele counts.",
      "Integer effects/intercepts so every reported value is an integer (lattice residual <= 1e-6); allele counts are "
      "projected from the raw genotype arrays by the harness.",
      "TLA+ spec (SelLimits.tla) model-checked by TLC (invariants + action properties) + TLC validation of recorded breeding histories",
      "DESIGN.md C10")

check("C03",
      "TLC model-checks a single labelled axis as a state machine (pool of 4 entities with duplicated names and groups, "
      "length <=3; select/delete/insert/append/reorder/sort/group/ungroup with every argument numpy gives a meaning to) for "
      "the group-cache invariant GroupedOK and the action property CacheOnlyFromGroup; the as-written variant (reorder keeps "
      "the cache) must yield TLC's Group->Reorder counterexample. Random operation histories are run on 14 concrete classes "
      "(base taxa/variant/trait matrices, taxa-variant, phased, taxa-trait, square-taxa, square-taxa-trait, genotype, phased "
      "genotype, two coancestry and two variance classes) under four label-presence patterns; every step is executed in its "
      "axis-specific and axis-generic (positive/negative axis) forms, mutating and non-mutating, and each variant is "
      "validated by TLC against the numpy-argument semantics of the spec operators: entities after the operation, every label "
      "array attached to its entity, presence of optional arrays, truth of any reported grouping, other axes untouched, "
      "operand immutability, data cells = injective code of the entity ids.",
      "Entity ids are decoded from the data cells; valid-argument alphabet per DESIGN Appendix A; sort order is only "
      "required to be non-decreasing in the axis keys (either priority). Three families of genuine defects are listed as "
      "known findings (regex keys naming kind/defining method/axis/clause/field).",
      "TLA+ spec (LabelledMatrix.tla) model-checked by TLC + TLC validation of every step of recorded operation histories on the real classes",
      "DESIGN.md C03")

check("C15",
      "TLC checks the algebra of the per-trait summaries (mean between extrema, variance >= 0 and = 0 iff constant, stored "
      "scale positive) for all taxa axes of <=4 entities over a raw-value table with a constant trait, a 10^6 offset and "
      "missing values. Histories of taxa-axis operations (construct, select, delete, insert, adjoin, concat, reorder, sort, "
      "group and the in-place append/remove/incorp) run on DenseBreedingValueMatrix, DenseEstimatedBreedingValueMatrix and "
      "DenseGenomicEstimatedBreedingValueMatrix in specific/generic and mutating/non-mutating forms with matrix and raw-array "
      "operands; every step is validated by TLC against the raw table: retained taxa carry their raw values (unscale), NaN "
      "stays where it was, labels attached, location = nan-mean, scale = nan-std (1 for a constant trait), tmax/tmin/trange/"
      "tmean/tvar/tstd on the original scale, stored-scale extrema mapped back, arg-extrema attain the extrema.",
      "Raw values are integers (lattice residual 1e-6); means compared as mean*m and variances as var*m^2; extrema checked on "
      "traits without a missing value on the axis; two families of genuine defects (in-place append/incorp/remove ignore "
      "scaling; concat_taxa raises TypeError) are listed known findings.",
      "TLA+ spec (ScaledBV.tla + SeqOps.tla) model-checked by TLC + TLC validation of every step of recorded histories on the real classes",
      "DESIGN.md C15")

check("C16",
      "TLC model-checks the file as a map location->field->dataset under all write histories (<=3 writes, 2 locations, "
      "every presence subset of the optional fields): 'read back = last object written'; and copy isolation on a cell heap "
      "(a deep copy equals its source when made; mutating it never changes the source). The as-written write (None fields "
      "skipped) and a sharing deepcopy must both be rejected by TLC. On the real code: write/read histories on one HDF5 file "
      "(rich vs poor objects, grouped/ungrouped, non-ASCII labels and group paths, nested groups, str/Path/open handle) for "
      "18 persistable classes (genotype, phased genotype, three breeding-value, four coancestry, eight variance/covariance, "
      "two genomic models); copy.copy/copy.deepcopy/.copy()/.deepcopy() followed by in-place mutation of every array of the "
      "copy; data-frame and CSV round trips with matching options (breeding values, coancestry, two-way variance in "
      "canonical form, Standard/Extended genetic maps in cM); VCF import of phased diploid calls against the abstract VCF "
      "content. TLC compares full projections (dtype, shape, values of every public data attribute incl. group metadata) "
      "and reports the set of differing fields.",
      "Bit-exact float comparison via repr except breeding-value data-frame round trips (9 significant digits: the values "
      "are re-standardised); two listed known findings (group cache lost in data-frame round trips; variance matrices "
      "come back in sorted label order).",
      "TLA+ spec (Store.tla) model-checked by TLC + TLC validation of recorded write/read/copy/round-trip histories of the real classes",
      "DESIGN.md C16")

check("C18",
      "TLC runs the greedy apportionment of blocks to chromosomes as a state machine (exact rational comparison; equals the "
      "recursive function; terminates; total = request; every chromosome >= 1) and checks the partition clauses (every "
      "marker in exactly one block, ordered and contiguous, inside its chromosome) for every layout of <=2 chromosomes x <=3 "
      "markers over 4 positions and every admissible block total; the ExactTotal clause is checked in a separate run where "
      "TLC exhibits the tied/clustered layouts that leave an equal-width bin empty. All these layouts, boundary-aligned "
      "layouts (markers exactly on bin boundaries) and random clustered layouts are run through nhaploblk_chrom, haplobin, "
      "haplobin_bounds, haplomat and through the OHV problem's _calc_haplomat/_calc_xmap/_calc_ohvmat (all chunk sizes) "
      "and the OPV problem's latent function; TLC validates apportionment, the binning relation (boundary markers may "
      "join either neighbour), bounds = runs of the labels, block value = genotype . effects over the block, surplus "
      "blocks zero, conservation of the copy's total value, OHV/OPV = ploidy * sum over blocks of the best block value, "
      "finiteness and the requested total.",
      "Integer positions (handed over divided by 10), genotypes in {0,1}, integer effects; requests whose apportionment "
      "exceeds a chromosome's marker count raise in the library and are outside the domain; the 'exactly the requested "
      "total' clause is a listed known finding for empty equal-width bins.",
      "TLA+ spec (Haplo.tla) model-checked by TLC + TLC validation of recorded executions of the real functions and problems",
      "DESIGN.md C18")

check("C11",
      "TLC checks, for every well-formed map of <=4 rows over 2 chromosomes in every row order, that interpolation at the "
      "map's own markers returns the stored positions, is order preserving for congruent maps and lies between the "
      "flanking positions, and the lattice laws of the Haldane and Kosambi functions built from their addition laws "
      "(monotone, within [0,1/2], closed under composition, Haldane <= Kosambi <= d). Real StandardGeneticMap and "
      "ExtendedGeneticMap objects built from several row orders of small maps and from random maps with 2-4 chromosomes are "
      "queried inside and outside the marker range and on absent chromosomes: stored order, is_congruent, interp_genpos, "
      "interp_gmap, gdist1g/gdist2g/gdist1p/gdist2p (infinity pattern, symmetry, values) are validated by TLC in exact "
      "scaled integers. mapfn/invmapfn of both functions and the crossover probabilities assigned by interp_xoprob on "
      "lattice maps are compared with TLC's exact rationals r_k.",
      "Genetic positions multiples of 1/8 Morgan and integer physical positions (all interpolants on the lattice 1/(8S)); "
      "map functions decided on d = k*delta with r(delta)=1/10 plus 0 and infinity; the last float comparison (1e-9) of "
      "lattice values is done in the harness on TLC-computed rationals; inverse asserted for d <= 3 Morgans.",
      "TLA+ spec (GenMap.tla) model-checked by TLC + TLC validation of recorded map queries + TLC-computed exact lattice values for the map functions",
      "DESIGN.md C11")

check("C13",
      "TLC checks, for every genotype set of <=3 individuals x <=2 markers at ploidy 1 and 2, that the closed forms used by "
      "the code equal the definition of molecular coancestry (twice the mean identity-by-state probability of alleles drawn "
      "from the two individuals), symmetry, the self-coancestry range and a finite positive-semidefiniteness witness. "
      "Matrices from DenseMolecular/VanRaden/Yang/GeneralizedWeighted coancestry classes and the two factories (phased and "
      "unphased inputs, ploidy 1 and 2, estimated / array / scalar reference frequencies, marker weights, coancestry and "
      "kinship formats) on small and random larger (4-30 taxa) genotype sets are logged entry by entry as rationals and "
      "validated by TLC against the published formulas in exact arithmetic; kinship = coancestry/2, exact symmetry and the "
      "source's taxon labels/groups are checked; because every entry is validated against a per-entry formula, commutation "
      "with permutation/sub-selection follows.",
      "Entries are converted with Fraction.limit_denominator(20000) and a 1e-9 residual check; inverse, min_inbreeding, "
      "max/min/mean, max_inbreeding and positive semidefiniteness beyond 3x3 are compared with numpy linear algebra in the "
      "harness (TLC has no reals) - stated partial scope.",
      "TLA+ spec (Coancestry.tla) model-checked by TLC + TLC validation of recorded matrix entries of the real classes",
      "DESIGN.md C13")

check("C04",
      "TLC checks taxon-permutation equivariance, additivity over every marker split, consistency of the allele-class flags and "
      "variance signs for all models with <=3 taxa, <=2 markers and effects in -2..2. For the additive and additive-dominance "
      "models, gebv/gegv/predict on phased, unphased and raw inputs (which must agree), taxon permutations, marker splits, "
      "TrueBreedingValue, score (R^2), var_A, var_G, var_a, bulmer (NaN exactly when the genic variance is 0) and the fourteen "
      "favourable/deleterious/neutral allele count/frequency/availability/fixation/polymorphism functions are validated by TLC "
      "in exact integers/rationals on small exhaustive-size and random larger inputs (up to 60 taxa x 12 markers, 1-2 traits, "
      "1-2 fixed effects, monomorphic markers, zero effects); output rows must carry the input labels. rrBLUP fits: TLC decides "
      "intercept = training mean, monomorphic markers have effect exactly 0 and verifies the integer coefficient matrices; the "
      "penalised-criterion and normal-equation inequalities are evaluated in floating point.",
      "Integer effects/intercepts (values on an integer lattice, residual 1e-6); bulmer and R^2 as rationals; rrBLUP's ridge is "
      "the one implied by the solution (residual of the normal equations proportional to u with a non-negative factor) - TLC "
      "has no reals, stated partial scope.",
      "TLA+ spec (LinModel.tla) model-checked by TLC + TLC validation of recorded outputs of the real model classes",
      "DESIGN.md C04")

check("C14",
      "TLC builds the trial table block by block (one action per replicate block, environment-major) and checks record count, "
      "exactly-once, layout and the position function for every design with <=3 taxa, <=3 environments and <=2 replicates. The "
      "real G_E_Phenotyping is driven with a scripted multivariate_normal that returns integer environment / replicate / "
      "per-record error effects (the request log must show exactly that effect structure), zero-variance trials and "
      "TruePhenotyping are included; every record (labels, environment, replicate, value) is validated by TLC. "
      "MeanPhenotypicBreedingValue.estimate on shuffled tables with permuted, extra and missing genotype taxa (arithmetic "
      "mean per taxon, alignment to the genotype order, missing reported) and set_h2/set_H2 (error variance = (1-h2)/h2 * "
      "genetic variance in exact rationals) are validated by TLC. Realised environment / replicate / error variance "
      "components of large real-generator trials are z-tested against the requested ones.",
      "Scripted integer effects make record values exact integers; variance sanity at |z|<=5.5 with one independent 4x "
      "re-test, assuming numpy's normal generator.",
      "TLA+ spec (Phenotyping.tla) model-checked by TLC + scripted-generator replay and TLC validation of recorded trials / estimates",
      "DESIGN.md C14")

check("C12",
      "TLC pushes the exact distribution over origin-labelled two-locus diploid genotypes through the pedigree of each scheme, "
      "one action per generation (first hybridisation, backcross / second hybridisation, selfing generations, doubled haploid), "
      "for every recombination fraction k/8: two-way (selfing 0..3), three-way and four-way (0..2 / 0..1); it checks the "
      "enumerated recombinant fraction against the closed recurrence whose limit is 2r/(1+2r), the Mendelian shares of the "
      "origins, locus symmetry and complete linkage, and emits the joint-origin tables. With these tables TLC validates, in "
      "exact rationals, every sampled entry (all parent index tuples incl. repeated parents, identical parents) of the real "
      "two-/three-/four-way genetic and genic variance matrices, the two-/three-/four-way genetic covariance matrices "
      "(between traits), the dihybrid genetic and genic variance matrices (heterozygous parents: the four haplotypes are the origins of the four-way tables), for chunk sizes 1/2/None/1024, selfing depths 0..3 and selfing for ever (every scheme: the limit stage SelfForever of the model, whose recombinant share TLC checks to be invariant under one more enumerated generation), 1-3 chromosomes with tied "
      "and linked markers, and the usefulness-criterion values ((UC - parental mean)^2 / i^2 must equal the variance).",
      "Inbred parents; Haldane positions chosen so that all pairwise recombination fractions are multiples of 1/8; the (abstract, non-instantiable) genic "
      "covariance classes are not covered; observed entries converted with Fraction.limit_denominator(2e5).",
      "TLA+ spec (ProgenyVar.tla) generation-by-generation enumeration by TLC, tables fed back into a TLC trace validation of recorded matrix entries",
      "DESIGN.md C12")

check("C05",
      "TLC checks positive-scaling invariance, non-negativity of the quadratic form and betweenness of the linear criterion for all "
      "contribution vectors of <=3 candidates. For fourteen criterion families (EBV, GEBV, weighted and generalised weighted GEBV, "
      "random, EMBV, OHV, UC, family EBV, optimal contribution, mean genomic relationship, mean expected heterozygosity, L1 and L2 "
      "allele-frequency distance) plus the population allele-frequency distance, allele unavailability and their multi-objective "
      "combination (subset encoding only; selections of up to 103 candidates), the latent vector is computed by the real subset, "
      "integer, binary and real problem classes for the same contribution vector (two listings of a subset, two scalings of a real "
      "vector, up to 7 candidates, 1-2 traits) and every value is validated by TLC against the criterion's definition in exact "
      "rationals (norms as squares through the Gram matrix), so encoding equivalence, order and scale invariance follow. Assembled "
      "objectives and inequality/equality constraint values with weights and identity/sum/dot/non-linear transformations are "
      "validated too, as is the data held by problems built through from_bvmat, from_gmat_gpmod, from_bvmat_gmat and from_gmat "
      "(population data in the population's unsorted taxon order).",
      "Integer data; kinship factors are integer upper-triangular matrices whose Gram matrix is given to TLC; OPV / genotype builder "
      "(subset-only, max-based) are covered under C18; factory checks compare arrays numerically (1e-9 / 1e-5 for Cholesky factors).",
      "TLA+ spec (SelObjective.tla) model-checked by TLC + TLC validation of recorded latent/objective values of ~56 real problem classes",
      "DESIGN.md C05")

check("C06",
      "TLC checks the exchange hill climber as a state machine (Steepest / Stop actions) over all subset problems of 4 candidates "
      "(members stay distinct, strict lexicographic descent in (violation, score), stops only at local optima, termination, a "
      "separable local optimum is global). Every optimiser class (sorting, both hill climbers, single-objective subset GA, NSGA-II, "
      "NSGA-III and four memetic NSGA-II subset variants, integer/binary/real GA and NSGA-II) and the subset/integer variation "
      "operators are run on random integer-data problems; TLC validates each returned solution (size, membership, distinctness, "
      "bounds, integrality, dtype), re-evaluates objective and constraint violation from the problem data, checks constraint-"
      "domination inside fronts, the brute-force optimum for the sorting optimiser on separable problems, every hill-climber "
      "step (rebuilt from the evaluation log) against the Steepest action and the final state against LocalOpt, and that the "
      "problem object is unchanged.",
      "Objective data are integers; real vectors compared in thousandths with a rounding allowance and ordered by dense ranks; "
      "constrained genetic runs in which pymoo finds no feasible member raise while assembling the Solution and return nothing "
      "(counted in the evidence, outside the property); pymoo draws from numpy's global generator, seeded per case.",
      "TLA+ spec (Optimizers.tla) exhaustive TLC model check + TLC trace validation of recorded solutions, trajectories and operator offspring (Optimizers_Trace.tla)",
      "DESIGN.md C06")

check("C07",
      "TLC checks the configuration pipeline as a state machine (Draw by tiled choice or stochastic universal sampling, Exchange* of the "
      "outcross search, Settle, RowMix) for all decisions over 3-4 candidates and 3x2 / 2x2 / 2x3 tables: a finished configuration "
      "refers only to chosen candidates, has the multiplicities the decision dictates and no self pairing that one exchange removes; "
      "the multiset is kept, the self-pairing count never rises, the search terminates, the closed form of the tiled multiplicities is "
      "exact; the variant that mixes inside columns is rejected by TLC. All eight configuration classes (subset / integer / binary / "
      "real and mate variants, both generator kinds), select() of eighteen protocol families (EBV, GEBV, weighted / generalised weighted GEBV, random, MGR, MEH, OHV, UC, family EBV, OCS, EMBV in four encodings; OPV, genotype builder, PAFD, PAU, MOGS as subset protocols; L2 norm) with exact and genetic "
      "optimisers, permuted / relabelled twin populations and multi-objective protocols with a declared linear preference are "
      "executed; TLC validates shape, membership, multiplicities, 1-exchange optimality, configuration metadata, the cross map "
      "against the ordered upper triangle, the truncation choice (best k by the criterion), equivariance under permutation and the "
      "preference choice (argmax of the declared transformation over a non-dominated front).",
      "Integer / binary multiplicities follow the tiling of the option list; real weights returned by optimisers are rounded to 1e-6 "
      "with the matching allowance; truncation is asserted for separable criteria with the sorting optimiser and the hill climbers; "
      "L2NormGenomic*Selection cannot build its problem (known finding).",
      "TLA+ spec (XConfig.tla) exhaustive TLC model check with a rejected wrong variant + TLC trace validation of recorded configurations, cross maps and choices (XConfig_Trace.tla)",
      "DESIGN.md C07")

check("C08",
      "TLC checks the twin product of the intended entropy design: two interpreters with different prior histories execute the same "
      "Seed(s) and the same calls (kinds lib / select / pymoo; rng omitted, caller-made, or spawned after seeding); after seeding the "
      "results and both global streams coincide, a call given a generator depends only on that generator and leaves Python's and "
      "NumPy's global streams untouched. The three as-written variants (OS entropy inside pymoo, custom operators on the global "
      "stream, select() sampling from the global stream) are refuted by TLC. Every catalogued stochastic call (4 sampling utilities, "
      "7 mating protocols, the dense meiosis / DH / cross helpers, phenotyping, 8 configuration classes, two hill climbers, prng "
      "wrappers, jitter, EMBV matrix, 5 selection protocols, 13 pymoo-based optimisers, 15 deterministic computations that may consume no "
      "source at all, and 11 calls on components that were built, shallow- or deep-copied BEFORE the seeding) is executed in two fresh interpreters with different hash seeds and histories under four rng "
      "regimes plus random programs with mid-program re-seeding, the heap's free lists being filled with copy-specific garbage before every call "
      "(uninitialised memory is a hidden entropy source); TLC validates the recorded touched-source sets and digests against "
      "the intended design.",
      "Bit-identical = equal SHA-1 of a canonical serialisation; a source counts as consumed when its state digest changed; "
      "subset genetic optimisers and Random*Selection given their own generator still use the global stream, and deep copies of "
      "mating protocols / hill climbers / selection protocols made before the seeding are detached from the global generator (known findings).",
      "TLA+ spec (Entropy.tla) exhaustive TLC model check of a twin product with refuted as-written variants + TLC trace validation of twin executions (Entropy_Trace.tla)",
      "DESIGN.md C08")

def build():
    checks = []
    for pid in sorted(CHECKS):
        c = CHECKS[pid]
        checks.append({
            "property_id": pid,
            "quick_cmd": "./check %s --tier quick" % pid,
            "thorough_cmd": "./check %s --tier thorough" % pid,
            "evidence_file": "/verif/evidence/%s.json" % pid,
            "replay_cmd_template": "./check %s --replay {path}" % pid,
            "engine": "tlc",
            "level_claimed": {"category": "model_checking", "text": c["text"], "design_ref": c["design_ref"]},
            "level_note": c["note"],
            "technique": c["technique"],
        })
    allp = [json.loads(l)["id"] for l in open(os.path.join(ROOT, "properties.jsonl"))]
    na = [{"property_id": p, "reason": NOT_APPLICABLE.get(p, "check not built yet in this round (planned, see DESIGN.md section 3)")}
          for p in allp if p not in CHECKS]
    m = {
        "version": 1,
        "setup_cmd": "./setup.sh",
        "hooks": {"guard": "PYBROPS_VERIF", "enable": "no in-repo hooks are used; all observation is from outside the repository (scripted generators, instrumented subclasses)",
                  "baseline_off_cmd": "cd /repo && /venv/bin/python -m pytest -ra -q -p no:cacheprovider --timeout=900 --continue-on-collection-errors",
                  "source_commits": [], "add_only": True},
        "engines": [{"name": "tlc", "path": "/verif/harness/tlc.py", "serves_properties": sorted(CHECKS),
                     "kind_free_text": "TLC 1.8 model checker on the TLA+ modules under /verif/spec; Python harness drives/records the real code, TLC validates every recorded case/trace"}],
        "checks": checks,
        "notes": "Single entry point ./check CNN --tier quick|thorough. Known findings in /verif/known_findings.json. See DESIGN.md.",
        "not_applicable": na,
    }
    with open(os.path.join(ROOT, "MANIFEST.json"), "w") as f:
        json.dump(m, f, indent=1)
    return m

if __name__ == "__main__":
    m = build()
    try:
        import jsonschema
        jsonschema.validate(m, json.load(open("/root/.vp/MANIFEST.schema.json")))
        print("MANIFEST valid;", len(m["checks"]), "checks")
    except ImportError:
        print("written (jsonschema unavailable)")
