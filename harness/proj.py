"""Observable projection of persistable pybrops objects: every public data attribute becomes a record
{"t": "<dtype>|<shape>" , "v": [repr strings]} so that two projections are comparable field by field (by TLC)."""
import numpy as np

ATTRS = ["mat", "taxa", "taxa_grp", "vrnt_chrgrp", "vrnt_phypos", "vrnt_name", "vrnt_genpos", "vrnt_xoprob", "vrnt_hapgrp",
         "vrnt_hapalt", "vrnt_hapref", "vrnt_mask", "vrnt_stop", "vrnt_fncode", "ploidy", "trait", "location", "scale",
         "taxa_grp_name", "taxa_grp_stix", "taxa_grp_spix", "taxa_grp_len",
         "vrnt_chrgrp_name", "vrnt_chrgrp_stix", "vrnt_chrgrp_spix", "vrnt_chrgrp_len",
         "beta", "u_misc", "u", "u_a", "u_d", "model_name", "hyperparams",
         "nenv", "nrep", "var_env", "var_rep", "var_err"]


DIGITS = [None]


def val(x):
    if x is None:
        return {"t": "None", "v": []}
    if isinstance(x, np.ndarray):
        flat = x.ravel().tolist()
        return {"t": "%s|%s" % (x.dtype.name if x.dtype != object else "object", "x".join(str(s) for s in x.shape)),
                "v": [sv(e) for e in flat]}
    if isinstance(x, dict):
        return {"t": "dict", "v": ["%s=%s" % (k, sv(x[k])) for k in sorted(x)]}
    if isinstance(x, (list, tuple)):
        return {"t": type(x).__name__, "v": [sv(e) for e in x]}
    return {"t": type(x).__name__ if not isinstance(x, (np.generic,)) else "npscalar", "v": [sv(x)]}


def sv(e):
    if e is None:
        return "None"
    if isinstance(e, (bool, np.bool_)):
        return "True" if e else "False"
    if isinstance(e, (float, np.floating)):
        if e != e:
            return "nan"
        if DIGITS[0] is None:
            return repr(float(e))
        r = float(("%." + str(DIGITS[0]) + "g") % float(e))
        if abs(r) < 10.0 ** (-DIGITS[0]):      # values that are zero to rounding error
            r = 0.0
        return repr(r + 0.0)
    if isinstance(e, (int, np.integer)):
        return str(int(e))
    if isinstance(e, bytes):
        return "b:" + e.decode("utf8", "replace")
    if isinstance(e, np.ndarray):
        return "[" + ",".join(sv(t) for t in e.ravel().tolist()) + "]"
    return str(e)


def proj(obj, attrs=ATTRS, prefix="", digits=None):
    old = DIGITS[0]
    if digits is not None:
        DIGITS[0] = digits
    try:
        return _proj(obj, attrs, prefix)
    finally:
        DIGITS[0] = old


def _proj(obj, attrs, prefix):
    out = {}
    for a in attrs:
        try:
            x = getattr(obj, a)
        except AttributeError:
            continue
        except Exception as e:
            out[prefix + a] = {"t": "error", "v": [type(e).__name__]}
            continue
        if callable(x):
            continue
        out[prefix + a] = val(x)
        if a in ("nenv", "nrep") and isinstance(x, np.ndarray) and np.issubdtype(x.dtype, np.integer):
            # trial-design counts: the HDF5 reader documents "converted to int"; the width of an integer count is not
            # observable behaviour (values and shape are compared)
            out[prefix + a]["t"] = "integer|" + out[prefix + a]["t"].split("|", 1)[1]
    gp = getattr(obj, "gpmod", None)
    if gp is not None and not callable(gp):
        out.update(_proj(gp, attrs, prefix + "gpmod."))
    out["class"] = {"t": "str", "v": [type(obj).__name__]}
    return out
